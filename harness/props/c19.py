"""C19 — a LAMMPS log is read back run by run, column by column, value by value.

translator   : trigger strings, version-prefix/slice constants, line-number offsets, the month table, the seek
               statements, the flatten filters and the defaults of the signatures of atomman/lammps/Log.py
               -> lean/Atomman/Generated/LogTriggers.lean (constants the model is built on); the statements of the
               single pass of Log.read (initialisation, loop body, closing of the last block), of the Simulation class
               (setters, __init__, __getitem__) and of the merge loop / Step assertion of Log.flatten as Lean
               definitions, plus normalised-statement pins for the pandas pipelines and the glue
               -> lean/Atomman/Generated/LogSource.lean, proved equal to the hand model in Proofs/C19_Source.lean
               (both re-generated each run; the theorems are re-checked against what the source says now)
correspond   : real atomman.lammps.Log vs the Lean driver on the same synthesised log lines
search       : the property's clauses on the real code against the run specs the log was synthesised from
"""
from __future__ import annotations

import ast
import io
import math
import os
import random
import tempfile
from fractions import Fraction

from .. import common as cm
from ..translate import TranslationError, get_function, strip_doc

PROP = 'C19'
GENERATED = ['LogTriggers', 'LogSource']

# ----------------------------------------------------------------------------------------
# translator
# ----------------------------------------------------------------------------------------


def lean_str(s: str) -> str:
    out = []
    for ch in s:
        o = ord(ch)
        if ch == '"':
            out.append('\\"')
        elif ch == '\\':
            out.append('\\\\')
        elif ch == '\n':
            out.append('\\n')
        elif ch == '\t':
            out.append('\\t')
        elif 32 <= o < 127:
            out.append(ch)
        else:
            out.append('\\u{%x}' % o)
    return '"' + ''.join(out) + '"'


def _str_list(node, what):
    if not isinstance(node, ast.List) or not node.elts:
        raise TranslationError(f'{what}: not a non-empty list literal')
    vals = []
    for e in node.elts:
        if not (isinstance(e, ast.Constant) and isinstance(e.value, str)):
            raise TranslationError(f'{what}: element is not a string literal')
        if e.value == '':
            raise TranslationError(f'{what}: empty trigger string')
        vals.append(e.value)
    return vals


def _offset(expr, what):
    """`i`, `i + c`, `i - c`  ->  integer offset."""
    if isinstance(expr, ast.Name) and expr.id == 'i':
        return 0
    if isinstance(expr, ast.BinOp) and isinstance(expr.left, ast.Name) and expr.left.id == 'i' \
            and isinstance(expr.right, ast.Constant) and isinstance(expr.right.value, int) \
            and not isinstance(expr.right.value, bool):
        if isinstance(expr.op, ast.Add):
            return expr.right.value
        if isinstance(expr.op, ast.Sub):
            return -expr.right.value
    raise TranslationError(f'{what}: appended value `{ast.unparse(expr)}` is not i, i+c or i-c')


TRIGGER_NAMES = {
    'thermo_start_trigger': 'thermoStartTrigger',
    'thermo_end_trigger': 'thermoEndTrigger',
    'performance_start_trigger': 'performanceStartTrigger',
    'performance_start_trigger_old_version': 'performanceStartTriggerOld',
    'performance_end_trigger': 'performanceEndTrigger',
}


def extract_constants(src: str) -> dict:
    """Everything the Lean model takes from Log.py (also used by the harness to label evidence)."""
    read = get_function(src, 'read')
    out = {}
    # ---- trigger lists: plain assignments `name = ['..', ..]` in read()
    for node in ast.walk(read):
        if isinstance(node, ast.Assign) and len(node.targets) == 1 and isinstance(node.targets[0], ast.Name) \
                and node.targets[0].id in TRIGGER_NAMES:
            name = node.targets[0].id
            if name in out:
                raise TranslationError(f'{name} assigned twice')
            out[name] = _str_list(node.value, name)
    for name in TRIGGER_NAMES:
        if name not in out:
            raise TranslationError(f'{name} not found in Log.read')
    # ---- the single pass: `for line in log_info:` and the appends inside / after it
    loops = [n for n in ast.walk(read) if isinstance(n, ast.For) and isinstance(n.target, ast.Name)
             and n.target.id == 'line']
    if len(loops) != 1:
        raise TranslationError('Log.read: expected exactly one `for line in ...` loop')
    loop = loops[0]
    inside = {id(n) for n in ast.walk(loop)}
    appends = {'thermo_headers': [], 'thermo_footers': [], 'performance_headers': [], 'performance_footers': []}
    final = []
    for node in ast.walk(read):
        if isinstance(node, ast.Call) and isinstance(node.func, ast.Attribute) and node.func.attr == 'append' \
                and isinstance(node.func.value, ast.Name) and node.func.value.id in appends and len(node.args) == 1:
            lst = node.func.value.id
            if id(node) in inside:
                appends[lst].append(node.args[0])
            elif lst == 'thermo_footers':
                final.append(node.args[0])
            else:
                raise TranslationError(f'{lst}.append outside the line loop')
    if len(appends['thermo_headers']) != 1 or len(appends['thermo_footers']) != 1 or len(final) != 1:
        raise TranslationError('Log.read: thermo header/footer bookkeeping has an unexpected shape')
    if len(appends['performance_headers']) != 2 or len(appends['performance_footers']) != 1:
        raise TranslationError('Log.read: performance header/footer bookkeeping has an unexpected shape')
    out['thermo_header_offset'] = _offset(appends['thermo_headers'][0], 'thermo_headers')
    out['thermo_footer_offset'] = _offset(appends['thermo_footers'][0], 'thermo_footers')
    out['thermo_final_footer_offset'] = _offset(final[0], 'thermo_footers (after the loop)')
    out['performance_header_offset'] = _offset(appends['performance_headers'][0], 'performance_headers')
    out['performance_header_old_offset'] = _offset(appends['performance_headers'][1], 'performance_headers (old)')
    out['performance_footer_offset'] = _offset(appends['performance_footers'][0], 'performance_footers')
    # the tests guarding the bookkeeping: `any([trigger in line for trigger in <list>])` on the right list, in the
    # if / elif / if / if / elif arrangement the model has; the performance footer additionally needs an open header
    def trig(name):
        return f'any([trigger in line for trigger in {name}])'

    def guard_of(call):
        for n in ast.walk(loop):
            if isinstance(n, ast.If) and any(isinstance(st, ast.Expr) and st.value is call for st in n.body):
                return n
        raise TranslationError('bookkeeping append is not directly inside an `if`')

    def call_of(expr):
        for n in ast.walk(loop):
            if isinstance(n, ast.Call) and len(n.args) == 1 and n.args[0] is expr:
                return n
        raise TranslationError('append call not found')

    g_th = guard_of(call_of(appends['thermo_headers'][0]))
    g_tf = guard_of(call_of(appends['thermo_footers'][0]))
    g_ph = guard_of(call_of(appends['performance_headers'][0]))
    g_po = guard_of(call_of(appends['performance_headers'][1]))
    g_pf = guard_of(call_of(appends['performance_footers'][0]))
    want_tests = [(g_th, trig('thermo_start_trigger')), (g_tf, trig('thermo_end_trigger')),
                  (g_ph, trig('performance_start_trigger')), (g_po, trig('performance_start_trigger_old_version')),
                  (g_pf, trig('performance_end_trigger') + ' and len(performance_footers) < len(performance_headers)')]
    for g, want in want_tests:
        if ast.unparse(g.test) != want:
            raise TranslationError(f'Log.read: bookkeeping guarded by `{ast.unparse(g.test)}`, expected `{want}`')
    if g_th.orelse != [g_tf] or g_tf.orelse or g_ph.orelse or g_po.orelse != [g_pf] or g_pf.orelse \
            or any(g not in loop.body for g in (g_th, g_ph, g_po)):
        raise TranslationError('Log.read: the if / elif arrangement of the trigger tests changed')
    # blank lines: `if len(line.split()) == 0: continue` before anything is looked at or counted
    blank = [n for n in loop.body if isinstance(n, ast.If) and len(n.body) == 1 and isinstance(n.body[0], ast.Continue)]
    if len(blank) != 1 or ast.unparse(blank[0].test) != 'len(line.split()) == 0' or blank[0].orelse \
            or sum(1 for n in ast.walk(loop) if isinstance(n, (ast.Continue, ast.Break))) != 1 \
            or loop.body.index(blank[0]) > min(loop.body.index(g) for g in (g_th, g_ph, g_po)):
        raise TranslationError('Log.read: `if len(line.split()) == 0: continue` (the only skip) not found before the '
                               'trigger tests')
    # the counter must be advanced once per non-blank line
    incs = [n for n in ast.walk(loop) if isinstance(n, ast.AugAssign) and isinstance(n.target, ast.Name)
            and n.target.id == 'i']
    if len(incs) != 1 or not isinstance(incs[0].op, ast.Add) or ast.unparse(incs[0].value) != '1' \
            or incs[0] not in loop.body:
        raise TranslationError('Log.read: `i += 1` once per counted line not found at loop level')
    # ---- version banner test  line[:N] == 'LAMMPS ('
    pref = None
    for node in ast.walk(loop):
        if isinstance(node, ast.Compare) and len(node.ops) == 1 and isinstance(node.ops[0], ast.Eq) \
                and isinstance(node.left, ast.Subscript) and isinstance(node.left.value, ast.Name) \
                and node.left.value.id == 'line' and isinstance(node.left.slice, ast.Slice) \
                and node.left.slice.lower is None and isinstance(node.left.slice.upper, ast.Constant) \
                and isinstance(node.comparators[0], ast.Constant) and isinstance(node.comparators[0].value, str):
            if pref is not None:
                raise TranslationError('two version-prefix tests')
            pref = (node.left.slice.upper.value, node.comparators[0].value)
    if pref is None or not isinstance(pref[0], int) or pref[0] < 0:
        raise TranslationError('version banner test `line[:N] == ...` not found')
    out['version_prefix_len'], out['version_prefix'] = pref
    # ---- __read_lammps_version: month table and the slice line.strip()[a:-b]
    rv = get_function(src, '__read_lammps_version')
    month = None
    sl = None
    for node in ast.walk(rv):
        if isinstance(node, ast.Assign) and len(node.targets) == 1 and isinstance(node.targets[0], ast.Name) \
                and node.targets[0].id == 'month' and isinstance(node.value, ast.Dict):
            try:
                month = ast.literal_eval(node.value)
            except Exception:
                raise TranslationError('month table is not a literal')
        if isinstance(node, ast.Subscript) and ast.unparse(node.value) == 'line.strip()' \
                and isinstance(node.slice, ast.Slice):
            try:
                a = ast.literal_eval(node.slice.lower)
                b = ast.literal_eval(node.slice.upper)
            except Exception:
                raise TranslationError('version slice bounds are not literals')
            sl = (a, b)
    if month is None or not all(isinstance(k, str) and isinstance(v, int) and not isinstance(v, bool) and v >= 0
                                for k, v in month.items()):
        raise TranslationError('month table not found / not str -> int')
    if sl is None or not (isinstance(sl[0], int) and isinstance(sl[1], int) and sl[0] >= 0 and sl[1] < 0):
        raise TranslationError('version slice `line.strip()[a:-b]` not found')
    out['month'] = list(month.items())
    out['version_slice_start'] = sl[0]
    out['version_slice_drop_end'] = -sl[1]
    # ---- the guard of the banner test: `line[:N] == prefix and self.lammps_version is None`
    guard = None
    for node in ast.walk(loop):
        if isinstance(node, ast.If) and 'LAMMPS' in ast.unparse(node.test) and '__read_lammps_version' in ast.unparse(node):
            t = node.test
            if isinstance(t, ast.Compare):
                guard = False
            elif isinstance(t, ast.BoolOp) and isinstance(t.op, ast.And) and len(t.values) == 2 \
                    and isinstance(t.values[0], ast.Compare) \
                    and ast.unparse(t.values[1]) in ('self.lammps_version is None', 'self.__lammps_version is None'):
                guard = True
            else:
                raise TranslationError(f'version banner guard `{ast.unparse(t)}` has an unexpected shape')
    if guard is None:
        raise TranslationError('`if line[:N] == prefix ...: self.__read_lammps_version(line)` not found')
    out['version_only_if_unset'] = guard
    # ---- `if append is False:` resets
    resets = None
    for node in read.body:
        if isinstance(node, ast.If) and ast.unparse(node.test) in ('append is False', 'not append', 'append == False'):
            if node.orelse:
                raise TranslationError('`if append is False:` has an else branch')
            resets = {}
            for st in node.body:
                if not (isinstance(st, ast.Assign) and len(st.targets) == 1):
                    raise TranslationError('`if append is False:` body is not a list of plain assignments')
                resets[ast.unparse(st.targets[0])] = ast.unparse(st.value)
    if resets is None:
        raise TranslationError('`if append is False:` not found at the top of Log.read')
    want = {'self.__simulations': '[]', 'self.__lammps_version': 'None', 'self.__lammps_date': 'None'}
    for k, v in resets.items():
        if k not in want or v != want[k]:
            raise TranslationError(f'`if append is False:` assigns {k} = {v}')
    out['reset_simulations'] = 'self.__simulations' in resets
    out['reset_version'] = 'self.__lammps_version' in resets
    out['reset_date'] = 'self.__lammps_date' in resets
    # ---- the table reads: for header, footer in zip(thermo_headers, thermo_footers): self.__read_thermo(log_info, header, footer)
    zips = [n for n in ast.walk(read) if isinstance(n, ast.For)
            and ast.unparse(n.iter) == 'zip(thermo_headers, thermo_footers)' and ast.unparse(n.target) in ('header, footer', '(header, footer)')]
    if len(zips) != 1 or len(zips[0].body) != 1 \
            or ast.unparse(zips[0].body[0]) != 'self.__read_thermo(log_info, header, footer)':
        raise TranslationError('`for header, footer in zip(thermo_headers, thermo_footers): self.__read_thermo(log_info, '
                               'header, footer)` not found')
    rt = get_function(src, '__read_thermo')
    if [a.arg for a in rt.args.args] != ['self', 'log_info', 'header', 'footer']:
        raise TranslationError('__read_thermo signature changed')
    calls = [n for n in ast.walk(rt) if isinstance(n, ast.Call) and ast.unparse(n.func) == 'pd.read_csv']
    if len(calls) != 1:
        raise TranslationError('__read_thermo: expected exactly one pd.read_csv call')
    c = calls[0]
    if len(c.args) != 1 or ast.unparse(c.args[0]) != 'log_info':
        raise TranslationError('__read_thermo: pd.read_csv is not called on log_info')
    kw = {k.arg: k.value for k in c.keywords}
    expect = {'header': 'header', 'nrows': 'footer - header', 'skip_blank_lines': 'True'}
    for k, v in expect.items():
        if k == 'skip_blank_lines' and k not in kw:
            continue
        if k not in kw or ast.unparse(kw[k]) != v:
            raise TranslationError(f'__read_thermo: pd.read_csv option {k} is not `{v}`')
    if not ('sep' in kw and isinstance(kw['sep'], ast.Constant) and kw['sep'].value == '\\s+'):
        raise TranslationError("__read_thermo: pd.read_csv option sep is not r'\\s+'")
    extra = set(kw) - {'header', 'nrows', 'skip_blank_lines', 'sep'}
    if extra:
        raise TranslationError(f'__read_thermo: unexpected pd.read_csv options {sorted(extra)}')
    appends_thermo = [n for n in ast.walk(rt) if isinstance(n, ast.Call) and ast.unparse(n.func) == 'self.__simulations.append']
    if len(appends_thermo) != 1 or ast.unparse(appends_thermo[0].args[0]) != 'Simulation(thermo=thermo)':
        raise TranslationError('__read_thermo does not append Simulation(thermo=thermo) to self.__simulations')
    # ---- where the caller's stream is rewound: `log_info.seek(0)` statements around the single pass and around
    #      the pandas reads (an open stream is passed through by uber_open_rmode and outlives the call)
    def is_seek0(st):
        return isinstance(st, ast.Expr) and ast.unparse(st.value) == 'log_info.seek(0)'

    def n_pos_calls(fn):
        return sum(1 for n in ast.walk(fn) if isinstance(n, ast.Call) and isinstance(n.func, ast.Attribute)
                   and n.func.attr in ('seek', 'tell', 'truncate', 'close', 'readline', 'readlines'))

    withs = [n for n in ast.walk(read) if isinstance(n, ast.With) and loop in n.body]
    if len(withs) != 1 or ast.unparse(withs[0].items[0].context_expr) != 'uber_open_rmode(log_info)' \
            or ast.unparse(withs[0].items[0].optional_vars) != 'log_info':
        raise TranslationError('Log.read: `with uber_open_rmode(log_info) as log_info:` around the line loop not found')
    body = withs[0].body
    if zips[0] not in body:
        raise TranslationError('Log.read: the table loop is not at the level of the line loop')
    k_loop, k_zip = body.index(loop), body.index(zips[0])
    seeks = [k for k, st in enumerate(body) if is_seek0(st)]
    if n_pos_calls(read) != len(seeks) or any(k > k_zip for k in seeks) or k_zip < k_loop:
        raise TranslationError('Log.read: stream positioning other than `log_info.seek(0)` statements before the table loop')
    out['seek_before_scan'] = any(k < k_loop for k in seeks)
    out['seek_after_scan'] = any(k_loop < k < k_zip for k in seeks)
    k_csv = [k for k, st in enumerate(rt.body) if c in list(ast.walk(st))]
    seeks = [k for k, st in enumerate(rt.body) if is_seek0(st)]
    if len(k_csv) != 1 or n_pos_calls(rt) != len(seeks):
        raise TranslationError('__read_thermo: stream positioning other than top-level `log_info.seek(0)` statements')
    for k, st in enumerate(rt.body):
        is_doc = isinstance(st, ast.Expr) and isinstance(st.value, ast.Constant) and isinstance(st.value.value, str)
        is_read = isinstance(st, ast.Assign) and st.value is c and ast.unparse(st.targets[0]) == 'thermo'
        is_app = isinstance(st, ast.Expr) and st.value is appends_thermo[0]
        if not (is_doc or is_read or is_app or is_seek0(st)):
            raise TranslationError(f'__read_thermo: unexpected statement `{ast.unparse(st)[:80]}` (the table is stored as read)')
    out['thermo_seek_before'] = any(k < k_csv[0] for k in seeks)
    out['thermo_seek_after'] = any(k > k_csv[0] for k in seeks)
    rp = get_function(src, '__read_performance')
    if [a.arg for a in rp.args.args][:2] != ['self', 'log_info']:
        raise TranslationError('__read_performance signature changed')
    pcalls = [n for n in ast.walk(rp) if isinstance(n, ast.Call) and ast.unparse(n.func) == 'pd.read_csv']
    if not pcalls or any(len(n.args) != 1 or ast.unparse(n.args[0]) != 'log_info' for n in pcalls):
        raise TranslationError('__read_performance: pd.read_csv is not called on log_info')
    k_csv = sorted({k for k, st in enumerate(rp.body) for n in pcalls if n in list(ast.walk(st))})
    seeks = [k for k, st in enumerate(rp.body) if is_seek0(st)]
    if not k_csv or n_pos_calls(rp) != len(seeks) or any(k_csv[0] < k < k_csv[-1] for k in seeks):
        raise TranslationError('__read_performance: stream positioning other than top-level `log_info.seek(0)` statements')
    out['perf_seek_before'] = any(k < k_csv[0] for k in seeks)
    out['perf_seek_after'] = any(k > k_csv[-1] for k in seeks)
    # ---- flatten: the two row filters
    fl = get_function(src, 'flatten')
    OPS = {ast.Gt: '>', ast.GtE: '≥', ast.Lt: '<', ast.LtE: '≤', ast.Eq: '=', ast.NotEq: '≠'}
    first = last = None
    for node in ast.walk(fl):
        if isinstance(node, ast.Compare) and len(node.ops) == 1 and type(node.ops[0]) in OPS:
            l, r = ast.unparse(node.left), ast.unparse(node.comparators[0])
            if (l, r) == ('thermo.Step', 'merged_df.Step.max()'):
                if first is not None:
                    raise TranslationError('flatten: two `thermo.Step ? merged_df.Step.max()` filters')
                first = OPS[type(node.ops[0])]
            if (l, r) == ('merged_df.Step', 'thermo.Step.min()'):
                if last is not None:
                    raise TranslationError('flatten: two `merged_df.Step ? thermo.Step.min()` filters')
                last = OPS[type(node.ops[0])]
    if first is None or last is None:
        raise TranslationError('flatten: the filters `thermo.Step > merged_df.Step.max()` / `merged_df.Step < '
                               'thermo.Step.min()` were not found')
    src_fl = ast.unparse(fl)
    for frag in ("pd.concat([merged_df, thermo[thermo.Step", "pd.concat([merged_df[merged_df.Step",
                 "pd.concat([merged_df, thermo], ignore_index=True)", "self.simulations[firstindex:lastindex]",
                 "merged_df = simulations[0].thermo", "for sim in simulations[1:]:"):
        if frag not in src_fl:
            raise TranslationError(f'flatten: `{frag}…` not found')
    sim_loops = [n for n in ast.walk(fl) if isinstance(n, ast.For) and ast.unparse(n.iter) == 'simulations[1:]']
    skips = [n for lp in sim_loops for n in ast.walk(lp) if isinstance(n, ast.If)
             and any(isinstance(x, (ast.Continue, ast.Break)) for x in ast.walk(n))]
    if len(sim_loops) != 1 or len(skips) != 1 or ast.unparse(skips[0].test) != 'thermo is None' \
            or len(skips[0].body) != 1 or not isinstance(skips[0].body[0], ast.Continue) or skips[0].orelse:
        raise TranslationError('flatten: the merge loop skips runs other than by `if thermo is None: continue`')
    out['first_keep_op'] = first
    out['last_keep_op'] = last
    # ---- signatures and defaults of the public entry points
    def sig(fn, want_names):
        a = fn.args
        names = [x.arg for x in a.args]
        if names != want_names or a.vararg or a.kwarg or a.kwonlyargs or a.posonlyargs:
            raise TranslationError(f'{fn.name}: parameters {names}, expected {want_names}')
        defaults = [None] * (len(names) - len(a.defaults)) + list(a.defaults)
        return dict(zip(names, defaults))

    d = sig(read, ['self', 'log_info', 'append'])
    if d['log_info'] is not None or not (isinstance(d['append'], ast.Constant) and isinstance(d['append'].value, bool)):
        raise TranslationError('Log.read: `log_info` must be required and `append` default to a bool literal')
    out['read_append_default'] = d['append'].value
    d = sig(fl, ['self', 'style', 'firstindex', 'lastindex'])
    if not (isinstance(d['style'], ast.Constant) and isinstance(d['style'].value, str)):
        raise TranslationError('Log.flatten: default of `style` is not a string literal')
    for nm in ('firstindex', 'lastindex'):
        if not (isinstance(d[nm], ast.Constant) and d[nm].value is None):
            raise TranslationError(f'Log.flatten: default of `{nm}` is not None')
    out['flatten_style_default'] = d['style'].value
    tree = ast.parse(src)
    cls = {n.name: n for n in tree.body if isinstance(n, ast.ClassDef)}
    if 'Log' not in cls or 'Simulation' not in cls:
        raise TranslationError('classes Log / Simulation not found at module level')
    linit = [n for n in cls['Log'].body if isinstance(n, ast.FunctionDef) and n.name == '__init__']
    if len(linit) != 1:
        raise TranslationError('Log.__init__ not found')
    d = sig(linit[0], ['self', 'log_info'])
    if not (isinstance(d['log_info'], ast.Constant) and d['log_info'].value is None):
        raise TranslationError('Log.__init__: default of `log_info` is not None')
    body = strip_doc(linit[0].body)
    want_init = {'self.__simulations': '[]', 'self.__lammps_version': 'None', 'self.__lammps_date': 'None'}
    seen = {}
    reads = None
    for st in body:
        if isinstance(st, ast.Assign) and len(st.targets) == 1 and ast.unparse(st.targets[0]) in want_init:
            seen[ast.unparse(st.targets[0])] = ast.unparse(st.value)
        elif isinstance(st, ast.If) and ast.unparse(st.test) == 'log_info is not None' and not st.orelse \
                and len(st.body) == 1 and ast.unparse(st.body[0]) == 'self.read(log_info)' and seen == want_init:
            reads = True
        else:
            raise TranslationError(f'Log.__init__: unexpected statement `{ast.unparse(st)[:80]}`')
    if seen != want_init:
        raise TranslationError('Log.__init__ does not start from [] / None / None')
    out['ctor_reads'] = bool(reads)
    return out


# ----------------------------------------------------------------------------------------
# translator, part 2: the statements of Log.py as Lean definitions (Generated/LogSource.lean); Proofs/C19_Source.lean
# proves each of them equal to the hand model (gen_…_eq_model) or pins the normalised statements (gen_…_pinned)
# ----------------------------------------------------------------------------------------
SCAN_LISTS = {'thermo_headers': 'thermoHeaders', 'thermo_footers': 'thermoFooters',
              'performance_headers': 'perfHeaders', 'performance_simulations': 'perfSims',
              'performance_footers': 'perfFooters'}
TRIGGER_MODEL = {'thermo_start_trigger': 'thermoStart', 'thermo_end_trigger': 'thermoEnd',
                 'performance_start_trigger': 'perfStart', 'performance_start_trigger_old_version': 'perfStartOld',
                 'performance_end_trigger': 'perfEnd'}


def _int_lit(v):
    return str(v) if v >= 0 else f'({v})'


def _scan_int(e):
    """integer expressions of the bookkeeping: i, len(<list>), <int literal>, a + b, a - b  (as Lean `Int`)."""
    if isinstance(e, ast.Name) and e.id == 'i':
        return '(s.i : Int)'
    if isinstance(e, ast.Constant) and isinstance(e.value, int) and not isinstance(e.value, bool):
        return _int_lit(e.value)
    if isinstance(e, ast.Call) and isinstance(e.func, ast.Name) and e.func.id == 'len' and len(e.args) == 1 \
            and not e.keywords and isinstance(e.args[0], ast.Name) and e.args[0].id in SCAN_LISTS:
        return f'(s.{SCAN_LISTS[e.args[0].id]}.length : Int)'
    if isinstance(e, ast.BinOp) and isinstance(e.op, (ast.Add, ast.Sub)):
        op = '+' if isinstance(e.op, ast.Add) else '-'
        return f'({_scan_int(e.left)} {op} {_scan_int(e.right)})'
    raise TranslationError(f'single pass: integer expression `{ast.unparse(e)}` outside the translated subset')


def _scan_test(e):
    """boolean tests of the single pass."""
    if isinstance(e, ast.BoolOp):
        op = ' && ' if isinstance(e.op, ast.And) else ' || '
        return '(' + op.join(_scan_test(v) for v in e.values) + ')'
    if isinstance(e, ast.UnaryOp) and isinstance(e.op, ast.Not):
        return f'(!{_scan_test(e.operand)})'
    u = ast.unparse(e)
    for py, lean in TRIGGER_MODEL.items():
        if u == f'any([trigger in line for trigger in {py}])':
            return f'hasAny {lean} line'
    if u in ('self.lammps_version is None', 'self.__lammps_version is None'):
        return '(!s.haveVersion)'
    if u in ('self.lammps_version is not None', 'self.__lammps_version is not None'):
        return 's.haveVersion'
    if isinstance(e, ast.Compare) and len(e.ops) == 1:
        l, r = e.left, e.comparators[0]
        if isinstance(e.ops[0], ast.Eq) and isinstance(l, ast.Subscript) and isinstance(l.value, ast.Name) \
                and l.value.id == 'line' and isinstance(l.slice, ast.Slice) and l.slice.lower is None \
                and l.slice.step is None and isinstance(l.slice.upper, ast.Constant) \
                and isinstance(l.slice.upper.value, int) and l.slice.upper.value >= 0 \
                and isinstance(r, ast.Constant) and isinstance(r.value, str):
            return f'(line.take {l.slice.upper.value} == {lean_str(r.value)}.toList)'
        cmpops = {ast.Lt: '<', ast.LtE: '≤', ast.Gt: '>', ast.GtE: '≥', ast.Eq: '=', ast.NotEq: '≠'}
        if type(e.ops[0]) in cmpops:
            return f'decide ({_scan_int(l)} {cmpops[type(e.ops[0])]} {_scan_int(r)})'
    raise TranslationError(f'single pass: test `{u}` outside the translated subset')


def _scan_stmt(st):
    """one bookkeeping statement -> a Lean expression of type Scan in terms of `s` (and `line`)."""
    u = ast.unparse(st)
    if isinstance(st, ast.Expr) and isinstance(st.value, ast.Call):
        c = st.value
        if isinstance(c.func, ast.Attribute) and c.func.attr == 'append' and isinstance(c.func.value, ast.Name) \
                and c.func.value.id in SCAN_LISTS and len(c.args) == 1 and not c.keywords:
            f = SCAN_LISTS[c.func.value.id]
            return f'{{ s with {f} := s.{f} ++ [{_scan_int(c.args[0])}] }}'
        if u == 'self.__read_lammps_version(line)':
            return '{ s with versionLine := some line, haveVersion := true }'
    if isinstance(st, ast.Assign) and u in ('is_old_version = True', 'is_old_version = False'):
        return '{ s with isOld := %s }' % ('true' if st.value.value else 'false')
    if isinstance(st, ast.AugAssign) and isinstance(st.target, ast.Name) and st.target.id == 'i' \
            and isinstance(st.op, ast.Add) and isinstance(st.value, ast.Constant) and isinstance(st.value.value, int) \
            and not isinstance(st.value.value, bool) and st.value.value >= 0:
        return f'{{ s with i := s.i + {st.value.value} }}'
    if isinstance(st, ast.If):
        return (f'if {_scan_test(st.test)} then\n{_scan_block(st.body)}\nelse\n'
                + (_scan_block(st.orelse) if st.orelse else '(s)'))
    raise TranslationError(f'single pass: statement `{u[:80]}` outside the translated subset')


def _indent(txt, n=2):
    return '\n'.join(' ' * n + l for l in txt.split('\n'))


def _scan_block(stmts):
    """a statement list -> `(let s := …; let s := …; s)`"""
    L = ['(']
    for st in stmts:
        L.append('  let s : Scan :=')
        L.append(_indent(_scan_stmt(st), 4))
    L.append('  s)')
    return '\n'.join(L)


def _filter_expr(e, side):
    """an operand of pd.concat([...]) in the merge loop -> a Lean list expression over `merged` / `thermo`."""
    names = {'merged_df': 'merged', 'thermo': 'thermo'}
    if isinstance(e, ast.Name) and e.id in names:
        return names[e.id]
    ops = {ast.Gt: '>', ast.GtE: '≥', ast.Lt: '<', ast.LtE: '≤', ast.Eq: '=', ast.NotEq: '≠'}
    if isinstance(e, ast.Subscript) and isinstance(e.value, ast.Name) and e.value.id in names \
            and isinstance(e.slice, ast.Compare) and len(e.slice.ops) == 1 and type(e.slice.ops[0]) in ops:
        x = e.value.id
        l, r = e.slice.left, e.slice.comparators[0]
        if ast.unparse(l) == f'{x}.Step' and isinstance(r, ast.Call) and not r.args and not r.keywords \
                and isinstance(r.func, ast.Attribute) and r.func.attr in ('max', 'min') \
                and isinstance(r.func.value, ast.Attribute) and r.func.value.attr == 'Step' \
                and isinstance(r.func.value.value, ast.Name) and r.func.value.value.id in names:
            agg = 'maxStep?' if r.func.attr == 'max' else 'minStep?'
            y = names[r.func.value.value.id]
            return (f'({names[x]}.filter (fun r => match {agg} step {y} with '
                    f'| some m => decide (step r {ops[type(e.slice.ops[0])]} m) | none => false))')
    raise TranslationError(f'flatten: operand `{ast.unparse(e)}` of pd.concat outside the translated subset')


def _concat_expr(st):
    """`merged_df = pd.concat([A, B], ignore_index=True)` -> Lean `A ++ B`"""
    if not (isinstance(st, ast.Assign) and len(st.targets) == 1 and ast.unparse(st.targets[0]) == 'merged_df'
            and isinstance(st.value, ast.Call) and ast.unparse(st.value.func) == 'pd.concat'
            and len(st.value.args) == 1 and isinstance(st.value.args[0], ast.List) and len(st.value.args[0].elts) == 2):
        raise TranslationError(f'flatten: `{ast.unparse(st)[:80]}` is not merged_df = pd.concat([A, B], …)')
    kw = {k.arg: ast.unparse(k.value) for k in st.value.keywords}
    if kw != {'ignore_index': 'True'}:
        raise TranslationError(f'flatten: pd.concat options {kw}, expected ignore_index=True only')
    a, b_ = st.value.args[0].elts
    return f'{_filter_expr(a, 0)} ++ {_filter_expr(b_, 1)}'


EXC_LEAN = {'ValueError': '.value', 'IndexError': '.index', 'KeyError': '.key', 'AssertionError': '.assert',
            'AttributeError': '.attr', 'TypeError': '.type'}


def _pin(stmts):
    return [ast.unparse(st) for st in stmts]


def _lean_strs(xs):
    return '[' + ',\n   '.join(lean_str(x) for x in xs) + ']'


def translate_source(src: str) -> str:
    tree = ast.parse(src)
    cls = {n.name: n for n in tree.body if isinstance(n, ast.ClassDef)}
    read = get_function(src, 'read')
    L = ['/- GENERATED by harness/props/c19.py (translate_source) from atomman/lammps/Log.py — do not edit.',
         '   Proofs/C19_Source.lean proves every definition here equal to the hand model (gen_…_eq_model) or states what',
         '   the normalised statements are (gen_…_pinned). -/',
         'import Atomman.C19', 'set_option linter.unusedVariables false', 'namespace Atomman.Gen.LogSrc',
         'open Atomman Atomman.C19', '']
    # ---------------- Log.read: initialisation, the loop body, the closing of the last block
    loops = [n for n in ast.walk(read) if isinstance(n, ast.For) and ast.unparse(n.target) == 'line']
    withs = [n for n in ast.walk(read) if isinstance(n, ast.With)]
    if len(loops) != 1 or len(withs) != 1 or loops[0] not in withs[0].body or withs[0] not in read.body:
        raise TranslationError('Log.read: `with …:` holding the `for line in log_info:` loop not found')
    loop, body = loops[0], withs[0].body
    if ast.unparse(loop.iter) != 'log_info' or loop.orelse:
        raise TranslationError('Log.read: the single pass does not iterate over log_info')
    k_loop = body.index(loop)
    init = {}
    pre = [st for st in read.body[:read.body.index(withs[0])]] + body[:k_loop]
    for st in pre:
        if isinstance(st, ast.Assign) and len(st.targets) == 1 and isinstance(st.targets[0], ast.Name):
            nm, v = st.targets[0].id, ast.unparse(st.value)
            if nm in SCAN_LISTS:
                if v != '[]' or nm in init:
                    raise TranslationError(f'Log.read: `{nm}` does not start as one empty list')
                init[nm] = '[]'
            elif nm == 'i':
                if not (isinstance(st.value, ast.Constant) and isinstance(st.value.value, int)
                        and not isinstance(st.value.value, bool) and st.value.value >= 0) or 'i' in init:
                    raise TranslationError('Log.read: the line counter does not start from one natural-number literal')
                init['i'] = str(st.value.value)
            elif nm == 'is_old_version':
                if v not in ('True', 'False') or nm in init:
                    raise TranslationError('Log.read: is_old_version does not start from one bool literal')
                init[nm] = v.lower()
    missing = [nm for nm in list(SCAN_LISTS) + ['i', 'is_old_version'] if nm not in init]
    if missing:
        raise TranslationError(f'Log.read: no initialisation of {missing} before the single pass')
    L += ['/-- the bookkeeping variables as `Log.read` initialises them before the single pass (`hv`: a version is known) -/',
          'def init (hv : Bool) : Scan :=',
          '  { i := %s, haveVersion := hv, versionLine := none, thermoHeaders := %s, thermoFooters := %s,' % (
              init['i'], init['thermo_headers'], init['thermo_footers']),
          '    perfHeaders := %s, perfSims := %s, perfFooters := %s, isOld := %s }' % (
              init['performance_headers'], init['performance_simulations'], init['performance_footers'],
              init['is_old_version']), '']
    stmts = list(loop.body)
    if not stmts or ast.unparse(stmts[0]) != "line = line.decode('UTF-8')":
        raise TranslationError("Log.read: the loop body does not start with line = line.decode('UTF-8')")
    stmts = stmts[1:]
    if not stmts or ast.unparse(stmts[0]) != 'if len(line.split()) == 0:\n    continue':
        raise TranslationError('Log.read: `if len(line.split()) == 0: continue` is not the first test of the loop body')
    stmts = stmts[1:]
    if any(isinstance(n, (ast.Continue, ast.Break, ast.Return)) for st in stmts for n in ast.walk(st)):
        raise TranslationError('Log.read: continue / break / return inside the bookkeeping')
    L += ['/-- the body of `for line in log_info:` statement by statement, in the order of the source -/',
          'def step (s : Scan) (line : Str) : Scan :=',
          '  if isBlank line then s else']
    for st in stmts:
        L.append('  let s : Scan :=')
        L.append(_indent(_scan_stmt(st), 4))
    L += ['  s', '']
    # after the loop, up to the table loop
    zips = [n for n in body if isinstance(n, ast.For) and ast.unparse(n.iter) == 'zip(thermo_headers, thermo_footers)']
    if len(zips) != 1:
        raise TranslationError('Log.read: table loop not found')
    k_zip = body.index(zips[0])
    fin, j_before = [], False
    for st in body[k_loop + 1:k_zip]:
        u = ast.unparse(st)
        if u == 'log_info.seek(0)':
            continue
        if u == 'j = len(self.simulations)':
            j_before = True
            continue
        fin.append(st)
    L += ['/-- the statements between the single pass and the table loop (the last, unterminated block is closed) -/',
          'def finish (s : Scan) : Scan :=']
    for st in fin:
        L.append('  let s : Scan :=')
        L.append(_indent(_scan_stmt(st), 4))
    L += ['  s', '',
          '/-- `j = len(self.simulations)` is taken before the table loop appends the new records -/',
          f'def jBeforeTableLoop : Bool := {"true" if j_before else "false"}', '']
    rest = body[k_zip + 1:]
    L += ['/-- the statements of `Log.read` after the table loop (normalised): the timing tables are read footer by',
          '    footer and stored in record `performance_simulations[i] + j` -/',
          'def perfLoop : List String :=', '  ' + _lean_strs(_pin(rest)), '']
    rp = get_function(src, '__read_performance')
    L += ['/-- `__read_performance` (normalised statements; pandas calls, modelled by readPerfNew / readPerfOld) -/',
          'def readPerformance : List String :=', '  ' + _lean_strs(_pin(strip_doc(rp.body))), '']
    # ---------------- imports: where uber_open_rmode comes from
    imp = [ast.unparse(n) for n in tree.body if isinstance(n, ast.ImportFrom)
           and any(a.name == 'uber_open_rmode' for a in n.names)]
    tools = ast.parse(cm.source('atomman/tools/__init__.py'))
    timp = [f'from {"." * n.level}{n.module or ""} import uber_open_rmode' for n in tools.body
            if isinstance(n, ast.ImportFrom) and any(a.name == 'uber_open_rmode' and a.asname is None for a in n.names)]
    tdefs = [n.name for n in ast.walk(tools) if isinstance(n, (ast.FunctionDef, ast.ClassDef)) and n.name == 'uber_open_rmode']
    tassign = [ast.unparse(n) for n in ast.walk(tools) if isinstance(n, ast.Assign)
               and any(ast.unparse(t) == 'uber_open_rmode' for t in n.targets)]
    L += ['/-- where the input decision (text / path / bytes / stream) is made: the import in Log.py and what',
          '    atomman/tools/__init__.py binds the name to -/',
          'def openerImports : List String :=', '  ' + _lean_strs(imp + timp + tdefs + tassign), '']
    # ---------------- Simulation
    sim = cls.get('Simulation')
    if sim is None:
        raise TranslationError('class Simulation not found')
    fns = {}
    for n in sim.body:
        if isinstance(n, ast.FunctionDef):
            deco = [ast.unparse(d) for d in n.decorator_list]
            fns[(n.name, tuple(deco))] = n

    def setter(attr, field, leanfield):
        fn = fns.get((attr, (f'{attr}.setter',)))
        if fn is None or [a.arg for a in fn.args.args] != ['self', 'value']:
            raise TranslationError(f'Simulation.{attr} setter not found')
        b_ = strip_doc(fn.body)
        want0 = (f'if isinstance(value, pd.DataFrame):\n    self.{field} = value\nelse:\n'
                 f'    self.{field} = pd.DataFrame(value)')
        if len(b_) != 2 or ast.unparse(b_[0]) != want0:
            raise TranslationError(f'Simulation.{attr} setter: the value is not stored in self.{field} as given / as a DataFrame')
        g = b_[1]
        if not (isinstance(g, ast.If) and not g.orelse and len(g.body) == 1 and isinstance(g.test, ast.Compare)
                and len(g.test.ops) == 1 and isinstance(g.test.ops[0], ast.NotIn)
                and isinstance(g.test.left, ast.Constant) and isinstance(g.test.left.value, str)
                and ast.unparse(g.test.comparators[0]) in ('self.keys()', 'self.__keys')
                and isinstance(g.body[0], ast.Expr) and isinstance(g.body[0].value, ast.Call)
                and ast.unparse(g.body[0].value.func) == 'self.__keys.append' and len(g.body[0].value.args) == 1
                and isinstance(g.body[0].value.args[0], ast.Constant) and isinstance(g.body[0].value.args[0].value, str)):
            raise TranslationError(f'Simulation.{attr} setter: key bookkeeping `{ast.unparse(g)[:80]}` outside the translated subset')
        tested, added = g.test.left.value, g.body[0].value.args[0].value
        return [f'/-- `Simulation.{attr}` setter -/',
                f'def set_{attr} (s : SimObj) (v : {"Table" if leanfield == "thermo" else "Perf"}) : SimObj :=',
                f'  let s : SimObj := {{ s with {leanfield} := some v }}',
                f'  if !(s.keys.contains {lean_str(tested)}) then {{ s with keys := s.keys ++ [{lean_str(added)}] }} else s', '']
    L += setter('thermo', '__thermo', 'thermo') + setter('performance', '__performance', 'perf')
    for attr, field in (('thermo', '__thermo'), ('performance', '__performance')):
        g = fns.get((attr, ('property',)))
        if g is None or _pin(strip_doc(g.body)) != [f'return self.{field}']:
            raise TranslationError(f'Simulation.{attr} getter does not return self.{field}')
    k = fns.get(('keys', ()))
    if k is None or _pin(strip_doc(k.body)) != ['return tuple(self.__keys)']:
        raise TranslationError('Simulation.keys() does not return tuple(self.__keys)')
    ini = fns.get(('__init__', ()))
    if ini is None or [a.arg for a in ini.args.args] != ['self', 'thermo', 'performance'] \
            or [ast.unparse(d) for d in ini.args.defaults] != ['None', 'None']:
        raise TranslationError('Simulation.__init__(self, thermo=None, performance=None) not found')
    ib = strip_doc(ini.body)
    start = {'self.__thermo': 'None', 'self.__performance': 'None', 'self.__keys': '[]'}
    got = {}
    L += ['/-- `Simulation.__init__`: statement by statement -/',
          'def simInit (thermo : Option Table) (performance : Option Perf) : SimObj :=',
          '  let s : SimObj := { thermo := none, perf := none, keys := [] }']
    for st in ib:
        u = ast.unparse(st)
        if isinstance(st, ast.Assign) and len(st.targets) == 1 and ast.unparse(st.targets[0]) in start:
            if got is None:
                raise TranslationError('Simulation.__init__: a field is reset after a setter ran')
            got[ast.unparse(st.targets[0])] = ast.unparse(st.value)
            continue
        ok = False
        for attr in ('thermo', 'performance'):
            if u == f'if {attr} is not None:\n    self.{attr} = {attr}':
                if got != start and got is not None:
                    raise TranslationError('Simulation.__init__: setters run before the fields exist')
                got = None
                L.append(f'  let s : SimObj := match {attr} with | some v => set_{attr} s v | none => s')
                ok = True
        if not ok:
            raise TranslationError(f'Simulation.__init__: statement `{u[:80]}` outside the translated subset')
    L += ['  s', '']
    gi = fns.get(('__getitem__', ()))
    if gi is None:
        raise TranslationError('Simulation.__getitem__ not found')
    gb = strip_doc(gi.body)
    if len(gb) != 2 or not isinstance(gb[0], ast.If) or gb[0].orelse or _pin(gb[0].body) != ['raise KeyError(key)'] \
            or ast.unparse(gb[1]) != 'return getattr(self, key)':
        raise TranslationError('Simulation.__getitem__: not `if <test>: raise KeyError(key)` + `return getattr(self, key)`')
    t = ast.unparse(gb[0].test)
    if t in ('key not in self.keys()', 'key not in self.__keys'):
        test = '!(s.keys.contains key)'
    elif t in ('key in self.keys()', 'key in self.__keys'):
        test = 's.keys.contains key'
    elif isinstance(gb[0].test, ast.Compare) and len(gb[0].test.ops) == 1 \
            and isinstance(gb[0].test.ops[0], (ast.In, ast.NotIn)) and ast.unparse(gb[0].test.left) == 'key' \
            and isinstance(gb[0].test.comparators[0], (ast.Tuple, ast.List)) \
            and all(isinstance(x, ast.Constant) and isinstance(x.value, str) for x in gb[0].test.comparators[0].elts):
        # a fixed list of names instead of the keys that were set: a different definition, for the proof to reject
        names = '[' + ', '.join(lean_str(x.value) for x in gb[0].test.comparators[0].elts) + ']'
        test = f'({names} : List String).contains key'
        if isinstance(gb[0].test.ops[0], ast.NotIn):
            test = f'!({test})'
    else:
        raise TranslationError(f'Simulation.__getitem__: test `{t}` outside the translated subset')
    L += ['/-- `Simulation.__getitem__`: does it raise KeyError -/',
          f'def getItemRefuses (s : SimObj) (key : String) : Bool := {test}', '']
    # ---------------- flatten
    fl = get_function(src, 'flatten')
    fb = strip_doc(fl.body)
    sim_loops = [n for n in fb if isinstance(n, ast.For) and ast.unparse(n.iter) == 'simulations[1:]'
                 and ast.unparse(n.target) == 'sim']
    if len(sim_loops) != 1:
        raise TranslationError('flatten: merge loop `for sim in simulations[1:]` not found at function level')
    ml = sim_loops[0]
    chain = [st for st in ml.body if isinstance(st, ast.If) and ast.unparse(st.test).startswith('style ==')]
    if len(chain) != 1:
        raise TranslationError('flatten: one `if style == … elif … else` chain expected in the merge loop')
    if _pin(ml.body[:ml.body.index(chain[0])]) != ['thermo = sim.thermo', 'if thermo is None:\n    continue']:
        raise TranslationError('flatten: the merge loop does not start with thermo = sim.thermo / if thermo is None: continue')
    L += ['section', 'variable {α : Type} (step : α → Int)',
          '/-- the style dispatch of the merge loop, branch by branch in the order of the source -/',
          'def merge (style : Str) (merged thermo : List α) : Except Err (List α) :=']
    node = chain[0]
    n_br = 0
    while True:
        t = node.test
        if not (isinstance(t, ast.Compare) and len(t.ops) == 1 and isinstance(t.ops[0], ast.Eq)
                and ast.unparse(t.left) == 'style' and isinstance(t.comparators[0], ast.Constant)
                and isinstance(t.comparators[0].value, str)):
            raise TranslationError(f'flatten: style test `{ast.unparse(t)}` outside the translated subset')
        concat = [st for st in node.body if isinstance(st, ast.Assign) and ast.unparse(st.targets[0]) == 'merged_df']
        others = [st for st in node.body if st not in concat]
        if len(concat) != 1 or node.body[0] is not concat[0]:
            raise TranslationError('flatten: a style branch does not start with one merged_df = pd.concat(…)')
        for st in others:
            if not (isinstance(st, ast.For) and ast.unparse(st) == 'for key in thermo.keys():\n    dtypes[key] = thermo[key].dtype'):
                raise TranslationError(f'flatten: statement `{ast.unparse(st)[:80]}` in a style branch outside the translated subset')
        L.append(f'  {"if" if n_br == 0 else "else if"} style == {lean_str(t.comparators[0].value)}.toList then '
                 f'.ok ({_concat_expr(concat[0])})')
        n_br += 1
        if len(node.orelse) == 1 and isinstance(node.orelse[0], ast.If):
            node = node.orelse[0]
            continue
        if len(node.orelse) == 1 and isinstance(node.orelse[0], ast.Raise) and isinstance(node.orelse[0].exc, ast.Call) \
                and ast.unparse(node.orelse[0].exc.func) in EXC_LEAN:
            L.append(f'  else .error {EXC_LEAN[ast.unparse(node.orelse[0].exc.func)]}')
            break
        raise TranslationError('flatten: the style chain does not end in `else: raise <Error>(…)`')
    L += ['end', '']
    L += ['/-- what follows the style dispatch inside the merge loop (normalised statements): the dtype repair, which must',
          '    leave every value as it is (checked by the oracle on the real code) -/',
          'def afterMerge : List String :=', '  ' + _lean_strs(_pin(ml.body[ml.body.index(chain[0]) + 1:])), '']
    # the Step assertion
    asserts = [n for n in fb if isinstance(n, ast.For) and ast.unparse(n.iter) == 'simulations' and ast.unparse(n.target) == 'sim']
    if len(asserts) != 1 or len(asserts[0].body) != 1 or not isinstance(asserts[0].body[0], ast.If) \
            or asserts[0].body[0].orelse or len(asserts[0].body[0].body) != 1 \
            or not isinstance(asserts[0].body[0].body[0], ast.Assert):
        raise TranslationError('flatten: the Step assertion loop `for sim in simulations: if …: assert …` not found')
    g = asserts[0].body[0]

    def tab_test(e):
        if isinstance(e, ast.BoolOp):
            op = ' && ' if isinstance(e.op, ast.And) else ' || '
            return '(' + op.join(tab_test(v) for v in e.values) + ')'
        u = ast.unparse(e)
        if u == 'sim.thermo is not None':
            return 'true'
        cmpops = {ast.Lt: '<', ast.LtE: '≤', ast.Gt: '>', ast.GtE: '≥', ast.Eq: '=', ast.NotEq: '≠'}
        if isinstance(e, ast.Compare) and len(e.ops) == 1 and type(e.ops[0]) in cmpops \
                and ast.unparse(e.left) == 'len(sim.thermo)' and isinstance(e.comparators[0], ast.Constant) \
                and isinstance(e.comparators[0].value, int) and not isinstance(e.comparators[0].value, bool) \
                and e.comparators[0].value >= 0:
            return f'decide (t.rows.length {cmpops[type(e.ops[0])]} {e.comparators[0].value})'
        if isinstance(e, ast.Compare) and len(e.ops) == 1 and isinstance(e.ops[0], (ast.In, ast.NotIn)) \
                and isinstance(e.left, ast.Constant) and isinstance(e.left.value, str) \
                and ast.unparse(e.comparators[0]) in ('sim.thermo', 'sim.thermo.columns', 'sim.thermo.keys()'):
            c = f't.cols.contains {lean_str(e.left.value)}.toList'
            return c if isinstance(e.ops[0], ast.In) else f'(!{c})'
        raise TranslationError(f'flatten: test `{u}` of the Step assertion outside the translated subset')
    L += ['/-- the Step assertion: is a selected table refused (guard holds and the asserted test fails) -/',
          f'def assertFails (t : Table) : Bool := {tab_test(g.test)} && !({tab_test(g.body[0].test)})', '']
    # order of the top-level statements of flatten and its return value
    kinds = []
    for st in fb:
        u = ast.unparse(st)
        if st is asserts[0]:
            kinds.append('assert-loop')
        elif st is ml:
            kinds.append('merge-loop')
        elif u in ('simulations = self.simulations[firstindex:lastindex]', 'merged_df = simulations[0].thermo',
                   'if merged_df is not None:\n    merged_df = merged_df.copy()', 'dtypes = {}',
                   'return Simulation(thermo=merged_df)'):
            kinds.append(u)
        else:
            raise TranslationError(f'flatten: top-level statement `{u[:80]}` outside the translated subset')
    L += ['/-- the top-level statements of `flatten` in order (selection, assertion, first record, copy, loop, result) -/',
          'def flattenOrder : List String :=', '  ' + _lean_strs(kinds), '']
    L.append('end Atomman.Gen.LogSrc')
    return '\n'.join(L) + '\n'


def translate():
    src_text = cm.source('atomman/lammps/Log.py')
    c = extract_constants(src_text)
    L = ['/- GENERATED by harness/props/c19.py from atomman/lammps/Log.py — do not edit. -/',
         'namespace Atomman.Gen.Log', '']
    for py, lean in TRIGGER_NAMES.items():
        L.append(f'/-- `{py}` -/')
        L.append(f'def {lean} : List String := [' + ', '.join(lean_str(s) for s in c[py]) + ']')
    L.append('')
    L.append('/-- `line[:N] == prefix` -/')
    L.append(f'def versionPrefixLen : Nat := {c["version_prefix_len"]}')
    L.append(f'def versionPrefix : String := {lean_str(c["version_prefix"])}')
    L.append('/-- `line.strip()[a:-b]` -/')
    L.append(f'def versionSliceStart : Nat := {c["version_slice_start"]}')
    L.append(f'def versionSliceDropEnd : Nat := {c["version_slice_drop_end"]}')
    L.append('')
    L.append('/-- `month` of `__read_lammps_version` -/')
    L.append('def monthTable : List (String × Nat) := ['
             + ', '.join(f'({lean_str(k)}, {v})' for k, v in c['month']) + ']')
    L.append('')
    L.append('/-- offsets `c` of the `….append(i + c)` bookkeeping of the single pass -/')
    for py, lean in (('thermo_header_offset', 'thermoHeaderOffset'), ('thermo_footer_offset', 'thermoFooterOffset'),
                     ('thermo_final_footer_offset', 'thermoFinalFooterOffset'),
                     ('performance_header_offset', 'perfHeaderOffset'),
                     ('performance_header_old_offset', 'perfHeaderOldOffset'),
                     ('performance_footer_offset', 'perfFooterOffset')):
        v = c[py]
        L.append(f'def {lean} : Int := {v if v >= 0 else "(" + str(v) + ")"}')
    L.append('')
    b = lambda x: 'true' if x else 'false'  # noqa
    L.append('/-- `if line[:N] == prefix and self.lammps_version is None:` — is the second conjunct there -/')
    L.append(f'def versionOnlyIfUnset : Bool := {b(c["version_only_if_unset"])}')
    L.append('/-- what `if append is False:` resets -/')
    L.append(f'def resetSimulations : Bool := {b(c["reset_simulations"])}')
    L.append(f'def resetVersion : Bool := {b(c["reset_version"])}')
    L.append(f'def resetDate : Bool := {b(c["reset_date"])}')
    L.append('/-- is there a `log_info.seek(0)` statement before / after the single pass, before / after the pandas read')
    L.append('    of `__read_thermo`, before / after the pandas read of `__read_performance` -/')
    L.append(f'def seekBeforeScan : Bool := {b(c["seek_before_scan"])}')
    L.append(f'def seekAfterScan : Bool := {b(c["seek_after_scan"])}')
    L.append(f'def thermoSeekBefore : Bool := {b(c["thermo_seek_before"])}')
    L.append(f'def thermoSeekAfter : Bool := {b(c["thermo_seek_after"])}')
    L.append(f'def perfSeekBefore : Bool := {b(c["perf_seek_before"])}')
    L.append(f'def perfSeekAfter : Bool := {b(c["perf_seek_after"])}')
    L.append('/-- `thermo[thermo.Step ? merged_df.Step.max()]` (style first) -/')
    L.append(f'def firstKeep (step mx : Int) : Bool := decide (step {c["first_keep_op"]} mx)')
    L.append('/-- `merged_df[merged_df.Step ? thermo.Step.min()]` (style last) -/')
    L.append(f'def lastKeep (step mn : Int) : Bool := decide (step {c["last_keep_op"]} mn)')
    L.append('/-- defaults of the signatures: `read(self, log_info, append=…)`, `flatten(self, style=…, firstindex=None,')
    L.append('    lastindex=None)`; does `Log.__init__(self, log_info=None)` read what it is given -/')
    L.append(f'def readAppendDefault : Bool := {b(c["read_append_default"])}')
    L.append(f'def flattenStyleDefault : String := {lean_str(c["flatten_style_default"])}')
    L.append(f'def ctorReads : Bool := {b(c["ctor_reads"])}')
    L.append('')
    L.append('end Atomman.Gen.Log')
    return {'LogTriggers': '\n'.join(L) + '\n', 'LogSource': translate_source(src_text)}


# ----------------------------------------------------------------------------------------
# log synthesis: the Python twin of `renderLog` (lean/Atomman/C19.lean)
# ----------------------------------------------------------------------------------------
THEOREMS = [
    # read: one record per run, in order, header tokens as columns, printed rows row for row (incl. truncated last run)
    'C19.read_tables', 'C19.read_layout', 'C19.read_render', 'C19.read_breakdown', 'C19.read_breakdown_old',
    # read(append=True/False)
    'C19.read_append', 'C19.read_reset', 'C19.append_concat',
    # the log handed over as an open stream (an object that outlives the call, with a position)
    'C19.seeks_sound', 'C19.read_stream', 'C19.read_stream_again',
    # from the text to its lines: a line ends at \n and nowhere else (not at \x0b \x0c \x1c-\x1e U+0085 U+2028 U+2029, the
    # boundaries of str.splitlines(), nor at a lone \r); the \r of \r\n stays on the line
    'C19.splitLines_length', 'C19.splitLines_one_line', 'C19.splitLines_joinLines', 'C19.readText_joinLines',
    # version string and date
    'C19.read_version_kept', 'C19.read_version_new', 'C19.version_date', 'C19.month_table_calendar',
    # printed cells are read back token by token
    'C19.splitWs_renderCells',
    # flatten
    'C19.flatten_all', 'C19.flatten_nil', 'C19.flatten_first', 'C19.flatten_last',
    'C19.flatten_first_sublist', 'C19.flatten_last_sublist', 'C19.flatten_first_once', 'C19.flatten_last_once',
    'C19.flatten_first_sorted', 'C19.flatten_last_sorted', 'C19.flatten_first_earliest', 'C19.flatten_last_latest',
    'C19.flatten_first_complete', 'C19.flatten_last_complete',
    # flatten with runs that have no rows (NaN maximum / minimum of pandas): together with flatten_first / flatten_last
    # both styles are characterised for every input
    'C19.flatten_first_empty_first', 'C19.flatten_first_empty_later', 'C19.flatten_last_empty_run',
    'C19.flatten_last_empty_first',
    # the refusals of flatten, and the one-record selection
    'C19.flatten_refuses_missing_step', 'C19.flatten_refuses_empty', 'C19.flatten_refuses_style', 'C19.flatten_single',
    # runs with different thermo keywords: columns of the merged table = union in order of first appearance, NaN fill
    'C19.flatten_columns', 'C19.mem_unionCols', 'C19.nodup_unionCols', 'C19.flatten_rows_width',
    # round 6 — source tie (Proofs/C19_Source.lean): the statements of Log.py regenerated as Lean definitions
    # (Generated/LogSource.lean) are the hand model (…_eq_model) / are these normalised statements (…_pinned)
    'C19.gen_init_eq_model', 'C19.gen_step_eq_model', 'C19.gen_scan_eq_model', 'C19.gen_finish_eq_model',
    'C19.gen_tables_eq_model', 'C19.gen_j_eq_model', 'C19.gen_perfLoop_pinned', 'C19.gen_readPerformance_pinned',
    'C19.gen_opener_pinned', 'C19.gen_setThermo_eq_model', 'C19.gen_setPerf_eq_model', 'C19.gen_simInit_eq_model',
    'C19.gen_getItem_eq_model', 'C19.gen_merge_eq_model', 'C19.gen_assertFails_eq_model',
    'C19.gen_flattenOrder_pinned', 'C19.gen_afterMerge_pinned', 'C19.gen_defaults_pinned',
    # round 6 — the Simulation records as objects (keys, sim[key], setters)
    'C19.record_keys', 'C19.record_getitem_iff', 'C19.setter_again', 'C19.setter_keys_nodup',
    'C19.flatten_result_object',
    # round 6 — the merge loop as coded (style dispatch inside the loop) and its refusals, exactly
    'C19.flattenStyle_first', 'C19.flattenStyle_last', 'C19.flattenStyle_all', 'C19.flattenStyle_refuses_iff',
    'C19.flattenStyle_single',
    # round 6 — call forms with arguments left out, end-to-end statements
    'C19.call_defaults', 'C19.ctor_render', 'C19.ctor_render_text', 'C19.read_then_flatten_all',
    # round 6 — flattenTables runs the merge loop of the source; numeric tables need no quietness hypothesis
    'C19.flatten_uses_merge_loop', 'C19.quiet_of_no_capital', 'C19.numeric_row_quiet',
    # round 6 — the refusals of flatten as iffs; read_tables about the regenerated functions; Log(a); read(b); input forms
    'C19.flatten_refusals_iff', 'C19.gen_read_tables', 'C19.read_sequence_default', 'C19.read_input_forms',
    # round 6 — printer ∘ reader = id on the simple grammar (numeric rows: no hypothesis left on the data)
    'C19.ctor_grammar',
]
PARTIAL = {
    'input decision': 'which of text / path / bytes / stream an input is taken as is decided by '
                      'potentials.tools.uber_open_rmode (a third-party package, outside /repo): assumption, exercised with '
                      'every input kind in every history; what Log.py imports under that name is pinned '
                      '(gen_opener_pinned)',
    'timing breakdown': 'read_breakdown / read_breakdown_old (read() returns and the records are right) cover the `MPI task '
                        'timing breakdown` layout and the old `Pair  time (%) = …` layout with well-formed blocks (a log '
                        'mixing both layouts is not covered: the code parses all blocks of a read in one layout); '
                        'malformed/unterminated blocks are covered for the thermo clause by read_tables (unconditional) '
                        'and read_layout (conditional on read() returning), their non-raising by the correspondence only; '
                        'the content of the performance tables is not stated as a theorem: correspondence (model '
                        'readPerfNew/readPerfOld) and oracle clause read:performance',
    'value by value': 'the theorems are about the printed tokens (strings); that pandas turns the token of an int/float '
                      'column into the number it denotes is an assumption, checked by the oracle on the real code',
    'flatten with empty runs': 'no longer partial as a description of the code: flatten_first (non-empty first run, later '
                               'runs arbitrary) + flatten_first_empty_first (empty first run: nothing is kept) and '
                               'flatten_last (non-empty later runs) + flatten_last_empty_run / flatten_last_empty_first '
                               '(everything before an empty run is dropped) cover every input; what stays partial is the '
                               'property itself there: with a header-only block in the selection the code does NOT keep '
                               'every timestep (pandas compares against the NaN max/min of an empty table)',
    'flatten every timestep': 'flatten_*_complete need the runs to share a thermo grid where they overlap (hypothesis '
                              'haligned); a restart on a shifted grid loses the steps below the previous maximum — the '
                              'code cannot do otherwise with its single comparison',
}
RULE = ('logs synthesised from the documented layout: optional LAMMPS (<d> <Mon> <y>[suffix]) banner, preamble noise, 0-6 '
        'runs with either memory-usage banner, 1-9 thermo keywords (Step first, elsewhere or absent), int and float '
        'columns with 12 float token shapes (incl. nan/inf/1e-300/17 digits), five padding styles, blank lines in and '
        'around blocks, optional WARNING lines inside blocks (correspondence only), new/old/no timing breakdown, '
        'minimize statistics, histograms, truncated last run, \\n or \\r\\n, with/without final newline; 15 % of the noise '
        'lines are echoed comment / print / variable lines holding \\x0b \\x0c \\x1c-\\x1f U+0085 U+2028 U+2029 U+00A0 U+3000 '
        'U+FEFF DEL or 2-/3-/4-byte UTF-8 text next to ordinary text, 6 % of the logs start with a byte-order mark in front '
        'of a comment line; step ranges '
        'continuing, restarting on the grid, with gaps, shifted grids, backwards; histories of 1-4 logs read as text/bytes/'
        'path/pathlib.Path/BytesIO/open binary file through Log(..) (also a second Log object mid-history) or read(.., '
        'append=None/True/False) interleaved with flatten(first/last/all/bogus, firstindex, lastindex); the input OBJECT '
        'is part of the history: one stream object handed to 2-4 consecutive reads as the previous read left it, or moved '
        'by the caller to the start / the end / a line start / mid-line / before a terminator, fresh streams handed over '
        'at such positions, streams opened in text mode (documented refusal); '
        'round 3: calls by position / by keyword / with defaults (flatten() without style), append as 0/1/numpy bools, '
        'a new Log() observed empty, getters read in alternating order, every flatten result scribbled over in place and '
        'the log re-read, a record edited in place by the caller between two identical flattens, one file name '
        'rewritten between reads, fresh streams closed by the caller right after the read, tables of 40-130 columns, '
        'lines of 5-20 kB, one log > 256 KiB (search), timesteps beyond 2^53, bracketed keywords, tokens .5 / 5. / 1E+05 / '
        'NaN / decimal commas (stay text), lines that come close to a trigger string; '
        'malformed logs for the error classes. distinct = distinct (log texts, ops); '
        'non-trivial = at least one run in the history')
ASSUMPTIONS = [
    'pandas.read_csv(stream, header=h, nrows=n, sep=r"\\s+", skip_blank_lines=True) takes non-blank line h as the header, '
    'the next n non-blank lines (fewer at end of file) as rows, splits them on ASCII whitespace, pads short rows with NaN '
    'and raises ParserError for a row wider than the header (model: readThermo; checked on every correspondence case)',
    'pandas parses an integer token exactly and a float token to within 16 ulp of the decimal it denotes (xstrtod), so the '
    'values of the table are the printed values; "nan"/"inf" tokens become NaN/inf',
    'pandas comparisons with the NaN max()/min() of an empty column are False (mergeFirst/mergeLast on empty tables)',
    'datetime.date(y, m, d) accepts exactly 1<=y<=9999, 1<=m<=12, 1<=d<=days in month (Gregorian leap rule)',
    'pandas quirks kept out of the generated logs (LAMMPS prints neither): the token -9223372036854775808 in an otherwise '
    'integer column that also holds a nan token is read as NaN (int64 NA sentinel); an integer token >= 2^63 next to a '
    'float token makes pandas keep the whole column as text',
    'str.split()/strip() whitespace on the log lines is ASCII whitespace (the synthesised logs contain other Unicode '
    'whitespace - U+0085, U+00A0, U+2003, U+2028, U+2029, U+3000, \\x1c-\\x1f - only inside noise lines that also hold ordinary text, '
    'where neither blankness nor a token of a table depends on it)',
    'uber_open_rmode (potentials package) presents text, bytes and path input as a fresh binary stream at position 0, '
    'passes an open binary stream through as it stands (position kept, not closed) and refuses a stream opened in text '
    'mode with ValueError (model: Input / readInput; theorem read_input_forms is conditional on this)',
    'pandas.read_csv leaves a binary stream it was given at its end (logs below the 256 KiB chunk size of the C parser); '
    'only the position reported after a read depends on this (correspondence), no theorem and no oracle clause does',
]
TRUSTED = ['pandas/numpy inside the real Log', 'the log synthesiser and the clause oracle in harness/props/c19.py',
           'the constant extractor (ast walk of Log.read / __read_lammps_version)',
           'the statement translator translate_source (ast -> Lean for the restricted statement subset of the single pass, '
           'the Simulation class and the merge loop; anything outside the subset raises TranslationError)']
MANIFEST = {
    'text': 'Lean model over character lists of Log.read (single pass that skips and does not count blank lines, trigger '
            'strings / line-number offsets / version slice / month table regenerated from Log.py on every run, table '
            'blocks cut out of the non-blank lines, version and date, read(append=) on the state, read on a caller-owned stream object '
            'with a position — the log_info.seek(0) statements being regenerated from the source) and of Log.flatten '
            '(first/last/all folds with pandas NaN semantics). Theorems: every well-formed layout (any preamble, runs '
            'with either banner, blank lines anywhere, arbitrary text between runs incl. timing breakdowns, last run '
            'possibly cut short) is read back as one table per run in order with the header tokens as columns and the '
            'printed lines as rows; a log printed from a token-level specification is read back exactly (tables, version, '
            'date); a log handed over as an open stream is read like its content whatever the position of the stream, also '
            'when the same stream object is handed over again; append concatenates and append=False resets; flatten all = concatenation; first/last keep exactly the '
            'rows not superseded by an earlier/later run, each step once, from the earliest/latest run printing it, sorted, '
            'complete on aligned grids, both styles characterised also for header-only runs; the refusals of flatten (no Step column: AssertionError, unknown style over two or more records: ValueError, empty selection: IndexError) and the one-record selection; logs with well-formed timing blocks of the new or of the old layout are read without exception. Tie: translator for the constants + differential correspondence real Log vs '
            'compiled model on synthesised histories (exact on integers, 16 ulp on floats); failing-input search with the '
            'property clauses evaluated on the real code from the run specifications alone. Round 6: the loop body of the single '
            'pass, the initialisation and closing of its bookkeeping, the Simulation setters / constructor / __getitem__, the '
            'style dispatch of the merge loop and the Step assertion are regenerated from Log.py as Lean definitions '
            '(Generated/LogSource.lean) and proved equal to the model (18 gen_ obligations); records as objects (keys, '
            'sim[key] refuses iff the key was not set), the merge loop as coded with its refusals exactly (ValueError iff '
            'unsupported style and at least two records, IndexError iff empty selection), call forms with arguments left out, '
            'Log(text) of a printed log = the printed runs; printer o reader = identity on the simple log grammar with ANY rows of '
            'numbers (ctor_grammar); the refusals of flatten each as an iff (flatten_refusals_iff); read_tables restated about '
            'the regenerated init / step / finish (gen_read_tables); text = file = stream as input forms, text-mode stream '
            'refused (read_input_forms, under the recorded assumption on uber_open_rmode).',
    'note': 'Trusted: Lean kernel + propext/Classical.choice/Quot.sound; pandas read_csv/concat behaviour as stated in '
            'ASSUMPTIONS (exercised on every case); the Python log synthesiser/oracle. Performance tables are compared in '
            'the correspondence only.',
    'technique': 'Lean 4 theorems over a model whose transition function, object setters and merge dispatch are proved equal '
                 'to definitions regenerated from the source + translator-generated constants + differential correspondence',
}

MONTHS = ['Jan', 'Feb', 'Mar', 'Apr', 'May', 'Jun', 'Jul', 'Aug', 'Sep', 'Oct', 'Nov', 'Dec']
INT_KEYS = ['Atoms', 'Elapsed', 'Elaplong', 'Bonds', 'Angles', 'v_count', 'c_nn', 'Nbuild', 'Ndanger', 'v_nStep']
FLOAT_KEYS = ['Temp', 'Press', 'PotEng', 'KinEng', 'TotEng', 'E_pair', 'E_mol', 'E_vdwl', 'E_coul', 'Volume',
              'Lx', 'Ly', 'Lz', 'Xy', 'Pxx', 'Pyy', 'Pzz', 'Pxy', 'c_pe', 'c_msd[4]', 'v_strain', 'f_ave[1]',
              'CPU', 'Density', 'Enthalpy', 'Fmax', 'Fnorm', 'v_Loop', 'Time', 'Dt', 'f_ave[2][3]', 'c_pe[1]',
              'v_myvar', 'v_Step', 'c_Steps[2]', 'T/CPU', 'S/CPU', 'CPULeft']
PREAMBLE = ['units metal', 'atom_style atomic', 'boundary p p p', 'read_data init.dat',
            '  orthogonal box = (0 0 0) to (4.05 4.05 4.05)', '  1 by 1 by 1 MPI processor grid', '  4 atoms',
            'pair_style eam/alloy', 'pair_coeff * * Al.eam.alloy Al', 'mass 1 26.98', 'thermo 10',
            'thermo_style custom step temp pe press', 'variable a equal 1.0', 'print "a = ${a}"',
            "# it's a comment", '# Ångström units', 'timestep 0.001', 'fix 1 all nve',
            'WARNING: No fixes with time integration, atoms won\'t move (src/verlet.cpp:60)',
            'WARNING: Using a manybody potential with bonds/angles/dihedrals and special_bond exclusions '
            '(src/pair.cpp:242)', '  using 1 OpenMP thread(s) per MPI task', 'Reading data file ...',
            'velocity all create 300.0 12345', 'reset_timestep 0', 'dump 1 all custom 100 dump.* id x y z',
            'print "built against LAMMPS (stable) headers"', '# LAMMPS (7 Aug 2019) was used for the first leg']
SETUP = ['Setting up Verlet run ...', '  Unit style    : metal', '  Current step  : 0', '  Time step     : 0.001',
         'Neighbor list info ...', '  update every 1 steps, delay 10 steps, check yes',
         '  max neighbors/atom: 2000, page size: 100000', '  master list distance cutoff = 8.28721',
         '  ghost atom cutoff = 8.28721', '  binsize = 4.1436, bins = 1 1 1',
         'WARNING: Inconsistent image flags (src/domain.cpp:815)', 'Setting up cg style minimization ...',
         '  (1) pair eam/alloy, perpetual', '      attributes: half, newton on']
POST_PERF = ['Performance: 7022.440 ns/day, 0.003 hours/ns, 8128.287 timesteps/s',
             '99.1% CPU use with 1 MPI tasks x no OpenMP threads',
             '99.1% CPU use with 1 MPI tasks x 1 OpenMP threads']
POST_MIN = ['Minimization stats:', '  Stopping criterion = energy tolerance',
            '  Energy initial, next-to-last, final = ', '    -13.4399999527351  -13.4399999527351  -13.4399999527351',
            '  Force two-norm initial, final = 2.5e-14 2.5e-14', '  Force max component initial, final = 6.9e-15 6.9e-15',
            '  Final line search alpha, max atom move = 1 6.9e-15', '  Iterations, force evaluations = 1 2']
POST_HIST = ['Histogram: 1 0 0 0 0 0 0 0 0 0', 'Nghost:    662 ave 662 max 662 min', 'Histogram: 1 0 0 0 0 0 0 0 0 0',
             'Neighs:    312 ave 312 max 312 min', 'Histogram: 1 0 0 0 0 0 0 0 0 0', 'FullNghs:  624 ave 624 max 624 min']
POST_END = ['Total # of neighbors = 312', 'Ave neighs/atom = 78', 'Neighbor list builds = 0', 'Dangerous builds = 0',
            'run 100', 'minimize 1e-8 1e-8 100 1000', 'unfix 1', 'WARNING: New thermo_style command, previous '
            'thermo_modify settings will be lost (src/output.cpp:903)', 'print "done"', 'write_restart final.restart',
            'System init for write_restart ...']
# lines that come close to a trigger string without containing one
NEAR = ['print "Loop time was not measured"', '# Memory usage per process: unknown', 'variable Nlocal equal 4',
        '# MPI task timing is off', 'Pair time (%) ok', 'print "Per MPI rank memory: n/a"', 'Loop time: 3 s',
        'Minimization stats: skipped', '  Step size limit = 0.1']
PREAMBLE += NEAR[:6]
SETUP += NEAR[6:] + NEAR[:2]
POST_END += NEAR
BLANKS = ['', '', '', ' ', '   ', '\t', ' \t ']
EXOTIC_P = 0.15             # share of the noise lines that carry characters beyond printable ASCII
INSIDE_WARN = ['WARNING: foo', 'WARNING:', 'ERROR on proc 0:', 'WARNING: Bond/angle/dihedral extent > half of periodic box length (src/domain.cpp:936)',
               'WARNING: Too many warnings: 101 vs 100. All future warnings will be suppressed (src/thermo.cpp:460)']


def _float_token(rng: random.Random) -> str:
    k = rng.randrange(14)
    if k == 12:                # a hair away from an integer (a cast to an int column must not happen / must be seen)
        n = rng.choice([0, 1, 4, 300, rng.randint(-5000, 5000)])
        if rng.random() < 0.5:
            return '%d.%s%d' % (n, '0' * rng.randint(5, 10), rng.randint(1, 9))
        return '%d.%s' % (n, '9' * rng.randint(6, 12))
    if k == 13:                # integers printed as floats / beyond 2^53
        return rng.choice(['%d.0' % rng.randint(-999, 999), '%d.' % rng.randint(0, 99), '1e3', '2.5e2',
                           str(rng.choice([2 ** 53 + 1, -2 ** 63 + 1, 2 ** 63 - 1, 123456789012345678]))])
    if k == 0:
        return '0'
    if k == 1:
        return str(rng.randint(-500, 500))
    if k in (2, 3):            # dyadic: exactly representable
        b = rng.randint(1, 8)
        f = Fraction(rng.randint(-(1 << 14), 1 << 14), 1 << b)
        s = '%.10f' % float(f)
        return s.rstrip('0').rstrip('.') if rng.random() < 0.7 else s
    if k in (4, 5):            # fixed decimals
        return '%s%d.%s' % (rng.choice(['', '-']), rng.randint(0, 99999),
                             ''.join(rng.choice('0123456789') for _ in range(rng.randint(1, 9))))
    if k in (6, 7):            # %.8g style
        return '%.8g' % (rng.uniform(-1, 1) * 10 ** rng.randint(-8, 8))
    if k == 8:                 # scientific
        return '%s%d.%de%s%02d' % (rng.choice(['', '-']), rng.randint(1, 9), rng.randint(0, 9999),
                                    rng.choice(['+', '-']), rng.randint(0, 30))
    if k == 9:                 # 15-17 significant digits
        return repr(rng.uniform(-1e3, 1e3))
    if k == 10:
        return '%.15g' % (rng.uniform(-1, 1) * 10 ** rng.randint(-20, 20))
    if k == 11 and rng.random() < 0.12:
        # not a number in C's locale (a decimal comma, a thousands separator): LAMMPS never prints these; a reader must
        # not silently turn them into numbers (the cell is text)
        return rng.choice(['1,5', '12,75', '1,234.5', '0,0', '3,000'])
    return rng.choice(['nan', '-nan', 'inf', '-inf', '1e-300', '1.7976931348623157e+308', '-0', '0.0', '-0.0',
                       '.5', '-.5', '5.', '1E+05', '1e308', 'NaN', '2.5E-3', '-1e-320'])


def _pad(rng, style, tok, first):
    """padding in front of a token."""
    if style == 'single':
        return '' if first else ' '
    if style == 'old':       # %8d %12.8g like
        w = rng.choice([6, 8, 12])
        return ('' if first else ' ') + ' ' * max(0, w - len(tok))
    if style == 'new':       # right aligned wide fields
        w = rng.choice([10, 14])
        return (' ' * 3 if first else ' ') + ' ' * max(0, w - len(tok))
    if style == 'tab':
        return ('' if first else '\t')
    return ('' if first and rng.random() < 0.5 else ' ' * rng.randint(1, 4))


def render_cells(rng, style, toks):
    out = []
    for k, t in enumerate(toks):
        out.append(_pad(rng, style, t, k == 0) + t)
    trail = rng.choice(['', '', ' ', '  ']) if style != 'single' else rng.choice(['', ' '])
    return ''.join(out) + trail


class RunSpec:
    """one run: keywords, typed columns, rows of printed tokens, layout options."""
    __slots__ = ('banner', 'cols', 'kinds', 'rows', 'complete', 'style', 'breakdown', 'hist', 'minimize',
                 'inside', 'gap', 'blank_in_body', 'perf')

    def steps(self):
        if 'Step' not in self.cols:
            return None
        k = self.cols.index('Step')
        return [int(r[k]) for r in self.rows]


def _near_int_token(rng):
    n = rng.choice([0, 1, 4, 300, rng.randint(-5000, 5000)])
    q = rng.random()
    if q < 0.4:
        return str(n)
    if q < 0.7:
        return '%d.%s%d' % (n, '0' * rng.randint(5, 10), rng.randint(1, 9))
    return '%d.%s' % (n, '9' * rng.randint(6, 12))


def gen_run(rng, start, size, allow_dirty, era, keys=None, force=None):
    r = RunSpec()
    r.banner = era[0]
    pool = INT_KEYS + FLOAT_KEYS
    if keys is not None:
        # the same thermo_style as the run before (the usual case in a real log), sometimes one keyword more or less
        keys = list(keys)
        q = rng.random()
        if q < 0.15 and len(keys) > 1:
            del keys[rng.randrange(1, len(keys))]
        elif q < 0.3:
            k = rng.choice(pool)
            if k not in keys:
                keys.insert(rng.randint(1, len(keys)), k)
    elif rng.random() < 0.03:
        # very many columns (a long `thermo_style custom` list with per-component computes / variables)
        ncols = rng.randint(40, 130)
        keys = ['Step'] + [('v_n%d' % j) if j % 7 == 3 else rng.choice(['c_s[%d]', 'f_w[%d]', 'v_q%d', 'c_p[%d][2]']) % j
                           for j in range(1, ncols)]
    else:
        ncols = rng.randint(1, 9)
        keys = []
        while len(keys) < ncols:
            k = rng.choice(pool)
            if k not in keys:
                keys.append(k)
        p = rng.random()
        if p < 0.9:
            keys[0] = 'Step'
        elif p < 0.97 and 'Step' not in keys:
            keys[rng.randrange(len(keys))] = 'Step'
    ncols = len(keys)
    r.cols = keys
    r.kinds = ['int' if (k in INT_KEYS or k == 'Step' or k.startswith('v_n')) else 'float' for k in keys]
    n = rng.choice([0, 1, 1, 2, 2, 3, 4, 5, 6, 8, 11])
    if size == 'big':
        n = rng.randint(20, 80)
    if size == 'huge':          # a log beyond the 256 KiB chunk of the C parser
        n = rng.randint(1500, 2500)
    dt = rng.choice([1, 5, 10, 10, 50, 100, 100, 1000, 250000])
    # a float column of one run may happen to print integers only (pandas then types it int64 for that run) or
    # values a hair away from integers
    modes = [(force or {}).get(k) or rng.choice(['mixed'] * 4 + ['intlike', 'nearint']) for k in keys]
    rows = []
    for j in range(n):
        row = []
        for k, kind, mode in zip(keys, r.kinds, modes):
            if k == 'Step':
                row.append(str(start + j * dt))
            elif kind == 'int':
                row.append(str(rng.choice([0, 1, 4, 32, 108, 4000, rng.randint(-5, 10 ** 9)])))
            elif mode == 'intlike':
                row.append(str(rng.choice([0, 1, 300, rng.randint(-5000, 5000)])))
            elif mode == 'nearint':
                row.append(_near_int_token(rng))
            else:
                row.append(_float_token(rng))
        rows.append(row)
    r.rows = rows
    r.complete = True
    r.style = rng.choice(['single', 'old', 'new', 'new', 'tab', 'rand']) if size != 'huge' else 'new'
    r.breakdown = rng.choice([era[1], era[1], 'none', 'none-nohist'])
    r.minimize = rng.random() < 0.25
    r.gap = rng.choice([0, 0, 0, 1, 2])
    r.blank_in_body = rng.random() < 0.15
    r.inside = []
    r.perf = None
    if allow_dirty and n > 0 and rng.random() < 0.5:
        pos, w = rng.randint(0, n), rng.choice(INSIDE_WARN)
        # a first data line wider than the header makes pandas invent index columns (not modelled): keep
        # over-wide lines away from the first position, where pandas rejects them (ParserError) like the model
        if pos == 0 and len(w.split()) > ncols:
            w = 'WARNING:'
        r.inside = [(pos, w)]
    return r, dt


def breakdown_lines(rng, kind, spec=None):
    """the printed timing breakdown; `spec` (a list) receives what the record of the run is expected to carry:
    (column names, rows [section name, tokens…])."""
    spec = [] if spec is None else spec
    if kind == 'new':
        full = rng.random() < 0.3
        hdr = 'Section |  min time  |  avg time  |  max time  |%varavg|' + ('  %CPU | %total' if full else ' %total')
        L = ['MPI task timing breakdown:', hdr, '-' * len(hdr)]
        rows = []
        spec.append((['min time', 'avg time', 'max time', '%varavg'] + (['%CPU'] if full else []) + ['%total'], rows))
        for name in ['Pair', 'Bond', 'Neigh', 'Comm', 'Output', 'Modify'][:rng.randint(1, 6)] + ['Other']:
            t = '%.5g' % rng.uniform(0, 2)
            if name == 'Other':
                cells = ['', t, '', '']
            else:
                cells = [t, t, t, '%.1f' % rng.uniform(0, 9)]
            if full:
                cells.append('' if name == 'Other' else '%.1f' % rng.uniform(50, 100))
            cells.append('%.2f' % rng.uniform(0, 100))
            L.append('%-7s ' % name + '|' + '|'.join(' %-10s ' % c for c in cells[:-1]) + '| ' + cells[-1].rjust(5))
            rows.append([name] + [c if c != '' else '0.0' for c in cells])     # an empty field of the table is 0.0
        return L
    if kind == 'old':
        L = []
        rows = []
        spec.append((['avg. Time', '%'], rows))
        for name in ['Pair ', 'Bond ', 'Neigh', 'Comm ', 'Outpt', 'Other']:
            t, pc = '%.6g' % rng.uniform(0, 3), '%.4g' % rng.uniform(0, 100)
            L.append('%s time (%%) = %s (%s)' % (name, t, pc))
            rows.append([('%s time (%%)' % name).strip(), t, pc])
        return L
    return []


# characters that are NOT line ends for LAMMPS, for a byte stream read line by line, or for pandas, but are line
# boundaries for str.splitlines() (\x0b \x0c \x1c \x1d \x1e U+0085 U+2028 U+2029) and / or white space for str.split()
# (those, \x1f, U+00A0, U+2003, U+3000), and other text beyond ASCII (two-, three-, four-byte UTF-8, a BOM in mid-file,
# DEL): they occur INSIDE echoed comment / print / variable lines that also hold ordinary text (a page break or a
# pasted paragraph separator in the input script).  Kept out (not in the documented layout, and the unchanged code
# mis-counts them, see docs/C19.md candidates): a lone \r inside a line, a line made only of such white space.
EXOTIC_CHARS = ['\x0b', '\x0c', '\x0c', '\x1c', '\x1d', '\x1e', '\x1f', '\x85', '\u2028', '\u2028', '\u2029', '\xa0',
                '\u2003', '\u3000', '\ufeff', '\x7f', 'é', 'Ω', '→', '温', '\U0001F600']
EXOTIC_LINES = ['# melt{} part 1', 'print "page{}break"', '# {}{} section 2', 'variable note string "a{}b"',
                '# résumé → naïve {} Ωμέγα', 'print "温度{}300 K"', '#{}', '{}# leading', '# trailing{}', 'print "{}"',
                '  # indented{}note {}', 'shell echo step{}done']


def _exotic_line(rng):
    t = rng.choice(EXOTIC_LINES)
    return t.format(*[rng.choice(EXOTIC_CHARS) for _ in range(t.count('{}'))])


def _noise(rng, pool, lo, hi, exotic=0.0):
    out = []
    for _ in range(rng.randint(lo, hi)):
        if exotic and rng.random() < exotic:
            out.append(_exotic_line(rng))
            continue
        out.append(rng.choice(pool) if rng.random() < 0.75 else rng.choice(BLANKS))
    return out


class LogSpec:
    """a synthesised log: version line, preamble, runs, layout choices, and the rendered lines."""

    def __init__(self):
        self.version = None      # (day, month index 1..12, year, suffix) or None
        self.runs = []
        self.lines = []
        self.eol = '\n'
        self.final_eol = True
        self.dirty = False       # WARNING/ERROR lines inside a thermo block
        self.bom = False         # the text starts with U+FEFF

    @property
    def version_string(self):
        if self.version is None:
            return None
        d, m, y, suf = self.version
        return f'{d} {MONTHS[m - 1]} {y}{suf}'

    def text(self):
        t = self.eol.join(self.lines)
        return t + (self.eol if self.final_eol else '')

    def model_lines(self):
        """the lines as `for line in stream` sees them (split at \\n only, terminator removed)."""
        t = self.text()
        return t.split('\n')


def render_run(rng, r: RunSpec):
    L = []
    mem = '%.4g' % rng.uniform(1, 900)
    if r.banner == 'old':
        L.append(f'Memory usage per processor = {mem} Mbytes')
    else:
        L.append(f'Per MPI rank memory allocation (min/avg/max) = {mem} | {mem} | {mem} Mbytes')
    L += [rng.choice(BLANKS) for _ in range(r.gap)]
    L.append(render_cells(rng, r.style, r.cols))
    body = [render_cells(rng, r.style, row) for row in r.rows]
    for pos, w in sorted(r.inside, reverse=True):
        body.insert(pos, w)
    if r.blank_in_body and body:
        body.insert(rng.randint(0, len(body)), rng.choice(BLANKS))
    L += body
    if r.complete:
        nst = (r.steps() or [0])
        L.append('Loop time of %.6g on %d procs for %d steps with %d atoms'
                 % (rng.uniform(0, 100), rng.choice([1, 4, 16]), (nst[-1] - nst[0]) if len(nst) > 1 else 0,
                    rng.choice([4, 32, 4000])))
        L += _noise(rng, BLANKS, 0, 1)
        L += [p for p in POST_PERF[:2] if rng.random() < 0.8]
        L += _noise(rng, BLANKS, 0, 1)
        if r.minimize:
            L += POST_MIN + _noise(rng, BLANKS, 0, 1)
        spec = []
        L += breakdown_lines(rng, r.breakdown, spec)
        r.perf = spec[0] if spec else None
        L += _noise(rng, BLANKS, 0, 1)
        if r.breakdown != 'none-nohist':
            L.append('Nlocal:    4 ave 4 max 4 min')
            L += POST_HIST[:rng.choice([1, 3, 6])]
        L += _noise(rng, POST_END + BLANKS, 0, 5, EXOTIC_P)
    return L


def gen_log(rng, nruns=None, size='small', allow_dirty=False, allow_backward=True) -> LogSpec:
    S = LogSpec()
    if rng.random() < 0.9:
        y = rng.randint(2004, 2031)
        m = rng.randint(1, 12)
        import calendar
        d = rng.choice([rng.randint(1, 9), rng.randint(1, calendar.monthrange(y, m)[1]), calendar.monthrange(y, m)[1]])
        suf = rng.choice(['', '', '', ' - Update 1', ' - Update 3', '-7-g1a2b3c', ' - Development', ' – x'])
        S.version = (d, m, y, suf)
    if nruns is None:
        nruns = rng.choice([0, 1, 1, 2, 2, 3, 3, 4, 5, 6]) if size != 'huge' else rng.choice([1, 2])
    L = []
    L += _noise(rng, BLANKS, 0, 1)
    if S.version is not None:
        L.append(f'LAMMPS ({S.version_string})' + rng.choice(['', '', ' ']))
    L += _noise(rng, PREAMBLE + BLANKS, 0, 8, EXOTIC_P)
    if rng.random() < 0.03:
        # an extremely long line (a long echoed variable / a `print` of a whole table)
        L.insert(rng.randint(0, len(L)), rng.choice([
            'variable big string "' + 'x' * rng.randint(5000, 20000) + '"',
            'print "' + ' '.join(str(j) for j in range(rng.randint(1000, 4000))) + '"']))
    start = rng.choice([0, 0, 0, 100, 5000, 1000000] * 3 + [2 ** 53 - 3, 2 ** 62])   # LAMMPS bigint steps: up to 2^63-1
    prev = None
    # one LAMMPS version per file: old banner + old timing lines, old banner + MPI breakdown, or new + new
    era = rng.choice([('old', 'old'), ('old', 'new'), ('new', 'new'), ('new', 'new')])
    same_style = rng.random() < 0.6
    # a float quantity that sits a hair away from integers for a while and is printed as plain integers by the last
    # run (a converged / frozen value): the column then has a different type from run to run
    drift = rng.choice(FLOAT_KEYS) if (nruns >= 2 and rng.random() < 0.2) else None
    for k in range(nruns):
        keys = S.runs[-1].cols if (S.runs and (same_style or drift) and rng.random() < (0.85 if not drift else 1)) else None
        force = None
        if drift:
            if keys is None:
                keys = ['Step', drift] + [x for x in rng.sample(INT_KEYS + FLOAT_KEYS, rng.randint(0, 4)) if x != drift]
            force = {drift: 'intlike' if k == nruns - 1 else 'nearint'}
        r, dt = gen_run(rng, start, size, allow_dirty, era, keys, force)
        S.runs.append(r)
        if r.inside:
            S.dirty = True
        st = r.steps()
        # where the next run starts: continuation / restart on the grid / forward gap / new grid / backward
        if st:
            q = rng.random()
            if q < 0.45:
                start = st[-1]
            elif q < 0.65:
                start = rng.choice(st)
            elif q < 0.8:
                start = st[-1] + rng.choice([1, dt, 10 * dt])
            elif q < 0.9:
                start = st[0] + rng.choice([0, 1, 3, dt // 2])
            elif allow_backward:
                start = max(0, st[0] - rng.choice([0, dt, 3 * dt, 10 ** 6]))
            else:
                start = st[-1]
    # truncation of the final block
    if S.runs and rng.random() < 0.35:
        r = S.runs[-1]
        r.complete = False
        # the crash may also cut the last printed line short (at a token boundary): fewer fields than keywords
        lo = (r.cols.index('Step') + 1) if 'Step' in r.cols else 1
        if r.rows and lo < len(r.cols) and rng.random() < 0.4:
            r.rows[-1] = r.rows[-1][:rng.randint(lo, len(r.cols) - 1)]
    for r in S.runs:
        L += _noise(rng, SETUP + BLANKS, 0, 4, EXOTIC_P)
        L += render_run(rng, r)
    if not S.runs or S.runs[-1].complete:
        L += _noise(rng, ['Total wall time: 0:00:01'] + (['LAMMPS (1 Jan 1999)'] if S.version else []) + BLANKS, 0, 2)
    # a byte-order mark at the start of the file (a log saved by an editor): in front of an echoed comment line (in
    # front of the version banner it hides the banner from the unchanged code, in front of a blank line pandas and the
    # line counter disagree: both outside the documented layout, see docs/C19.md candidates)
    if rng.random() < 0.06:
        L.insert(0, '\ufeff' + rng.choice(['# log of job 1234', 'echo both', _exotic_line(rng).lstrip() + ' #']))
        S.bom = True
    S.lines = L
    S.eol = '\r\n' if rng.random() < 0.08 else '\n'
    S.final_eol = rng.random() < 0.9
    return S


# ----------------------------------------------------------------------------------------
# canonical values: every cell is an exact rational (or nan/inf/string marker) — never text of a float
# ----------------------------------------------------------------------------------------
import re

_INT = re.compile(r'^[+-]?\d+$')
_FLT = re.compile(r'^[+-]?(\d+\.?\d*|\.\d+)([eE][+-]?\d+)?$')
NAN = 'nan'


def canon_token(tok: str):
    """printed token -> Fraction | 'nan' | 'inf' | '-inf' | ('s', text)."""
    if _INT.match(tok):
        return Fraction(int(tok))
    if _FLT.match(tok):
        return Fraction(tok)
    low = tok.lower()
    if low in ('nan', '-nan', '+nan'):
        return NAN
    if low in ('inf', '+inf', 'infinity'):
        return 'inf'
    if low in ('-inf', '-infinity'):
        return '-inf'
    return ('s', tok)


def canon_value(v):
    """cell of a pandas DataFrame -> same canonical domain."""
    import numpy as np
    if isinstance(v, str):
        # a whitespace-separated field is never empty: '' is how pandas shows a missing field of a column it kept
        # as text (e.g. an integer beyond 64 bits next to a short junk line)
        return canon_token(v) if v != '' else NAN
    if v is None:
        return NAN
    try:
        import pandas as pd
        if v is pd.NA or v is pd.NaT:       # nullable dtypes: a missing value is a missing value
            return NAN
    except Exception:  # noqa
        pass
    if isinstance(v, (bool, np.bool_)):
        return ('s', str(v))
    if isinstance(v, (int, np.integer)):
        return Fraction(int(v))
    try:
        f = float(v)
    except Exception:  # noqa          (a cell that is neither text nor a number is shown as what it is)
        return ('s', type(v).__name__ + ' ' + repr(v)[:40])
    if math.isnan(f):
        return NAN
    if math.isinf(f):
        return 'inf' if f > 0 else '-inf'
    return Fraction(f)


# pandas' default float parser (xstrtod) accumulates up to 17 digits and scales by powers of ten with one
# rounding per binary digit of the exponent: at most ~12 roundings of 2^-53 relative each.
XSTRTOD_RTOL = Fraction(16, 2 ** 53)
DBL_MAX = Fraction(2) ** 1024
DBL_TINY = Fraction(1, 2 ** 1022)


def trunc17(tok: str):
    """the decimal pandas' fast float parser actually converts: only the first 17 digit characters of the
    mantissa (leading zeros included) are used; further integer digits only scale, further decimals are dropped."""
    m = re.match(r'^([+-]?)(\d*)\.?(\d*)([eE][+-]?\d+)?$', tok)
    if not m:
        return None
    sign, ip, fp, ex = m.groups()
    e = int(ex[1:]) if ex else 0
    keep_i = ip[:17]
    e += len(ip) - len(keep_i)
    keep_f = fp[:max(0, 17 - len(keep_i))] if len(keep_i) == len(ip) else ''
    digits = (keep_i + keep_f) or '0'
    v = Fraction(int(digits)) * Fraction(10) ** (e - len(keep_f))
    return -v if sign == '-' else v


def _near(impl: Fraction, target: Fraction) -> bool:
    if impl == target:
        return True
    if abs(target) < DBL_TINY:               # subnormal / underflow region: absolute 2^-1074 steps
        return abs(impl - target) <= Fraction(16, 2 ** 1074)
    return abs(impl - target) <= XSTRTOD_RTOL * abs(target)


def cell_equal(impl, model, tok=None) -> bool:
    """impl: canon_value of what pandas holds; model: canon_token of the printed token (`tok`)."""
    if isinstance(model, Fraction):
        if isinstance(impl, Fraction):
            if model.denominator == 1 and abs(model) < 2 ** 53:
                return impl == model              # integers are read exactly
            if _near(impl, model):
                return True
            t = trunc17(tok) if tok is not None else None
            return t is not None and _near(impl, t)
        if impl in ('inf', '-inf'):
            return abs(model) >= DBL_MAX * (1 - Fraction(1, 2 ** 50)) and (impl == 'inf') == (model > 0)
        return False
    return impl == model


def canon_table(cols, rows):
    """pad short rows with nan (pandas fills missing trailing fields with NaN)."""
    n = len(cols)
    return (list(cols), [[r[k] if k < len(r) else NAN for k in range(n)] for r in rows])


def row_equal(a, b):
    """a: canonical impl cells; b: printed tokens (model / spec side)."""
    return len(a) == len(b) and all(cell_equal(x, canon_token(t), t) for x, t in zip(a, b))


def table_equal(impl, model):
    """impl: (cols, rows of canonical values); model: (cols, rows of printed tokens)."""
    (ci, ri), (cm_, rm) = impl, model
    if ci != cm_ or len(ri) != len(rm):
        return False
    return all(row_equal(a, b) for a, b in zip(ri, rm))


INDEX_COL = '<row labels are not 0..n-1:>'


def impl_table(df, record=True):
    """`record`: a table as read from one block (a flattened table may legitimately hold a column as text: one of the
    merged runs had a junk token there, and its row may have been superseded)."""
    if df is None:                      # a record without a thermo table
        return (['<the record has no thermo table>'], [])
    cols = [str(c) for c in df.columns]
    vals = df.to_numpy(dtype=object) if len(df.columns) else []
    rows = [[canon_value(v) for v in row] for row in vals]
    # printed numbers are read as numbers: a column whose cells are all numeric tokens / empty but held as text is
    # shown as text (pandas legitimately keeps a column as text only when a junk line put a non-numeric token into it)
    for k in range(len(cols) if record else 0):
        cells = [row[k] for row in vals]
        if any(isinstance(v, str) for v in cells) and \
                all(not isinstance(canon_token(v), tuple) for v in cells if isinstance(v, str) and v != ''):
            for r, v in zip(rows, cells):
                if isinstance(v, str):
                    r[k] = ('s', 'text ' + repr(v))
    # one table: its rows are labelled 0..n-1 (what read_csv gives and what flatten's ignore_index=True restores); any
    # other labelling (the runs' own labels repeated, gaps) is shown as an extra column, which no expected table has
    labels = list(df.index)
    if len(df.columns) and labels != list(range(len(labels))):
        cols = cols + [INDEX_COL]
        rows = [r + [canon_value(l) if not isinstance(l, tuple) else ('s', str(l))] for r, l in zip(rows, labels)]
    return canon_table(cols, rows)


def impl_perf(df):
    if df is None:
        return None
    cols = [str(c).strip() for c in df.columns]
    rows = []
    for idx, row in zip(df.index, df.to_numpy(dtype=object)):
        rows.append([('s', str(idx).strip())] + [canon_value(v.strip() if isinstance(v, str) else v) for v in row])
    return (cols, rows)


_GETTER_ORDER = [0]
PROBE_KEYS = ['thermo', 'performance', 'Step']


def _probe_getitem(sim):
    """for each probe key: '1' if sim[key] raises KeyError, '0' if it hands out the attribute the key names, else a
    description of what happened instead."""
    bits = ''
    for k in PROBE_KEYS:
        try:
            v = sim[k]
        except KeyError:
            bits += '1'
            continue
        except Exception as e:  # noqa
            return f'sim[{k!r}] raised {type(e).__name__}'
        if v is not getattr(sim, k, None):
            return f'sim[{k!r}] is not sim.{k}'
        bits += '0'
    return bits




def impl_state(log, record=True):
    """what the getters of the Log say.  The ORDER in which they are read alternates from call to call (a getter that
    fills or clears a cache behind another one shows up as a difference between two reads of the same state)."""
    _GETTER_ORDER[0] += 1
    got = {}
    names = ['version', 'date', 'sims']
    if _GETTER_ORDER[0] % 3 == 1:
        names = ['sims', 'date', 'version']
    elif _GETTER_ORDER[0] % 3 == 2:
        names = ['date', 'sims', 'version']
    for nm in names:
        if nm == 'version':
            got['version'] = log.lammps_version
        elif nm == 'date':
            d = log.lammps_date
            got['date'] = None if d is None else (d.year, d.month, d.day)
        else:
            sims = log.simulations
            got['sims'] = [(impl_table(s.thermo, record), impl_perf(s.performance)) for s in sims]
            got['keys'] = [list(s.keys()) for s in sims]
            got['refuses'] = [_probe_getitem(s) for s in sims]
    return {'version': got['version'], 'date': got['date'], 'sims': got['sims'], 'keys': got['keys'],
            'refuses': got['refuses']}


EXC_CLASS = {'ParserError': 'parser', 'EmptyDataError': 'parser', 'ValueError': 'value', 'IndexError': 'index',
             'KeyError': 'key', 'AssertionError': 'assert', 'AttributeError': 'attr', 'TypeError': 'type'}


def exc_class(e):
    name = type(e).__name__
    if name in EXC_CLASS:
        return 'err:' + EXC_CLASS[name]
    # subclasses (numpy's UFuncTypeError is a TypeError, pandas' errors are ValueErrors, ...)
    for base, cls in ((KeyError, 'key'), (IndexError, 'index'), (AssertionError, 'assert'), (AttributeError, 'attr'),
                      (TypeError, 'type'), (ValueError, 'value')):
        if isinstance(e, base):
            return 'err:' + cls
    return 'err:' + name


# ---- wire format -----------------------------------------------------------------------

def enc(s: str) -> str:
    out = [':']
    for ch in s:
        o = ord(ch)
        if ch == '%' or o < 33 or o == 127:
            out.append('%%%02x' % o)
        else:
            out.append(ch)
    return ''.join(out)


def dec(tok: str) -> str:
    assert tok.startswith(':'), tok
    return re.sub(r'%([0-9a-fA-F]{2})', lambda m: chr(int(m.group(1), 16)), tok[1:])


class _Toks:
    def __init__(self, line):
        self.t = line.split(' ')
        self.k = 0

    def next(self):
        v = self.t[self.k]
        self.k += 1
        return v

    def done(self):
        return self.k >= len(self.t)


def _parse_table(T):
    assert T.next() == 'T'
    nc, nr = int(T.next()), int(T.next())
    cols = [dec(T.next()) for _ in range(nc)]
    rows = []
    for _ in range(nr):
        h = T.next()
        assert h[0] == 'R'
        rows.append([dec(T.next()) for _ in range(int(h[1:]))])
    return canon_table(cols, rows)


def _parse_keys(T):
    n = int(T.next()[1:])
    keys = [dec(T.next()) for _ in range(n)]
    x = T.next()
    assert x[0] == 'X'
    return keys, x[1:]


def parse_state(reply: str):
    """`ok <state>` of the driver -> same shape as impl_state."""
    T = _Toks(reply)
    assert T.next() == 'ok'
    v = T.next()
    version = None if v == 'Vnone' else dec(v[1:])
    d = T.next()
    date = None if d == 'Dnone' else tuple(int(x) for x in d[1:].split('-'))
    n = int(T.next()[1:])
    sims = []
    keys, refuses = [], []
    for _ in range(n):
        tab = _parse_table(T)
        p = T.next()
        perf = None
        if p == 'P1':
            nc, nr = int(T.next()), int(T.next())
            cols = [dec(T.next()) for _ in range(nc)]
            rows = []
            for _ in range(nr):
                sec = dec(T.next())
                rows.append([sec] + [dec(T.next()) for _ in range(nc)])
            perf = (cols, rows)
        sims.append((tab, perf))
        kk, xx = _parse_keys(T)
        keys.append(kk)
        refuses.append(xx)
    assert T.done(), reply[:200]
    return {'version': version, 'date': date, 'sims': sims, 'keys': keys, 'refuses': refuses}


def parse_table_reply(reply: str):
    T = _Toks(reply)
    assert T.next() == 'ok'
    t = _parse_table(T)
    keys = _parse_keys(T)[0] if not T.done() else None
    assert T.done()
    return t, keys


def state_diff(impl, model):
    """first difference between the two canonical states, or None."""
    if impl['version'] != model['version']:
        return f"version {impl['version']!r} != model {model['version']!r}"
    if impl['date'] != model['date']:
        return f"date {impl['date']} != model {model['date']}"
    if len(impl['sims']) != len(model['sims']):
        return f"{len(impl['sims'])} simulations != model {len(model['sims'])}"
    for k, ((ti, pi), (tm, pm)) in enumerate(zip(impl['sims'], model['sims'])):
        if ti[0] != tm[0]:
            return f'simulation {k}: columns {ti[0]} != model {tm[0]}'
        if not table_equal(ti, tm):
            return f'simulation {k}: thermo rows differ: {_first_row_diff(ti, tm)}'
        if (pi is None) != (pm is None):
            return f'simulation {k}: performance table {"present" if pi is not None else "absent"} != model'
        if pi is not None and not table_equal(pi, pm):
            return f'simulation {k}: performance table differs: impl {pi} model {pm}'
    if 'keys' in impl and 'keys' in model:
        for k, (a, b) in enumerate(zip(impl['keys'], model['keys'])):
            if a != b:
                return f'simulation {k}: keys() {a} != model {b}'
    if 'refuses' in impl and 'refuses' in model:
        for k, (a, b) in enumerate(zip(impl['refuses'], model['refuses'])):
            if a != b:
                return (f'simulation {k}: sim[key] for key in {PROBE_KEYS}: {a} != model {b} (1 = KeyError, 0 = the '
                        f'attribute)')
    return None


def _show(c):
    if isinstance(c, Fraction):
        return str(c) if c.denominator == 1 else f'{float(c)!r}'
    return str(c)


def _first_row_diff(ti, tm):
    if len(ti[1]) != len(tm[1]):
        return f'{len(ti[1])} rows != {len(tm[1])}'
    for k, (a, b) in enumerate(zip(ti[1], tm[1])):
        if not row_equal(a, b):
            return f'row {k}: {[_show(x) for x in a]} != printed {b}'
    return '?'


# ----------------------------------------------------------------------------------------
# histories: Log(), read(log, append=…) in text / path / stream form, flatten(style, first, last)
# ----------------------------------------------------------------------------------------

def expect_of(S: LogSpec) -> dict:
    """what the property says a read of this log must give (from the spec, not from any parser)."""
    v = S.version
    return {'version': S.version_string, 'date': None if v is None else [v[2], v[1], v[0]],
            'runs': [{'cols': list(r.cols), 'rows': [list(x) for x in r.rows], 'complete': r.complete,
                      'perf': None if not (r.complete and r.perf) else [list(r.perf[0]), [list(x) for x in r.perf[1]]]}
                     for r in S.runs],
            'dirty': S.dirty}


STREAM_MODES = ('stream', 'fstream')            # binary streams: passed through by uber_open_rmode, outlive the call
TEXT_STREAM_MODES = ('tstream', 'tfstream')     # text-mode streams: refused by uber_open_rmode (ValueError)
INPUT_MODES = ['text', 'text', 'path', 'stream', 'stream', 'fstream', 'bytes', 'pathobj', 'samepath']
# 'samepath': ONE file name per history, overwritten with the log to be read each time (LAMMPS rewrites log.lammps)
APPEND_VALUES = [None, None, True, True, False, None, None, True, True, False, 0, 1, 'npT', 'npF']


def _appends(a) -> bool:
    """does `read(x, append=a)` append?  None = not given (default True); 0 / 1 / numpy bools ('npF', 'npT') are the
    falsy / truthy non-`bool` values a caller may compute the flag with."""
    if isinstance(a, str):
        return a == 'npT'
    return a is None or bool(a)


def _append_arg(a):
    import numpy as np
    return {'npT': np.True_, 'npF': np.False_}.get(a, a) if isinstance(a, str) else a


def _position(rng, text):
    """a character index into `text` where the caller leaves a stream: start, end, a line start, mid-line,
    just before / after a line terminator."""
    n = len(text)
    q = rng.random()
    if q < 0.2 or n == 0:
        return 0
    if q < 0.45:
        return n
    p = rng.randint(0, n)
    if q < 0.7:                         # start of a line
        j = text.rfind('\n', 0, p)
        return j + 1
    if q < 0.8:                         # right before a terminator
        j = text.find('\n', p)
        return j if j >= 0 else n
    return p


def _read_op(rng, k, mode, first, reuse=False, pre=None):
    """one `Log(x)` / `read(x, append=…)` op.  `reuse`: x is the one object of this history for (log k, mode) — created
    at its first use, then handed over again as the previous reads left it; `pre`: the caller first moves the stream
    to that character index; last element: arguments given by keyword ('kw') or by position ('pos')."""
    if first and rng.random() < 0.5:
        return ['ctor', k, mode, reuse, pre, rng.choice(['pos', 'pos', 'kw'])]
    return ['read', k, rng.choice(APPEND_VALUES), mode, reuse, pre, rng.choice(['kw', 'kw', 'pos'])]


# unsupported styles: near misses of the three documented spellings (refused once there is something to merge)
NEAR_STYLES = ['bogus', 'First', 'LAST', 'All', 'first ', ' last', '', 'latest', 'firsts', 'al', 'none']


def gen_history(rng, allow_dirty, size='small', allow_backward=True):
    """-> (logs: [{'text','expect'}], ops)."""
    nlogs = rng.choice([1, 1, 1, 2, 2, 3, 4])
    logs = []
    for idx in range(nlogs):
        S = gen_log(rng, size=size if (size != 'huge' or idx == 0) else 'small', allow_dirty=allow_dirty,
                    allow_backward=allow_backward)
        logs.append({'text': S.text(), 'expect': expect_of(S)})
    ops = []

    def flattens(lo):
        for _ in range(rng.choice(lo)):
            a = rng.choice([None] * 8 + [0, 1, 2, -1, -2, 7])
            b = rng.choice([None] * 8 + [1, 2, 3, -1, 9, 0])
            # style None: not given (documented default 'last'); arguments by position, by keyword, or by keyword with
            # those that are None left out
            style = rng.choice(['first'] * 5 + ['last'] * 5 + ['all'] * 4 + ['bogus', None, None])
            if style == 'bogus':
                style = rng.choice(NEAR_STYLES)
            if rng.random() < 0.15 and not allow_dirty:
                # the caller edits a record he was handed (drops its last row in place) between two identical
                # questions: the second answer sees the edit (not in logs with junk lines inside a block: dropping the
                # junk line leaves a Step column of numbers held as text, whose comparison is not modelled)
                ops.append(['flatten', style, a, b, rng.choice(['pos', 'kw', 'min'])])
                ops.append(['droprow', rng.choice([0, 0, 1, 1, 2, 3, 5])])
            ops.append(['flatten', style, a, b, rng.choice(['pos', 'kw', 'min'])])

    for k in range(nlogs):
        mode = rng.choice(INPUT_MODES)
        text = logs[k]['text']
        q = rng.random()
        if mode in STREAM_MODES and q < 0.55:
            # the same stream object handed over several times: untouched in between (as the previous read left it),
            # or moved by the caller to the start / the end / somewhere inside
            pre = _position(rng, text) if rng.random() < 0.25 else None
            ops.append(_read_op(rng, k, mode, k == 0, True, pre))
            flattens([0, 0, 1])
            for _ in range(rng.choice([1, 1, 2, 3])):
                pre = _position(rng, text) if rng.random() < 0.4 else None
                if rng.random() < 0.25:
                    ops.append(['ctor', k, mode, True, pre, 'pos'])        # a second Log object on the same stream
                else:
                    ops.append(['read', k, rng.choice([None, True, True, True, False, 1, 'npT', 0]), mode, True, pre,
                                rng.choice(['kw', 'pos'])])
                flattens([0, 0, 1])
        elif mode in STREAM_MODES and q < 0.7:
            # a fresh stream the caller has already read from
            ops.append(_read_op(rng, k, mode, k == 0, False, _position(rng, text)))
            flattens([0, 0, 1, 2])
        else:
            ops.append(_read_op(rng, k, mode, k == 0, mode != 'text' and rng.random() < 0.3))
            flattens([0, 0, 1, 2])
    if rng.random() < 0.3:      # re-read an earlier log
        k = rng.randrange(nlogs)
        mode = rng.choice(['text', 'text', 'stream', 'fstream', 'path', 'bytes'])
        ops.append(['read', k, rng.choice([None, True, False, 'npF']), mode, mode != 'text' and rng.random() < 0.7,
                    _position(rng, logs[k]['text']) if mode in STREAM_MODES and rng.random() < 0.3 else None, 'kw'])
        ops.append(['flatten', rng.choice(['first', 'last', 'all']), None, None, 'min'])
    if rng.random() < 0.5:      # the usual end of a session: everything that was read, as one table
        for style in rng.sample(['last', 'first', 'all', None], rng.choice([1, 2, 3])):
            ops.append(['flatten', style, None, None, rng.choice(['pos', 'min'])])
    if rng.random() < 0.04:     # a stream opened in text mode: the documented refusal (ends the history)
        ops.append(['read', rng.randrange(nlogs), rng.choice([None, True, False]), rng.choice(TEXT_STREAM_MODES),
                    False, None])
    return logs, ops


RESTART_CALLS = [1, 2, 3, 5, 9, 10, 11, 12, 12, 12, 13, 13, 14, 21]
RESTART_LOGNAMES = ['log.lammps', 'log.lammps', 'md.log', 'relax-2.lammps', 'log', 'run.10.out']


def _plain(text):
    """printable ASCII, blanks, tabs and \\n only: what survives the text-mode pipe of subprocess unchanged."""
    return all(32 <= ord(c) < 127 or c in '\n\t' for c in text)


def gen_restart_history(rng, ncalls=None):
    """a simulation continued `ncalls - 1` times in one directory through atomman.lammps.run(..., restart_script=...): op
    ['runcall', k, screen, how, logfile] calls run() with a stand-in executable that writes log k as the log of that call
    (to the logfile and, unless screen is off, to the screen); `how`: scripts given as text or as files.  The Log that a
    call returns is the history's Log from then on (flatten / further reads act on it)."""
    n = ncalls or rng.choice(RESTART_CALLS)
    lname = rng.choice(RESTART_LOGNAMES)
    how = rng.choice(['text', 'file'])
    logs, ops = [], []
    for j in range(n):
        S = gen_log(rng, nruns=rng.choice([1, 1, 1, 2, 0, 3]), size='small', allow_dirty=False)
        text = S.text()
        logs.append({'text': text, 'expect': expect_of(S)})
        ops.append(['runcall', j, _plain(text) and rng.random() < 0.4, how, lname])
        if rng.random() < 0.12:
            ops.append(['flatten', rng.choice(['first', 'last', 'all', None]), None, None, 'min'])
    if rng.random() < 0.3:          # the caller reads one more log into the Log he was handed
        ops.append(['read', rng.randrange(n), rng.choice([None, True]), rng.choice(['text', 'path']), False, None, 'kw'])
    if rng.random() < 0.5:
        ops.append(['flatten', rng.choice(['first', 'last', 'all']), None, None, 'min'])
    return logs, ops


def op_input(op):
    """(log index, append or None for the constructor, mode, reuse, pre) of a ctor/read op (old replays carry neither
    `reuse` nor `pre`)."""
    if op[0] == 'ctor':
        rest = list(op[3:]) + [False, None]
        return op[1], None, op[2], bool(rest[0]), rest[1]
    rest = list(op[4:]) + [False, None]
    return op[1], op[2], op[3], bool(rest[0]), rest[1]


def op_form(op):
    """how the arguments of the call are given: 'pos' / 'kw' (/ 'min' for flatten: by keyword, None ones left out);
    old replays: the forms used then."""
    if op[0] == 'ctor':
        return op[5] if len(op) > 5 else 'pos'
    if op[0] == 'read':
        return op[6] if len(op) > 6 else 'kw'
    return op[4] if len(op) > 4 else 'pos'


def flatten_style(op):
    """the style a flatten op asks for (None = not given = the documented default)."""
    return 'last' if op[1] is None else op[1]


def _byte_pos(text, p):
    return len(text[:p].encode('utf-8'))


def _line_pos(text, p):
    """character index -> (whole lines before it, characters into the line)."""
    return text.count('\n', 0, p), p - (text.rfind('\n', 0, p) + 1)


def _char_pos(text, k, c):
    """(lines, characters) of the model -> character index (the end of the content at most)."""
    lines = text.split('\n')
    return min(len(text), sum(len(l) + 1 for l in lines[:k]) + c)


class _Files:
    """temporary files for path / stream input."""

    def __init__(self):
        self.dir = tempfile.mkdtemp(prefix='c19_')
        self.n = 0
        self.open = []

    def path(self, text, same=False):
        self.n += 1
        # (a blank and a non-ASCII letter in the name: a path is not parsed, only opened)
        p = os.path.join(self.dir, 'log.lammps' if same else f'log-{self.n} é.lammps')
        with open(p, 'wb') as f:
            f.write(text.encode('utf-8'))
        return p

    STANDIN = """#!/bin/sh
# stand-in for a LAMMPS executable: the input script (stdin or -in file) names the file whose content is the log of this run
log=log.lammps; screen=1; in=
while [ $# -gt 0 ]; do
  case "$1" in
    -log) log="$2"; shift;;
    -in) in="$2"; shift;;
    -screen) [ "$2" = none ] && screen=0; shift;;
    -suffix) shift;;
  esac
  shift
done
if [ -n "$in" ]; then src=$(sed -n 's/^# log-source //p' "$in"); else src=$(sed -n 's/^# log-source //p'); fi
[ -f "$src" ] || { echo "ERROR: no log source" ; exit 1; }
[ "$log" != none ] && cat "$src" > "$log"
[ $screen = 1 ] && cat "$src"
exit 0
"""

    def rundir(self):
        """a fresh directory for one simulation + the stand-in executable (one per _Files)."""
        import stat
        exe = os.path.join(self.dir, 'lmp_standin')
        if not os.path.exists(exe):
            with open(exe, 'w') as f:
                f.write(self.STANDIN)
            os.chmod(exe, os.stat(exe).st_mode | stat.S_IEXEC)
        self.n += 1
        d = os.path.join(self.dir, f'sim{self.n}')
        os.mkdir(d)
        return exe, d

    def close(self):
        import shutil
        for f in self.open:
            try:
                f.close()
            except Exception:
                pass
        shutil.rmtree(self.dir, ignore_errors=True)


def _input(files, text, mode):
    if mode == 'text':
        return text
    if mode == 'bytes':
        return text.encode('utf-8')
    if mode == 'path':
        return files.path(text)
    if mode == 'samepath':
        return files.path(text, same=True)
    if mode == 'pathobj':
        import pathlib
        return pathlib.Path(files.path(text))
    if mode == 'stream':
        return io.BytesIO(text.encode('utf-8'))
    if mode == 'tstream':
        return io.StringIO(text, newline='')
    if mode in ('fstream', 'tfstream'):
        f = open(files.path(text), 'rb') if mode == 'fstream' else open(files.path(text), 'r', encoding='utf-8', newline='')
        files.open.append(f)
        return f
    raise ValueError(mode)


EMPTY_STATE = {'version': None, 'date': None, 'sims': [], 'keys': [], 'refuses': []}


def _scribble(df):
    """what a caller may do with a table he was handed: overwrite it in place, add a column, drop rows."""
    if df is None:
        return
    try:
        for c in list(df.columns):
            df[c] = -987654321
        df['<scribbled>'] = 1
        df.drop(df.index[::2], inplace=True)
        df.rename(columns={c: 'x' + str(c) for c in df.columns}, inplace=True)
    except Exception:  # noqa
        pass


def _stream_bytes(src, mode, path):
    """content of a caller-owned stream without moving it."""
    if mode == 'stream':
        return src.getvalue()
    with open(path, 'rb') as f:
        return f.read()


def run_impl(logs, ops, files):
    """execute a history on the real atomman. -> list of ('state', st, tell, notes) | ('table', t, changed, aliased)
    | ('err', cls, msg); `tell` = byte position a binary stream handed to the read is left at (None for other inputs);
    `notes` = list of things that must not happen around a read (a new Log is not empty, the caller's stream closed
    or rewritten)."""
    import atomman.lammps as lmp
    out = []
    log = None
    objs = {}
    nopen = len(files.open)
    # after the caller dropped a row of a record, a column may hold numbers as text for a reason that is gone (the junk
    # token was in the dropped row): from then on the tables of this Log are compared by value only
    pristine = True
    runs_done = []          # logs written by the runcall ops so far (one directory per history)
    simdir = None

    def fresh_log(notes):
        lg = lmp.Log()
        st0 = impl_state(lg)
        if st0 != EMPTY_STATE:
            notes.append(f'a new Log() is not empty: version {st0["version"]!r}, date {st0["date"]}, '
                         f'{len(st0["sims"])} simulation records')
        return lg

    try:
        for op in ops:
            try:
                if op[0] in ('ctor', 'read'):
                    k, append, mode, reuse, pre = op_input(op)
                    form = op_form(op)
                    text = logs[k]['text']
                    notes = []
                    if reuse and (k, mode) in objs and mode != 'samepath':
                        src = objs[(k, mode)]
                    else:
                        src = _input(files, text, mode)
                        if reuse:
                            objs[(k, mode)] = src
                    if pre is not None and mode in STREAM_MODES:
                        src.seek(_byte_pos(text, pre))
                    if op[0] == 'ctor':
                        pristine = True
                        log = lmp.Log(src) if form == 'pos' else lmp.Log(log_info=src)
                    else:
                        if log is None:
                            log = fresh_log(notes)
                        if append is None:
                            log.read(src) if form == 'pos' else log.read(log_info=src)
                        elif form == 'pos':
                            log.read(src, _append_arg(append))
                        else:
                            log.read(src, append=_append_arg(append))
                    tell = None
                    if mode in STREAM_MODES:
                        # the stream is the caller's: still open, its content untouched
                        if src.closed:
                            notes.append('the stream handed to the read was closed by it')
                        else:
                            tell = src.tell()
                            if _stream_bytes(src, mode, getattr(src, 'name', None)) != text.encode('utf-8'):
                                notes.append('the content of the stream handed to the read was changed by it')
                            if not reuse:
                                # `with open(...) as f: log.read(f)`: what was read does not depend on the stream any more
                                src.close()
                    elif mode in ('path', 'pathobj', 'samepath'):
                        with open(str(src), 'rb') as f:
                            if f.read() != text.encode('utf-8'):
                                notes.append('the file whose path was handed to the read was changed by it')
                    out.append(('state', impl_state(log, pristine), tell, notes))
                elif op[0] == 'runcall':
                    k, screen, how, lname = op[1], bool(op[2]), op[3], op[4]
                    if simdir is None:
                        simdir = files.rundir()
                    exe, d = simdir
                    srcp = os.path.join(d, f'source_{len(runs_done)}.txt')
                    with open(srcp, 'wb') as f:
                        f.write(logs[k]['text'].encode('utf-8'))
                    scripts = ['# start\n# log-source ' + srcp + '\n', '# restart\n# log-source ' + srcp + '\n']
                    kw = {'logfile': lname, 'screen': screen}
                    if lname == 'log.lammps' and len(runs_done) % 2:
                        del kw['logfile']                   # the documented default
                    cwd = os.getcwd()
                    os.chdir(d)
                    try:
                        if how == 'file':
                            for nm_, sc_ in zip(('in.start', 'in.restart'), scripts):
                                with open(nm_, 'w') as f:
                                    f.write(sc_)
                            kw.update(script_name='in.start', restart_script_name='in.restart')
                        else:
                            kw.update(script=scripts[0], restart_script=scripts[1])
                        log = lmp.run(exe, **kw)
                    finally:
                        os.chdir(cwd)
                    runs_done.append(k)
                    pristine = True
                    out.append(('state', impl_state(log, pristine), None, []))
                elif op[0] == 'droprow':
                    j = op[1]
                    if log is None:
                        log = fresh_log([])
                    if j < len(log.simulations) and len(log.simulations[j].thermo) >= 1:
                        t = log.simulations[j].thermo
                        t.drop(t.index[-1], inplace=True)
                        pristine = False
                    out.append(('state', impl_state(log, pristine), None, []))
                elif op[0] == 'flatten':
                    notes = []
                    if log is None:
                        log = fresh_log(notes)
                    before = [impl_table(x.thermo, pristine) for x in log.simulations]
                    form = op_form(op)
                    style, fi, la = op[1], op[2], op[3]

                    def changed_since():
                        # flatten is a query: the records of the log are what they were (also after a refusal)
                        after = [impl_table(x.thermo, pristine) for x in log.simulations]
                        if len(after) != len(before):
                            return f'{len(before)} records before, {len(after)} after'
                        for j, (b, a) in enumerate(zip(before, after)):
                            if b != a:
                                return (f'record {j} had columns {b[0]} and {len(b[1])} rows before, '
                                        f'columns {a[0]} and {len(a[1])} rows after')
                        return None

                    try:
                        if form == 'pos' and style is not None:
                            sim = log.flatten(style, fi, la)
                        else:
                            kw = {} if style is None else {'style': style}
                            if form != 'min' or fi is not None:
                                kw['firstindex'] = fi
                            if form != 'min' or la is not None:
                                kw['lastindex'] = la
                            sim = log.flatten(**kw)
                    except Exception as e:  # noqa
                        out.append(('err', exc_class(e), f'{type(e).__name__}: {str(e)[:200]}', changed_since()))
                        continue
                    res = ('table', impl_table(sim.thermo, record=False))
                    changed = changed_since() or (notes[0] if notes else None)
                    keysnote = None
                    if list(sim.keys()) != ['thermo'] or sim.performance is not None:
                        keysnote = (f'the Simulation returned by flatten has keys {list(sim.keys())} and '
                                    f'{"a" if sim.performance is not None else "no"} performance table: expected thermo only')
                    # flatten hands out a new table: whatever the caller does to it, the log keeps its records
                    aliased = None
                    if changed is None:
                        _scribble(sim.thermo)
                        after2 = [impl_table(x.thermo, pristine) for x in log.simulations]
                        j = next((j for j, (x, y) in enumerate(zip(before, after2)) if x != y), None)
                        if j is not None:
                            aliased = (f'the table returned by flatten is not a new one: after the caller overwrote the '
                                       f'returned table in place, record {j} of the log has columns {after2[j][0]}')
                    out.append(res + (changed, aliased, keysnote, list(sim.keys())))
            except Exception as e:  # noqa
                out.append(('err', exc_class(e), f'{type(e).__name__}: {str(e)[:200]}'))
                if op[0] != 'flatten':      # a failed read leaves the object half-updated: stop the history
                    break
    finally:
        for f in files.open[nopen:]:
            try:
                f.close()
            except Exception:  # noqa
                pass
        del files.open[nopen:]
    return out


REFUSED = 'err:value'        # uber_open_rmode (potentials package, not modelled): text-mode streams raise ValueError


def model_requests(logs, ops):
    """-> (request lines, for each op the index of the request whose reply answers it or None for a canned reply)."""
    req = ['new']
    where = []
    ids = {}
    nid = 0
    runs_done = []
    for op in ops:
        if op[0] == 'runcall':
            # run() on restart: a new Log, the renamed old logs read from their files in the order they were written,
            # then the current one (from the screen text or from the logfile)
            req.append('new')
            for k_ in runs_done:
                req.append('read 1 ' + ' '.join(enc(l) for l in logs[k_]['text'].split('\n')))
            text = logs[op[1]]['text']
            req.append(('readt 1 ' + enc(text)) if op[2] else ('read 1 ' + ' '.join(enc(l) for l in text.split('\n'))))
            where.append(len(req) - 1)
            runs_done.append(op[1])
        elif op[0] in ('ctor', 'read'):
            k, append, mode, reuse, pre = op_input(op)
            text = logs[k]['text']
            if op[0] == 'ctor':
                req.append('new')
            # an argument left out goes to the model as left out: the defaults are the model's (regenerated from the
            # signatures), not the harness's
            a = '-' if append is None else ('1' if _appends(append) else '0')
            if mode in TEXT_STREAM_MODES:
                req.append(f'readts {a}')       # the model's answer for that input form (readInput … .textStream)
                where.append(len(req) - 1)
            elif mode in STREAM_MODES:
                if reuse and (k, mode) in ids:
                    sid = ids[(k, mode)]
                else:
                    sid = nid
                    nid += 1
                    if reuse:
                        ids[(k, mode)] = sid
                    req.append(f'sopen {sid} ' + ' '.join(enc(l) for l in text.split('\n')))
                if pre is not None:
                    lk, lc = _line_pos(text, pre)
                    req.append(f'sseek {sid} {lk} {lc}')
                req.append(f'sread {sid} {a}')
                where.append(len(req) - 1)
            elif mode in ('text', 'bytes'):
                # the whole text as one token: the model splits it into lines itself (splitLines: at \n only)
                req.append((f'readt {a} ' if op[0] == 'read' else 'ctort ') + enc(text))
                where.append(len(req) - 1)
            else:
                req.append((f'read {a} ' if op[0] == 'read' else 'ctor ') + ' '.join(enc(l) for l in text.split('\n')))
                where.append(len(req) - 1)
        elif op[0] == 'droprow':
            req.append(f'droprow {op[1]}')
            req.append('state')
            where.append(len(req) - 1)
        else:
            f = lambda x: 'none' if x is None else str(x)  # noqa
            req.append(f'flatten {"-" if op[1] is None else enc(op[1])} {f(op[2])} {f(op[3])}')
            where.append(len(req) - 1)
    return req, where


def compare_history(logs, ops, impl_out, replies, where):
    """-> None or (op index, description)."""
    for k, res in enumerate(impl_out):
        rep = REFUSED if where[k] is None else replies[where[k]]
        if res[0] == 'err':
            if ops[k][0] == 'flatten' and res[1] == 'err:type' and rep == 'err:attr':
                # doubly malformed selection: a junk line put text into the Step column of one run (comparison not
                # modelled: TypeError at the first merge) AND a later run has no Step column (the model looks for that
                # first): both refuse, which refusal comes first is not part of the model
                continue
            if rep != res[1]:
                return k, f'implementation raised {res[2]} but the model answers {rep[:120]}'
            if len(res) > 3 and res[3]:
                return k, 'flatten (refusing) changed the records of the log: ' + res[3]
            continue
        if rep == 'err:type' and res[0] == 'table':
            continue        # Step cells that are not integers (junk line in the block): comparison not modelled
        if rep.startswith('err:'):
            return k, f'model answers {rep} but the implementation returned a result'
        if res[0] == 'state':
            if len(res) > 3 and res[3]:
                return k, '; '.join(res[3])
            pos = None
            if ' @' in rep:
                rep, at = rep.rsplit(' @', 1)
                pos = tuple(int(x) for x in at.split(','))
            d = state_diff(res[1], parse_state(rep))
            if d:
                return k, d
            if pos is not None and len(res) > 2 and res[2] is not None:
                text = logs[op_input(ops[k])[0]]['text']
                want = _byte_pos(text, _char_pos(text, *pos))
                if res[2] != want:
                    return k, (f'the stream handed to the read is left at byte {res[2]} of {len(text.encode("utf-8"))}, '
                               f'model: at byte {want}')
        else:
            if len(res) > 2 and res[2]:
                return k, 'flatten changed the records of the log: ' + res[2]
            if len(res) > 3 and res[3]:
                return k, res[3]
            if len(res) > 4 and res[4]:
                return k, res[4]
            mt, mkeys = parse_table_reply(rep)
            if len(res) > 5 and mkeys is not None and res[5] != mkeys:
                return k, f'the Simulation returned by flatten has keys {res[5]}, model {mkeys}'
            if res[1][0] != mt[0]:
                return k, f'flatten columns {res[1][0]} != model {mt[0]}'
            if not table_equal(res[1], mt):
                return k, 'flatten rows differ: ' + _first_row_diff(res[1], mt)
    return None


def correspond(ctx):
    cm.build_tree()
    rng = ctx.rng
    N = ctx.n(330, 4000)
    files = _Files()
    try:
        hist = []
        for it in range(N):
            size = 'big' if it % 40 == 39 else 'small'
            logs, ops = gen_history(rng, allow_dirty=(it % 4 == 3), size=size)
            hist.append((logs, ops))
        hist += [(l, o) for l, o in _malformed_histories(rng)]
        hist += [gen_restart_history(rng) for _ in range(ctx.n(5, 40))]
        hist.append(gen_restart_history(rng, 12 + rng.randrange(3)))
        reqs = []
        for logs, ops in hist:
            reqs.append(model_requests(logs, ops))
        flat = [r for rq, _ in reqs for r in rq]
        replies = ctx.driver.ask_many(flat)
        pos = 0
        nerr = 0
        nreuse = 0
        for (logs, ops), (rq, where) in zip(hist, reqs):
            rep = replies[pos:pos + len(rq)]
            pos += len(rq)
            impl_out = run_impl(logs, ops, files)
            bad = compare_history(logs, ops, impl_out, rep, where)
            kinds = '+'.join(sorted({o[0] for o in ops}))
            if any(o[0] in ('ctor', 'read') and (op_input(o)[3] or op_input(o)[4] is not None) for o in ops):
                kinds += '+reused/positioned-stream'
                nreuse += 1
            nruns = sum(len(l['expect']['runs']) for l in logs) if all('expect' in l for l in logs) else -1
            ctx.stats.case('history:' + kinds, [l['text'] for l in logs] + [ops], nontrivial=nruns != 0,
                           sample={'ops': ops, 'runs': nruns, 'first_log_head': logs[0]['text'][:300]})
            if impl_out and impl_out[-1][0] == 'err':
                nerr += 1
            if bad:
                k, what = bad
                ctx.disagree('history:' + ops[k][0], f'op {k} {ops[k]}: {what}',
                             {'op': 'history', 'logs': logs, 'ops': ops, 'failed_op': k, 'what': what})
                if len(ctx.disagreements) >= 50:      # nothing more is recorded: the tie is broken, stop here
                    break
        ctx.extra['histories'] = len(hist)
        ctx.extra['histories_ending_in_error'] = nerr
        ctx.extra['histories_with_reused_or_positioned_stream'] = nreuse
    finally:
        files.close()


def _malformed_histories(rng):
    """logs outside the documented layout: model and implementation must reject alike (same error class)."""
    B = 'Memory usage per processor = 2.5 Mbytes'
    texts = [
        'x\n' + B + '\n',                                            # banner is the last line
        'Loop time of 3\n' + B + '\nStep Temp\n0 1.5\n',             # footer before header
        B + '\nStep Temp\n0 1.5\n10 2.5 7 8\n',                      # row wider than the header
        B + '\nStep Temp\n0 1.5\nWARNING: a b c d\n10 2\nLoop time of 1\n',
        'LAMMPS (12 Foo 2020)\n' + B + '\nStep\n0\n',                # unknown month
        'LAMMPS (7 August 2019)\n' + B + '\nStep\n0\n',              # month not abbreviated (LAMMPS never prints it)
        'LAMMPS (7 aug 2019)\n' + B + '\nStep\n0\n',                 # lower case
        'LAMMPS (12 Feb)\n' + B + '\nStep\n0\n',                     # no year
        'LAMMPS (30 Feb 2020)\n' + B + '\nStep\n0\n',                # impossible day
        'LAMMPS (x Feb 2020)\n' + B + '\nStep\n0\n',                 # day not a number
        'LAMMPS (29 Feb 2020)\n' + B + '\nStep\n0\n',                # leap day (fine)
        'LAMMPS (29 Feb 2100)\n' + B + '\nStep\n0\n',                # not a leap year
        '',                                                          # empty log
        '\n\n',
        B + '\nTemp Pe\n1 2\n3 4\nLoop time of 1\n' + B + '\nTemp Pe\n1 2\nLoop time of 1\n',   # no Step: flatten asserts
        # a table followed directly by the next memory line, no `Loop time` line in between (a crashed session followed
        # by a new one in the same file): the footers pair up with the wrong headers
        B + '\nStep Temp\n0 1.5\n10 2.5\n' + B + '\nStep Temp\n10 1\n20 2\nLoop time of 1\n',
        B + '\nStep Temp\n0 1.5\n10 2.5\nLAMMPS (7 Aug 2019)\n' + B + '\nStep Temp Press\n10 1 2\n20 2 3\nLoop time of 1\nx\n',
    ]
    out = []
    for t in texts:
        ops = [['ctor', 0, 'text'], ['flatten', 'last', None, None], ['flatten', 'all', None, None]]
        out.append(([{'text': t}], ops))
    # flatten on an empty Log, bogus style on one and on two simulations
    one = B + '\nStep Temp\n0 1.5\n10 2.5\nLoop time of 1\n'
    out.append(([{'text': one}], [['flatten', 'last', None, None]]))
    out.append(([{'text': one}], [['ctor', 0, 'text'], ['flatten', 'bogus', None, None]]))
    out.append(([{'text': one + one}], [['ctor', 0, 'text'], ['flatten', 'bogus', None, None]]))
    out.append(([{'text': one + one}], [['ctor', 0, 'text'], ['flatten', 'first', 2, None]]))
    # empty (header-only) runs: NaN comparison semantics of first/last
    hdr = B + '\nStep Temp\n'
    for t in (hdr + 'Loop time of 1\n' + one, one + hdr + 'Loop time of 1\n' + one, one + hdr):
        out.append(([{'text': t}], [['ctor', 0, 'text'], ['flatten', 'first', None, None],
                                    ['flatten', 'last', None, None], ['flatten', 'all', None, None]]))
    return out


# ----------------------------------------------------------------------------------------
# search: the property's clauses on the real code, judged from the run specs alone
# ----------------------------------------------------------------------------------------

def _union_cols(runs):
    cols = []
    for r in runs:
        for c in r['cols']:
            if c not in cols:
                cols.append(c)
    return cols


def _row_tokens(run, k, cols):
    """printed tokens of row k of a run laid out over the union columns (absent column -> nan)."""
    d = dict(zip(run['cols'], run['rows'][k]))
    return [d.get(c, 'nan') for c in cols]


def _steps(run):
    k = run['cols'].index('Step')
    return [int(r[k]) for r in run['rows']]


def flatten_clauses(style, runs, table):
    """property clauses for flatten(style) over `runs` (each with a Step column, >= 1 row, steps strictly
    increasing within a run). `table` = canonical implementation result. -> None or description."""
    cols = _union_cols(runs)
    if table[0] != cols:
        return f'columns {table[0]} != union of the runs\' columns {cols}'
    si = cols.index('Step')
    if style == 'all':
        want = [_row_tokens(r, k, cols) for r in runs for k in range(len(r['rows']))]
        if len(table[1]) != len(want):
            return f'{len(table[1])} rows, expected all {len(want)} printed rows'
        for k, (a, b) in enumerate(zip(table[1], want)):
            if not row_equal(a, b):
                return f'row {k}: {[_show(x) for x in a]} != printed {b}'
        return None
    got_steps = []
    for row in table[1]:
        if not (isinstance(row[si], Fraction) and row[si].denominator == 1):
            return f'Step value {row[si]} is not an integer'
        got_steps.append(int(row[si]))
    if len(set(got_steps)) != len(got_steps):
        dup = [s for s in set(got_steps) if got_steps.count(s) > 1]
        return f'timestep(s) {sorted(dup)[:5]} appear more than once'
    allsteps = [_steps(r) for r in runs]
    for row, s in zip(table[1], got_steps):
        owners = [i for i, st in enumerate(allsteps) if s in st]
        if not owners:
            return f'timestep {s} is in no run'
        i = owners[0] if style == 'first' else owners[-1]
        want = _row_tokens(runs[i], allsteps[i].index(s), cols)
        if not row_equal(row, want):
            return (f'timestep {s}: row {[_show(x) for x in row]} is not the printed row of the '
                    f'{"earliest" if style == "first" else "latest"} run containing it (run {i}): {want}')
    # every timestep present, when the runs are aligned (a step of a run that lies inside the range already
    # covered by the runs that take precedence is itself printed by one of them)
    union = set(s for st in allsteps for s in st)
    if style == 'first':
        aligned = all(s in set(x for st in allsteps[:i] for x in st)
                      for i in range(len(runs)) for s in allsteps[i]
                      if any(s <= x for st in allsteps[:i] for x in st))
    else:
        aligned = all(s in set(x for st in allsteps[i + 1:] for x in st)
                      for i in range(len(runs)) for s in allsteps[i]
                      if any(s >= x for st in allsteps[i + 1:] for x in st))
    if aligned and set(got_steps) != union:
        return f'timesteps {sorted(union - set(got_steps))[:5]} are missing from the flattened table'
    if aligned and got_steps != sorted(got_steps):
        return 'timesteps are not in increasing order'
    return None


def _state_clauses(k, st, cur):
    """the records, version and date of the log against what was printed. -> None or (key, description)"""
    for j, ((tab, _), run) in enumerate(zip(st['sims'], cur['runs'])):
        if tab[0] != run['cols']:
            return 'read:columns', f'op {k}: run {j}: columns {tab[0]} != printed {run["cols"]}'
        if len(tab[1]) != len(run['rows']):
            kind = 'read:truncated' if not run['complete'] else 'read:rows'
            return kind, (f'op {k}: run {j} ({"complete" if run["complete"] else "truncated"}): '
                          f'{len(tab[1])} rows read, {len(run["rows"])} printed')
        si = run['cols'].index('Step') if 'Step' in run['cols'] else None
        for i, (a, b) in enumerate(zip(tab[1], run['rows'])):
            b = b + ['nan'] * (len(run['cols']) - len(b))      # a line cut short: the missing fields are NaN
            if not row_equal(a, b):
                return 'read:values', (f'op {k}: run {j} row {i}: {[_show(x) for x in a]} != printed {b}')
            # the timestep is an integer (LAMMPS bigint, below 2^63) and is read exactly, also beyond 2^53
            if si is not None and si < len(run['rows'][i]) and a[si] != Fraction(int(b[si])):
                return 'read:values', (f'op {k}: run {j} row {i}: Step {_show(a[si])} != printed {b[si]} '
                                       f'(off by {_show(a[si] - int(b[si])) if isinstance(a[si], Fraction) else "?"})')
    if st['version'] != cur['version']:
        return 'read:version', f'op {k}: lammps_version {st["version"]!r}, expected {cur["version"]!r}'
    want_date = None if cur['date'] is None else tuple(cur['date'])
    if st['date'] != want_date:
        return 'read:date', f'op {k}: lammps_date {st["date"]}, expected {want_date}'
    # the record of a run carries the timing breakdown printed after that run (and no other)
    for j, ((_, perf), run) in enumerate(zip(st['sims'], cur['runs'])):
        if 'perf' not in run:
            continue            # replay written before the breakdown was part of the specification
        want = run['perf']
        if (perf is None) != (want is None):
            return 'read:performance', (f'op {k}: run {j}: the record has '
                                        f'{"a" if perf is not None else "no"} performance table, the log prints '
                                        f'{"a" if want is not None else "no"} timing breakdown after that run')
        if want is not None:
            if perf[0] != want[0]:
                return 'read:performance', f'op {k}: run {j}: performance columns {perf[0]} != printed {want[0]}'
            if not table_equal(perf, (want[0], want[1])):
                return 'read:performance', (f'op {k}: run {j}: performance table '
                                            f'{[[_show(c) for c in r] for r in perf[1]]} != printed {want[1]}')
    if 'keys' in st:
        for j, (keys, (_, perf)) in enumerate(zip(st['keys'], st['sims'])):
            want = ['thermo'] + (['performance'] if perf is not None else [])
            if keys != want:
                return 'read:record-keys', f'op {k}: run {j}: the record has keys {keys}, expected {want}'
    if 'refuses' in st:
        # sim[key]: the table behind a key that was set, KeyError for everything else (a record without timing breakdown
        # has no 'performance' key; a thermo keyword is not a key of the record)
        for j, (bits, (_, perf)) in enumerate(zip(st['refuses'], st['sims'])):
            want = '0' + ('0' if perf is not None else '1') + '1'
            if bits != want:
                return 'read:record-getitem', (f'op {k}: run {j}: sim[key] for key in {PROBE_KEYS} gives {bits}, '
                                               f'expected {want} (1 = KeyError, 0 = the attribute of that name)')
    return None


def check_history_clauses(logs, ops, impl_out):
    """-> None or (key, description): the clauses of C19 evaluated on what the real code returned."""
    cur = None     # expected {'version','date','runs'} after the reads so far
    for k, (op, res) in enumerate(zip(ops, impl_out)):
        if op[0] in ('ctor', 'read'):
            e = logs[op[1]]['expect']
            _, app, mode, reuse, pre = op_input(op)
            append = op[0] != 'ctor' and _appends(app)
            if cur is None or not append:       # a new Log object / append=False
                cur = {'version': None, 'date': None, 'runs': []}
            # whatever object carries the log (text, bytes, path, open binary stream — fresh, handed over before, or
            # left somewhere by the caller), the log is its whole content
            cur = {'version': cur['version'] if cur['version'] is not None else e['version'],
                   'date': cur['date'] if cur['version'] is not None else e['date'],
                   'runs': cur['runs'] + e['runs']}
            how = mode + ' input' + (', the object handed over before' if reuse and any(
                o[0] in ('ctor', 'read') and op_input(o)[3] and (o[1], op_input(o)[2]) == (op[1], mode) for o in ops[:k]) else '') \
                + (f', left by the caller at character {pre} of {len(logs[op[1]]["text"])}' if pre is not None else '')
            if res[0] == 'err':
                if mode in TEXT_STREAM_MODES and res[1] == REFUSED:
                    return None         # the documented refusal of streams opened in text mode; the history ends here
                return 'read:raises', f'op {k} {op[0]}({how}): reading a well-formed log raised {res[2]}'
            st = res[1]
            if len(res) > 3 and res[3]:
                return 'read:side-effect', f'op {k} {op[0]}({how}): ' + '; '.join(res[3])
            if len(st['sims']) != len(cur['runs']):
                return ('read:append' if (k > 0 and append) else 'read:runs',
                        f'op {k} {op[0]}({how}, append={"not given" if app is None else app!r} given by '
                        f'{"position" if op_form(op) == "pos" else "keyword"}): {len(st["sims"])} simulation records, '
                        f'expected {len(cur["runs"])} (one per run, '
                        f'{"appended after the existing ones" if append else "the existing ones dropped"})')
            bad = _state_clauses(k, st, cur)
            if bad:
                return bad
        elif op[0] == 'runcall':
            done = [o[1] for o in ops[:k] if o[0] == 'runcall'] + [op[1]]
            cur = {'version': None, 'date': None, 'runs': []}
            for kk in done:         # reading a further log appends its runs after the existing ones
                e = logs[kk]['expect']
                cur = {'version': cur['version'] if cur['version'] is not None else e['version'],
                       'date': cur['date'] if cur['version'] is not None else e['date'],
                       'runs': cur['runs'] + e['runs']}
            how = (f'op {k}: call {len(done)} of atomman.lammps.run(<stand-in executable writing log {op[1]}>, '
                   f'{"script_name=, restart_script_name=" if op[3] == "file" else "script=, restart_script="}, logfile={op[4]!r}, '
                   f'screen={bool(op[2])}) in one directory (logs written by the calls so far: {done})')
            if res[0] == 'err':
                return 'run:raises', how + f' raised {res[2]}'
            st = res[1]
            if len(st['sims']) != len(cur['runs']):
                first = [(_show(t[1][0][t[0].index('Step')]) if 'Step' in t[0] and t[1] else None) for t, _ in st['sims']]
                return 'run:restart-append', (how + f': the returned Log has {len(st["sims"])} simulation records, expected '
                                              f'{len(cur["runs"])}: the runs of the {len(done) - 1} earlier logs in the order they '
                                              f'were written, then those of the current one ({[len(logs[kk]["expect"]["runs"]) for kk in done]} '
                                              f'runs per log); first Step of the records returned: {first}')
            bad = _state_clauses(k, st, cur)
            if bad:
                return 'run:' + bad[0].split(':')[1], how + ': the returned Log: ' + bad[1]
        elif op[0] == 'droprow':
            if cur is None:
                cur = {'version': None, 'date': None, 'runs': []}
            j = op[1]
            if res[0] == 'err':
                return 'edit:raises', f'op {k}: dropping the last row of record {j} in place raised {res[2]}'
            if j < len(cur['runs']) and cur['runs'][j]['rows']:
                cur = dict(cur, runs=cur['runs'][:j] + [dict(cur['runs'][j], rows=cur['runs'][j]['rows'][:-1])]
                           + cur['runs'][j + 1:])
            st = res[1]
            if len(st['sims']) != len(cur['runs']):
                return 'edit:records', f'op {k}: after an in-place edit of record {j} the log has {len(st["sims"])} records'
            bad = _state_clauses(k, st, cur)
            if bad:
                return 'edit:' + bad[0].split(':')[1], ('after the caller dropped the last row of record %d in place: ' % j) + bad[1]
        else:
            if cur is None:
                continue
            style = flatten_style(op)
            call = (f'flatten({"" if op[1] is None else repr(op[1]) + ", "}{op[2]}, {op[3]}'
                    f'{"; by keyword" if op_form(op) != "pos" else ""})')
            if res[0] == 'table' and len(res) > 2 and res[2]:
                return 'flatten:changes-log', (f'op {k} {call} changed the records of the '
                                               f'log it was asked about: {res[2]}')
            if res[0] == 'err' and len(res) > 3 and res[3]:
                return 'flatten:changes-log', (f'op {k} {call} raised {res[2]} and changed the records of the log it was '
                                               f'asked about: {res[3]}')
            if res[0] == 'table' and len(res) > 3 and res[3]:
                return 'flatten:aliases-log', f'op {k} {call}: {res[3]}'
            if res[0] == 'table' and len(res) > 4 and res[4]:
                return 'flatten:record-keys', f'op {k} {call}: {res[4]}'
            runs = cur['runs'][slice(op[2], op[3])]
            # the documented refusals: runs without a Step column cannot be merged (assertion), unknown style (ValueError)
            refusal = None
            if any('Step' not in r['cols'] and len(r['rows']) >= 1 for r in runs):
                refusal = ('err:assert', 'a run without a Step column')
            elif style not in ('first', 'last', 'all') and len(runs) >= 2:
                refusal = ('err:value', f'the unsupported style {style!r}')
            if refusal is not None:
                if res[0] != 'err':
                    return 'flatten:refusal', (f'op {k} {call} over {len(runs)} runs returned a table of {len(res[1][1])} '
                                               f'rows instead of refusing {refusal[1]}')
                if res[1] != refusal[0]:
                    return 'flatten:refusal', (f'op {k} {call} over {len(runs)} runs: {refusal[1]} is refused by '
                                               f'{res[2]}, documented: {"AssertionError" if refusal[0] == "err:assert" else "ValueError"}')
                continue
            if len(runs) == 0 and res[0] == 'table' and len(res[1][1]) > 0:
                return 'flatten:selection', (f'op {k} {call}: simulations[{op[2]}:{op[3]}] of {len(cur["runs"])} records is '
                                             f'empty, the result has {len(res[1][1])} rows')
            ok_in = (style in ('first', 'last', 'all') and len(runs) >= 1
                     and all('Step' in r['cols'] and len(r['rows']) >= 1 for r in runs))
            if not ok_in:
                continue       # outside the property's hypotheses (empty selection / empty block)
            if res[0] == 'err':
                return 'flatten:raises', f'op {k} {call} raised {res[2]}'
            bad = flatten_clauses(style, runs, res[1])
            if bad:
                return 'flatten:' + style, f'op {k} {call}: {bad}'
    return None


def search(ctx, broken):
    cm.build_tree()
    rng = random.Random(ctx.seed * 7919 + 19)
    N = ctx.n(400, 3000) * (3 if broken else 1)
    files = _Files()
    shrunk = set()
    # other Log objects already lived in this process (correspond): in a replay a canned one stands for them
    prev = {'logs': [{'text': 'Memory usage per processor = 2.5 Mbytes\nStep Temp\n0 1.5\n10 2.5\nLoop time of 1\n'}],
            'ops': [['ctor', 0, 'text'], ['read', 0, True, 'text']]}
    try:
        for it in range(N):
            size = 'huge' if it % 400 == 57 else 'big' if it % 50 == 49 else 'small'
            logs, ops = gen_history(rng, allow_dirty=False, size=size, allow_backward=(it % 5 == 4))
            if it % 50 == 8:
                # a simulation restarted again and again through atomman.lammps.run (always one of >= 12 calls per run;
                # thorough: one of 102 calls)
                logs, ops = gen_restart_history(rng, (102 if ctx.thorough and it == 58 else 12 + rng.randrange(3))
                                                if it % 200 == 58 else None)
            logs0, ops0 = logs, ops
            impl_out = run_impl(logs, ops, files)
            bad = check_history_clauses(logs, ops, impl_out)
            nruns = sum(len(l['expect']['runs']) for l in logs)
            ctx.stats.case('oracle:history', [l['text'] for l in logs] + [ops], nontrivial=nruns > 0)
            if bad:
                key, what = bad
                if key not in shrunk:                 # one minimised replay per clause is enough
                    shrunk.add(key)
                    logs, ops = _shrink(logs, ops, key, files)
                    impl_out = run_impl(logs, ops, files)
                    what = (check_history_clauses(logs, ops, impl_out) or (key, what))[1]
                # `prelude`: the history executed just before in this process (state leaking from one Log object
                # into the next, e.g. a shared default list, needs it to reproduce in a fresh process)
                ctx.violate(key, what, {'op': 'history', 'logs': logs, 'ops': ops, 'prelude': prev})
                if len(ctx.violations) >= 50:
                    break
            prev = {'logs': logs0, 'ops': ops0}
    finally:
        files.close()


def _shrink(logs, ops, key, files):
    """drop trailing/irrelevant ops while the same clause still fails (keeps replays short)."""
    def fails(o):
        r = check_history_clauses(logs, o, run_impl(logs, o, files))
        return r is not None and r[0] == key
    changed = True
    while changed and len(ops) > 1:
        changed = False
        for k in range(len(ops) - 1, -1, -1):
            cand = ops[:k] + ops[k + 1:]
            if cand and fails(cand):
                ops = cand
                changed = True
                break
    return logs, ops


def replay(ctx, payload):
    cm.build_tree()
    r = payload.get('replay', {})
    if r.get('op') != 'history' and payload.get('disagreements'):
        r = payload['disagreements'][0]
    if r.get('op') != 'history':
        return search(ctx, True)
    logs, ops = r['logs'], [list(o) for o in r['ops']]
    files = _Files()
    try:
        if r.get('prelude'):
            run_impl(r['prelude']['logs'], [list(o) for o in r['prelude']['ops']], files)
        impl_out = run_impl(logs, ops, files)
        for op, res in zip(ops, impl_out):
            print('replay', op, '->', res[0], (res[2] if res[0] == 'err' else ''))
        if all('expect' in l for l in logs):
            bad = check_history_clauses(logs, ops, impl_out)
            if bad:
                ctx.violate(bad[0], bad[1], r)
        if ctx.driver is not None:
            rq, where = model_requests(logs, ops)
            rep = [ctx.driver.ask(q) for q in rq]
            d = compare_history(logs, ops, impl_out, rep, where)
            if d:
                ctx.disagree('history:' + ops[d[0]][0], f'op {d[0]} {ops[d[0]]}: {d[1]}', r)
    finally:
        files.close()
