"""C19 — a LAMMPS log is read back run by run, column by column, value by value.

translator   : trigger strings, version-prefix/slice constants, line-number offsets and the month table
               of atomman/lammps/Log.py -> lean/Atomman/Generated/LogTriggers.lean (re-generated each run;
               the theorems of Proofs/C19.lean are re-checked against what the source says now)
correspond   : real atomman.lammps.Log vs the Lean driver on the same synthesised log lines
search       : the property's clauses on the real code against the run specs the log was synthesised from
"""
from __future__ import annotations

import ast
import io
import math
import os
import random
import tempfile
from fractions import Fraction

from .. import common as cm
from ..translate import TranslationError, get_function

PROP = 'C19'
GENERATED = ['LogTriggers']

# ----------------------------------------------------------------------------------------
# translator
# ----------------------------------------------------------------------------------------


def lean_str(s: str) -> str:
    out = []
    for ch in s:
        o = ord(ch)
        if ch == '"':
            out.append('\\"')
        elif ch == '\\':
            out.append('\\\\')
        elif ch == '\n':
            out.append('\\n')
        elif ch == '\t':
            out.append('\\t')
        elif 32 <= o < 127:
            out.append(ch)
        else:
            out.append('\\u{%x}' % o)
    return '"' + ''.join(out) + '"'


def _str_list(node, what):
    if not isinstance(node, ast.List) or not node.elts:
        raise TranslationError(f'{what}: not a non-empty list literal')
    vals = []
    for e in node.elts:
        if not (isinstance(e, ast.Constant) and isinstance(e.value, str)):
            raise TranslationError(f'{what}: element is not a string literal')
        if e.value == '':
            raise TranslationError(f'{what}: empty trigger string')
        vals.append(e.value)
    return vals


def _offset(expr, what):
    """`i`, `i + c`, `i - c`  ->  integer offset."""
    if isinstance(expr, ast.Name) and expr.id == 'i':
        return 0
    if isinstance(expr, ast.BinOp) and isinstance(expr.left, ast.Name) and expr.left.id == 'i' \
            and isinstance(expr.right, ast.Constant) and isinstance(expr.right.value, int) \
            and not isinstance(expr.right.value, bool):
        if isinstance(expr.op, ast.Add):
            return expr.right.value
        if isinstance(expr.op, ast.Sub):
            return -expr.right.value
    raise TranslationError(f'{what}: appended value `{ast.unparse(expr)}` is not i, i+c or i-c')


TRIGGER_NAMES = {
    'thermo_start_trigger': 'thermoStartTrigger',
    'thermo_end_trigger': 'thermoEndTrigger',
    'performance_start_trigger': 'performanceStartTrigger',
    'performance_start_trigger_old_version': 'performanceStartTriggerOld',
    'performance_end_trigger': 'performanceEndTrigger',
}


def extract_constants(src: str) -> dict:
    """Everything the Lean model takes from Log.py (also used by the harness to label evidence)."""
    read = get_function(src, 'read')
    out = {}
    # ---- trigger lists: plain assignments `name = ['..', ..]` in read()
    for node in ast.walk(read):
        if isinstance(node, ast.Assign) and len(node.targets) == 1 and isinstance(node.targets[0], ast.Name) \
                and node.targets[0].id in TRIGGER_NAMES:
            name = node.targets[0].id
            if name in out:
                raise TranslationError(f'{name} assigned twice')
            out[name] = _str_list(node.value, name)
    for name in TRIGGER_NAMES:
        if name not in out:
            raise TranslationError(f'{name} not found in Log.read')
    # ---- the single pass: `for line in log_info:` and the appends inside / after it
    loops = [n for n in ast.walk(read) if isinstance(n, ast.For) and isinstance(n.target, ast.Name)
             and n.target.id == 'line']
    if len(loops) != 1:
        raise TranslationError('Log.read: expected exactly one `for line in ...` loop')
    loop = loops[0]
    inside = {id(n) for n in ast.walk(loop)}
    appends = {'thermo_headers': [], 'thermo_footers': [], 'performance_headers': [], 'performance_footers': []}
    final = []
    for node in ast.walk(read):
        if isinstance(node, ast.Call) and isinstance(node.func, ast.Attribute) and node.func.attr == 'append' \
                and isinstance(node.func.value, ast.Name) and node.func.value.id in appends and len(node.args) == 1:
            lst = node.func.value.id
            if id(node) in inside:
                appends[lst].append(node.args[0])
            elif lst == 'thermo_footers':
                final.append(node.args[0])
            else:
                raise TranslationError(f'{lst}.append outside the line loop')
    if len(appends['thermo_headers']) != 1 or len(appends['thermo_footers']) != 1 or len(final) != 1:
        raise TranslationError('Log.read: thermo header/footer bookkeeping has an unexpected shape')
    if len(appends['performance_headers']) != 2 or len(appends['performance_footers']) != 1:
        raise TranslationError('Log.read: performance header/footer bookkeeping has an unexpected shape')
    out['thermo_header_offset'] = _offset(appends['thermo_headers'][0], 'thermo_headers')
    out['thermo_footer_offset'] = _offset(appends['thermo_footers'][0], 'thermo_footers')
    out['thermo_final_footer_offset'] = _offset(final[0], 'thermo_footers (after the loop)')
    out['performance_header_offset'] = _offset(appends['performance_headers'][0], 'performance_headers')
    out['performance_header_old_offset'] = _offset(appends['performance_headers'][1], 'performance_headers (old)')
    out['performance_footer_offset'] = _offset(appends['performance_footers'][0], 'performance_footers')
    # the counter must be advanced once per non-blank line
    incs = [n for n in ast.walk(loop) if isinstance(n, ast.AugAssign) and isinstance(n.target, ast.Name)
            and n.target.id == 'i']
    if len(incs) != 1 or not isinstance(incs[0].op, ast.Add) or ast.unparse(incs[0].value) != '1' \
            or incs[0] not in loop.body:
        raise TranslationError('Log.read: `i += 1` once per counted line not found at loop level')
    # ---- version banner test  line[:N] == 'LAMMPS ('
    pref = None
    for node in ast.walk(loop):
        if isinstance(node, ast.Compare) and len(node.ops) == 1 and isinstance(node.ops[0], ast.Eq) \
                and isinstance(node.left, ast.Subscript) and isinstance(node.left.value, ast.Name) \
                and node.left.value.id == 'line' and isinstance(node.left.slice, ast.Slice) \
                and node.left.slice.lower is None and isinstance(node.left.slice.upper, ast.Constant) \
                and isinstance(node.comparators[0], ast.Constant) and isinstance(node.comparators[0].value, str):
            if pref is not None:
                raise TranslationError('two version-prefix tests')
            pref = (node.left.slice.upper.value, node.comparators[0].value)
    if pref is None or not isinstance(pref[0], int) or pref[0] < 0:
        raise TranslationError('version banner test `line[:N] == ...` not found')
    out['version_prefix_len'], out['version_prefix'] = pref
    # ---- __read_lammps_version: month table and the slice line.strip()[a:-b]
    rv = get_function(src, '__read_lammps_version')
    month = None
    sl = None
    for node in ast.walk(rv):
        if isinstance(node, ast.Assign) and len(node.targets) == 1 and isinstance(node.targets[0], ast.Name) \
                and node.targets[0].id == 'month' and isinstance(node.value, ast.Dict):
            try:
                month = ast.literal_eval(node.value)
            except Exception:
                raise TranslationError('month table is not a literal')
        if isinstance(node, ast.Subscript) and ast.unparse(node.value) == 'line.strip()' \
                and isinstance(node.slice, ast.Slice):
            try:
                a = ast.literal_eval(node.slice.lower)
                b = ast.literal_eval(node.slice.upper)
            except Exception:
                raise TranslationError('version slice bounds are not literals')
            sl = (a, b)
    if month is None or not all(isinstance(k, str) and isinstance(v, int) and not isinstance(v, bool) and v >= 0
                                for k, v in month.items()):
        raise TranslationError('month table not found / not str -> int')
    if sl is None or not (isinstance(sl[0], int) and isinstance(sl[1], int) and sl[0] >= 0 and sl[1] < 0):
        raise TranslationError('version slice `line.strip()[a:-b]` not found')
    out['month'] = list(month.items())
    out['version_slice_start'] = sl[0]
    out['version_slice_drop_end'] = -sl[1]
    return out


def translate():
    c = extract_constants(cm.source('atomman/lammps/Log.py'))
    L = ['/- GENERATED by harness/props/c19.py from atomman/lammps/Log.py — do not edit. -/',
         'namespace Atomman.Gen.Log', '']
    for py, lean in TRIGGER_NAMES.items():
        L.append(f'/-- `{py}` -/')
        L.append(f'def {lean} : List String := [' + ', '.join(lean_str(s) for s in c[py]) + ']')
    L.append('')
    L.append('/-- `line[:N] == prefix` -/')
    L.append(f'def versionPrefixLen : Nat := {c["version_prefix_len"]}')
    L.append(f'def versionPrefix : String := {lean_str(c["version_prefix"])}')
    L.append('/-- `line.strip()[a:-b]` -/')
    L.append(f'def versionSliceStart : Nat := {c["version_slice_start"]}')
    L.append(f'def versionSliceDropEnd : Nat := {c["version_slice_drop_end"]}')
    L.append('')
    L.append('/-- `month` of `__read_lammps_version` -/')
    L.append('def monthTable : List (String × Nat) := ['
             + ', '.join(f'({lean_str(k)}, {v})' for k, v in c['month']) + ']')
    L.append('')
    L.append('/-- offsets `c` of the `….append(i + c)` bookkeeping of the single pass -/')
    for py, lean in (('thermo_header_offset', 'thermoHeaderOffset'), ('thermo_footer_offset', 'thermoFooterOffset'),
                     ('thermo_final_footer_offset', 'thermoFinalFooterOffset'),
                     ('performance_header_offset', 'perfHeaderOffset'),
                     ('performance_header_old_offset', 'perfHeaderOldOffset'),
                     ('performance_footer_offset', 'perfFooterOffset')):
        v = c[py]
        L.append(f'def {lean} : Int := {v if v >= 0 else "(" + str(v) + ")"}')
    L.append('')
    L.append('end Atomman.Gen.Log')
    return {'LogTriggers': '\n'.join(L) + '\n'}
