"""C17 — analysis tools recover a known imposed deformation exactly.

Ops sent to the Lean driver `drv_c17` (all numbers exact rationals; CELL = px py pz + 9 box-vector entries;
POS = 3n coordinates; NLIST = for every atom `c j1 .. jc`; SEL = `k i1 .. ik` atoms to evaluate):
  disp   CELL n POS0 POS1                          -> 3n          atom-wise dvect
  slip   CELL n POS0 POS1 NLIST SEL                -> 3k          -sum_j (dvect1_ij - dvect0_ij), system_0's cell twice
  dd     CELL0 CELL1 n POS0 POS1 NLIST SEL         -> 3*sum(c)    dvect1_ij - dvect0_ij
  disreg atol rtol midy CELL n POS0 POS1 XS YS     -> k, then k*(coord, dx, dy, dz)   | err:value
  strain cosmax CELL0 CELL1 n POS0 POS1 NLIST0 NLIST1 SEL -> 9k   G per atom (pairing loop + normal equations)
  derive G9                                        -> strain9 rotation9 inv1 inv2 inv3 angvel^2
  nye    CELL n POS NLIST G(9n) SEL                -> 9k
  match  cosmax np P nq Q                          -> matched p index per q (-1 none)
Stateful part (one Strain object `so`, one DifferentialDisplacement object `do`; see lean/Drivers/C17.lean):
  so new|setp|buildp|theta|clear|setpos|setsys|solve|read     do new|solve|read|state
"""
from __future__ import annotations

import math
import random
from fractions import Fraction

from .. import common as cm

PROP = 'C17'
THEOREMS = [
    # the regime: no periodic image flips (builds on the strict-minimum characterisation of dvect)
    'C17.image_stable', 'C17.image_stable_margin', 'C17.displacement_is_imposed',
    # rigid slip of a half crystal
    'C17.slip_rigid', 'C17.slip_zero_away', 'C17.slip_rigid_of_stable', 'C17.dd_is_difference', 'C17.dd_of_stable',
    'C17.disregistry_rigid', 'C17.disregistry_rigid_full',
    # homogeneous deformation gradient
    'C17.dv_homogeneous', 'C17.dd_homogeneous', 'C17.G_homogeneous', 'C17.G_exact_fit', 'C17.invT_of_rotation', 'C17.bestP_of_isBest', 'C17.bestP_none', 'C17.isBest_of_strict',
    'C17.matchPQ_pairing_partial', 'C17.solveG_homogeneous', 'C17.strainG_homogeneous', 'C17.measures_homogeneous',
    'C17.strain_symm', 'C17.rotation_antisymm', 'C17.strain_add_rotation', 'C17.strain_one', 'C17.invariants_charpoly',
    'C17.nye_zero',
    # the undeformed crystal (pairing hypothesis proved), the whole ddvectors array, numpy.unique / numpy.interp models
    'C17.solveG_undeformed', 'C17.strainG_undeformed', 'C17.ddvectors_are_differences', 'C17.unique_spec',
    'C17.interp_at_knot',
    # joint translation, consistent renumbering
    'C17.translation_invariant', 'C17.permutation_equivariant',
    # the reference handed over directly: broadcasting of a shared set, `axes` transformation
    'C17.transformP_roundtrip', 'C17.givenP_axes_roundtrip', 'C17.givenP_shared',
    # the Strain object: cached derived quantities depend only on the current inputs after solve_G
    'C17.SObj.fresh_coherent', 'C17.SObj.solve_coherent', 'C17.SObj.solve_refuses', 'C17.SObj.read_coherent',
    'C17.SObj.reads_coherent', 'C17.SObj.reads_after_solve', 'C17.SObj.G_after_solve',
    # the DifferentialDisplacement object
    'C17.DObj.solve_current', 'C17.DObj.solve_forgets', 'C17.DObj.solve_list',
    # no smallness assumption: the displacement is a minimal candidate image; atoms with one / no neighbour
    'C17.displacement_minimal', 'C17.single_and_no_neighbour', 'C17.ddvectors_length',
    # the conflict resolution of match_pq for ANY number of competing current vectors (no hypothesis on the lists)
    'C17.qpPairs_inv', 'C17.matchPQ_one_q_per_p', 'C17.matchPQ_winner_closest', 'C17.matchPQ_claimed_p_paired',
    'C17.solveG_homogeneous_competing', 'C17.solveG_undeformed_extra_shells',
    # where the neighbour list comes from (neighbors= / cutoff= / attribute / refusal)
    'C17.nbrSource_precedence', 'C17.slipVectorCall_sources', 'C17.strainSources_spec',
    # both systems in another Cartesian frame (rotation / axis permutation / reflection of positions and box vectors; cells
    # with their zero entries anywhere, left-handed cells): results are carried along wherever the images are decided
    'C17.normSq_isometry', 'C17.dv_isometry', 'C17.frame_equivariant',
    # ... and with the three box vectors (and their periodicity flags) listed in another order
    'C17.dvCell_swap01', 'C17.dvCell_swap12', 'C17.dvCell_reversed', 'C17.rows_reordered',
    # round 6 — the checked source tie (Proofs/C17_Source.lean): every definition regenerated from the CURRENT source
    # (Generated/DeformSource.lean) equals the hand model; a formula / operator / branch-order / argument edit breaks one of these
    'C17.gen_strain_eq_model', 'C17.gen_rotation_eq_model', 'C17.gen_invariant1_eq_model', 'C17.gen_invariant2_eq_model',
    'C17.gen_invariant3_eq_model', 'C17.gen_angularVelocitySq_eq_model', 'C17.gen_dG_eq_model', 'C17.gen_nyeOf_eq_model',
    'C17.gen_lstsqRhsAxis_eq_model', 'C17.gen_magSq_eq_model', 'C17.gen_r1Init_eq_model', 'C17.gen_shortest_eq_model',
    'C17.gen_cosTheta_eq_model', 'C17.gen_bestStep_eq_model', 'C17.gen_bestP_eq_model', 'C17.gen_dedupeStep_eq_model',
    'C17.gen_pick_slipVector_eq_model', 'C17.gen_pick_strainInit_eq_model', 'C17.gen_pick_buildP_eq_model',
    'C17.gen_pick_nyeTensor_eq_model', 'C17.gen_pick_ddFunction_eq_model', 'C17.gen_pickSystem_eq_model',
    'C17.gen_slipStep_eq_model', 'C17.gen_displacementCall_eq_model', 'C17.gen_ddvector_eq_model',
    'C17.gen_getters_eq_model', 'C17.gen_cleared_eq_model', 'C17.gen_thetaAccept_eq_model',
    'C17.gen_eps_eq_leviCivita', 'C17.gen_nye_c_eq_einsum',
    'C17.gen_pin_solveNye', 'C17.gen_pin_matchLoops', 'C17.gen_pin_solveG', 'C17.gen_pin_setP', 'C17.gen_pin_strainInit',
    'C17.gen_pin_buildP', 'C17.gen_pin_slipCall', 'C17.gen_pin_ddSolve', 'C17.gen_pin_ddInit', 'C17.gen_pin_ddReference',
    'C17.gen_pin_nyeTensorLoop', 'C17.gen_pin_nyeTensorPre', 'C17.gen_pin_disregistry', 'C17.gen_pin_ddFunctionBody',
    # round 6 — whole entry points and refusals (exactly when), uniqueness, order / frame independence, end-to-end statements
    'C17.displacementCall_accepts_iff', 'C17.displacementCall_refusal_is_value', 'C17.displacementCall_values',
    'C17.displacementCall_is_imposed', 'C17.pickNeighbors_refuses_iff', 'C17.dispatchP_refuses_iff', 'C17.setTheta_accepts_iff',
    'C17.disregistry_refuses_iff', 'C17.strain_rotation_unique', 'C17.nyeOfGrad_compatible', 'C17.nye_compatible',
    'C17.nyeOf_is_leviCivita_contraction', 'C17.slipVector_perm', 'C17.solveNormal_perm', 'C17.nye_perm',
    'C17.slipVectorCall_rigid', 'C17.DObj.api_differences', 'C17.SObj.api_constant_G', 'C17.SObj.api_homogeneous',
    'C17.det_mul3', 'C17.invariant3_eq_det', 'C17.invariant1_frame', 'C17.invariant2_eq', 'C17.invariants_frame',
    # round 6, part 2 — disregistry under renumbering (no hypothesis) and under translation with rtol = 0; displacement() as a
    # whole under translation / renumbering; slip_vector and asdict as whole calls; their source obligations
    'C17.disregistry_renumbered', 'C17.disregistry_translated_rtol0', 'C17.displacementCall_translated',
    'C17.displacementCall_renumbered', 'C17.unique_perm', 'C17.sortK_perm', 'C17.unique_shift', 'C17.interp_shift',
    'C17.keyOf_isSome_iff', 'C17.planKeys_accepts_iff', 'C17.asdictPlan_default', 'C17.slipVectorEntry_refuses_iff',
    'C17.SObj.readsUntil_coherent', 'C17.SObj.asdict_spec', 'C17.SObj.asdict_no_reference',
    'C17.gen_slipVectorRefusals_eq_model', 'C17.gen_asdictKeys_eq_model', 'C17.gen_pin_asdictLoop', 'C17.gen_pin_saveLoop',
    # second pass of the extender round — sequencing code executed from the source instead of pinned as text
    # (DifferentialDisplacement.solve's argument handling, the broadcasting chain and axes step of set_p_vectors / nye_tensor,
    # what disregistry computes its profile from), refusals of solve exactly, disregistry from the two systems end to end
    'C17.gen_ddSolveArgs_eq_model', 'C17.gen_ddInitSolves_eq_model', 'C17.gen_dispatchKind_eq_model', 'C17.gen_axesStep_eq_model',
    'C17.gen_disregistryInputs_eq_model', 'C17.DObj.solve_refuses_iff', 'C17.dispatchP_eq_byKind',
    'C17.disregistryCall_refuses_iff', 'C17.disregistryCall_rigid',
    # stale reads, exactly: while G stays cached every read (Nye aside) returns the value of the inputs at the last solve_G
    'C17.derived_frozen', 'C17.SObj.stale_read_frozen', 'C17.SObj.frozen_of_solve',
]
PARTIAL = {
    'matchPQ_pairing': 'the conflict resolution of match_pq is proved for arbitrary lists (one q per p, the winner is the q closest '
                       'to r1 among those that chose the p: qpPairs_inv, matchPQ_one_q_per_p, matchPQ_winner_closest), and '
                       'G = F^-T follows when every foreign q competes with a strictly closer true image '
                       '(solveG_homogeneous_competing) or when distinct q pick distinct p (matchPQ_pairing_partial). That a '
                       'small deformation of a perfect crystal with complete shells satisfies these geometric hypotheses '
                       '(angular separation of the shells, radii) is derived only for the undeformed crystal '
                       '(solveG_undeformed); for deformed ones it is checked on the implementation (oracle: G = F^-T at every '
                       'atom, for every combination of shell counts and theta_max), not proved',
    'lstsq': 'numpy.linalg.lstsq is a parameter: G is characterised by the normal equations QtQ G = QtP with QtQ '
             'invertible; the residual of the real lstsq result is checked on every correspondence case',
    'disregistry_translation': 'translation/renumbering invariance is proved for displacement, slip vector, differential '
                               'displacement, p/q vectors, G and the Nye tensor; for disregistry renumbering invariance is proved '
                               'without hypothesis (disregistry_renumbered) and translation covariance for a purely absolute '
                               'tolerance (disregistry_translated_rtol0); with the relative tolerance 1e-5 of numpy.isclose the '
                               'plane/column grouping is NOT translation invariant in general (counterexample evaluated in '
                               'Proofs/C17.lean), so for the real tolerance it holds only through disregistry_rigid_full (the '
                               'profile is the slip whatever the origin); the invariance of the real function is searched with '
                               'the oracle inside the documented range',
    'sqrt': 'the square root in match_pq is a parameter `mag`; solveG_undeformed assumes mag p > 0 and mag p ^ 2 = |p|^2',
    'stale_reads': 'the real Strain object keeps cached strain/rotation/invariants/Nye when p vectors, theta_max or the system '
                   'change WITHOUT solve_G/clear_properties (by design: solve_G is the documented way to re-solve); the model '
                   'mirrors that (tied); coherence is stated after solve_G, on fresh and on cleared objects.  What a stale read returns '
                   'is now a theorem as well (SObj.stale_read_frozen, frozen_of_solve): while G stays cached, G / strain / rotation / '
                   'invariants / angular velocity are those of the inputs at the last solve_G whatever the current inputs; the Nye '
                   'tensor is excluded (solve_nye combines the cached G with the CURRENT neighbour vectors: a mixed value, tied only)',
    'cutoff_lists': 'that the list atomman builds for a complete-shell cutoff holds exactly the lattice neighbours is property C03; '
                    'the theorems take the list as given.  The cutoff= entry points are searched against an exact integer lattice '
                    'count (10-14 complete shells, up to 368 neighbours per atom and 4e5 pairs; > 4096 atoms)',
    'rank_deficient': 'atoms with fewer than three independent matched neighbour vectors (corners of non-periodic blocks, half '
                      'lists): lstsq returns the minimum-norm solution, which the normal-equation model does not describe; '
                      'such atoms are only required not to crash the analysis (G = F^-T is claimed for full-rank atoms)',
}
RULE = ('reference crystals fcc/bcc/hcp/L1_2/B2/two-type hcp/bct-described fcc/[11-2][111][-110]-oriented fcc/primitive '
        'rhombohedral fcc and bcc (triclinic boxes) built from literal fractional coordinates, optionally re-described in a '
        'strongly sheared supercell (b, c plus whole unit-cell vectors, tilts up to the LAMMPS limit); one neighbour shell '
        '(1st, or 1st+2nd for fcc/bcc/B2) and the smallest '
        'supercell whose periodic widths exceed twice the shell radius, grown by 0-2 cells (16-200 atoms); periodicity all / '
        'off along the slip normal / off in-plane / none / one direction (coordination down to 1), neighbour list = the '
        "cutoff's, its half list (down to 0 neighbours) or a thinned one; rigid slips small (no-image-flip regime) and "
        'LARGE (0.8-1.04 of the Wigner-Seitz boundary of the periodic lattice, expectation from the exhaustive '
        'nearest-image oracle inside the radius proved in C02); systems with different pbc flags; the reference for Strain '
        'handed over as basesystem (+neighbors / +cutoff), shared (m,3), [(m,3)], per-atom lists / array, each with and '
        'without axes (integer crystallographic triples, rational rotations); operation sequences on ONE Strain object '
        '(reads of all 8 properties, set_p_vectors, build_p_vectors, theta_max, solve_G(theta_max), clear_properties, '
        'in-place change of the system) and on ONE DifferentialDisplacement object (every constructor form, solve with '
        'every subset of arguments, refused calls); per crystal '
        'several deformations: homogeneous F = R(I+eps) with |eps|<=0.03 incl. pure rotations and pure strains (box '
        'deformed too, atoms optionally moved by box vectors), smooth periodic displacement fields for non-zero Nye, '
        'rigid slips of a half crystal on planes between atomic layers (pbc on and off along the normal, wrapped and '
        'unwrapped, dyadic = exact regime and decimal), plane-dependent fields on top for disregistry; clusters with '
        'competing / unmatched q vectors for the pairing loop (up to five candidates per p, any order); reference sets and '
        'current neighbour lists with DIFFERENT numbers of complete shells (1-3 each, fcc/L1_2/bcc/B2, also sheared cells) '
        'under theta_max 15..50 degrees (several q compete for one p), neighbours listed in another order than in the '
        'reference; non-periodic blocks under homogeneous F (rank-deficient sets at edges and corners); sinusoidal shear '
        'fields (non-symmetric grad G); every entry point with every combination of neighbors= / cutoff= / a `neighbors` '
        'attribute on the system (three different lists behind them) incl. the refusals; joint translations up to 1e6 '
        '(disregistry: along the normal up to 1/8 plane spacing / 1e-5), lengths scaled by 2**-300 .. 2**300 '
        '(disregistry 2**-16 .. 2**16); round 4: deformation gradients with a SINGLE off-diagonal entry in each of the six '
        'positions and lower / upper triangular F on orthogonal cells (cells vects.F^T with zero entries anywhere), both systems '
        'with the Cartesian axes permuted / reflected and the box vectors reordered (upper-triangular, left-handed cells), '
        'per-atom and uniform displacements chosen in the FRACTIONAL basis with every component below 1/2 (31/64 .. 22/64, signs '
        'independent; system_1 unwrapped and with atoms moved by box vectors), slips f1 a + f2 b of that kind, one rigid slip per '
        'run each with 10-12 complete shells (130-250 neighbours, > 65536 pairs), with 13-14 shells (> 255 neighbours) and with '
        'more than 4096 atoms (thorough: 8192 / 16384 / 65536, > 1000 neighbours), list built by atomman from the cutoff, expected '
        'neighbours from an exact integer lattice count; distinct = distinct (crystal, size, deformation, cutoff, '
        'op); non-trivial = deformation non-zero (match: the loop discards or leaves out something)')
ASSUMPTIONS = [
    'numpy.linalg.lstsq returns the solution of the normal equations for full-column-rank Q (residual of the real '
    'result checked in every correspondence case)',
    'sqrt in match_pq is a positive square root (driver: double sqrt shim); cos(theta_max) is the double the code computes',
    'numpy.unique = sort + dedupe, numpy.interp = piecewise linear with end clamping, numpy.isclose(a,b) = |a-b| <= 1e-8 + 1e-5|b|',
    'double rounding of the implementation is bounded by atol 2e-9 (positions of order 10, strains <= 0.05); '
    'on dyadic inputs displacement / slip / dd / disregistry are compared exactly',
    'the neighbour lists are inputs (their correctness is property C03)',
    'cos(theta_max*pi/180) is supplied to the object model together with theta_max (libm cos, as the code computes it)',
    'the exhaustive nearest-image oracle enumerates the lattice inside the radius of C02.search_radius_images; minima not '
    'unique by a relative margin of 1e-7 (exact ties of perfect crystals at half box vectors) are exempt',
]
TRUSTED = ['the reduction of the two .pyx files to Python before `ast` reads them (`_decython`: drops cimport lines and bare cdef '
           'declarations, rewrites `cdef f(<typed args>)` headers and `cdef <type> x = e`; regular expressions on those declarations '
           'only, every expression / test / loop is read from the ast) and the ast.unparse text behind the statement pins',
           'numpy (lstsq, unique, interp, isclose, dot) in the correspondence run',
           'atomman.NeighborList (C03) and System.supersize/rotate (C04) as generators of the reference crystals']


# ----------------------------------------------------------------------------------------
# small exact linear algebra (fractions)
# ----------------------------------------------------------------------------------------
def _np():
    import numpy as np
    return np


def _matmul(A, B):
    return [[sum(A[i][k] * B[k][j] for k in range(3)) for j in range(3)] for i in range(3)]


def _det3(m):
    return (m[0][0] * (m[1][1] * m[2][2] - m[1][2] * m[2][1]) - m[0][1] * (m[1][0] * m[2][2] - m[1][2] * m[2][0])
            + m[0][2] * (m[1][0] * m[2][1] - m[1][1] * m[2][0]))


def _inv3(m):
    d = _det3(m)
    return [[(m[(j + 1) % 3][(i + 1) % 3] * m[(j + 2) % 3][(i + 2) % 3]
              - m[(j + 1) % 3][(i + 2) % 3] * m[(j + 2) % 3][(i + 1) % 3]) / d for j in range(3)] for i in range(3)]


def _fr_mat(F):
    return [[Fraction(float(v)) for v in r] for r in F]


def _solve_normal(Q, P):
    A = [[sum(q[i] * q[j] for q in Q) for j in range(3)] for i in range(3)]
    B = [[sum(q[i] * p[j] for q, p in zip(Q, P)) for j in range(3)] for i in range(3)]
    return _matmul(_inv3(A), B)


# ----------------------------------------------------------------------------------------
# generators
# ----------------------------------------------------------------------------------------
def _crystals():
    """name -> (unit cell builder(a), [(cutoff/a, coordination, smallest supercell)], supercell of the dyadic regime).
    The smallest supercell keeps every periodic width above twice the radius of the selected shell (so that no atom
    occurs twice in a neighbour list and the nearest image of a neighbour is unique by a wide margin)."""
    import atomman as am

    def mk(box, frac, atype=1):
        return am.System(atoms=am.Atoms(atype=atype, pos=frac), box=box, scale=True)
    fcc = [[0, 0, 0], [.5, .5, 0], [.5, 0, .5], [0, .5, .5]]
    bcc = [[0, 0, 0], [.5, .5, .5]]
    hcp = [[1 / 3, 2 / 3, .25], [2 / 3, 1 / 3, .75]]
    return {
        'fcc': (lambda a: mk(am.Box.cubic(a), fcc), [(0.85, 12, (2, 2, 2)), (1.1, 18, (3, 3, 3))], (3, 3, 3)),
        'bcc': (lambda a: mk(am.Box.cubic(a), bcc), [(0.93, 8, (2, 2, 2)), (1.2, 14, (3, 3, 3))], (4, 4, 4)),
        'L12': (lambda a: mk(am.Box.cubic(a), fcc, [1, 2, 2, 2]), [(0.85, 12, (2, 2, 2))], (3, 3, 3)),
        'B2': (lambda a: mk(am.Box.cubic(a), bcc, [1, 2]), [(0.93, 8, (2, 2, 2)), (1.2, 14, (3, 3, 3))], (4, 4, 3)),
        'hcp': (lambda a: mk(am.Box.hexagonal(a, a * math.sqrt(8 / 3)), hcp), [(1.2, 12, (3, 3, 2))], (4, 4, 3)),
        'hcp2': (lambda a: mk(am.Box.hexagonal(a, 1.58 * a), hcp, [1, 2]), [(1.15, 12, (3, 3, 2))], (4, 4, 3)),
        # fcc described in its body-centred tetragonal cell: cubic axes rotated by 45 degrees about z
        'fcc-bct': (lambda a: mk(am.Box.tetragonal(a / math.sqrt(2), a), bcc), [(0.85, 12, (3, 3, 2))], (4, 4, 3)),
        'fcc-111': (lambda a: mk(am.Box.cubic(a), fcc).rotate([[1, 1, -2], [1, 1, 1], [-1, 1, 0]]),
                    [(0.85, 12, (1, 1, 2))], (2, 2, 3)),
        # primitive rhombohedral cells (triclinic boxes: all three tilt factors non-zero)
        'fcc-prim': (lambda a: mk(am.Box.trigonal(a / math.sqrt(2), 60.0), [[0, 0, 0]]), [(0.85, 12, (4, 4, 4))], (4, 4, 4)),
        'bcc-prim': (lambda a: mk(am.Box.trigonal(a * math.sqrt(3) / 2, 109.47122063449069), [[0, 0, 0]]),
                     [(0.93, 8, (3, 3, 3)), (1.2, 14, (4, 4, 4))], (4, 4, 4)),
    }


def _reference(rng, name=None, dyadic=False, shear=True):
    """a reference crystal and ONE neighbour shell: (system, name, a, [(cutoff/a, coordination)], supercell)."""
    cr = _crystals()
    if name is None:
        name = rng.choice(sorted(cr))
    build, shells, size = cr[name]
    a = rng.choice([4.0, 2.0]) if dyadic else rng.choice([4.05, 3.3, 2.87, 4.0, 3.52])
    if dyadic:
        # power-of-two box lengths; every periodic length > 2 * cutoff
        size = rng.choice([(4, 4, 2), (2, 4, 4), (4, 2, 4), (2, 2, 4), (2, 4, 2), (4, 2, 2), (2, 2, 2)])
        shells = [shells[0][:2]]
    else:
        cutf, coordn, msize = rng.choice(shells)
        size = list(msize)
        for _ in range(rng.choice([0, 1, 1, 2])):
            size[rng.randrange(3)] += 1
        size = tuple(size)
        shells = [(cutf, coordn)]
    s0 = build(a).supersize(*size)
    if rng.random() < (0.35 if dyadic else 0.45) and shear:
        sh = _shear(rng, s0, size, shells[0][0] * a, grid=64 if dyadic else None)
        if sh is not None:
            s0, tag = sh
            name = name + '/sheared' + tag
    return s0, name, a, shells, size


def _widths(vects, np):
    """perpendicular widths of the cell along its three periodic directions."""
    return 1.0 / np.linalg.norm(np.linalg.inv(vects), axis=0)


def _shear(rng, s0, size, cut, grid=None):
    """the same crystal held in a strongly tilted (non-orthogonal / differently tilted) supercell: b and c get whole
    unit-cell vectors added (b' = b + m1 a_u, c' = c + m2 a_u + m3 b_u), the largest tilts inside the LAMMPS limits
    preferred; atoms wrapped into the new cell.  None when no admissible shear keeps the periodic widths above twice
    the cutoff."""
    np = _np()
    import atomman as am
    V = s0.box.vects
    u = [V[i] / size[i] for i in range(3)]
    cands = []
    for m1 in range(-size[0], size[0] + 1):
        for m2 in range(-size[0], size[0] + 1):
            for m3 in range(-size[1], size[1] + 1):
                W = V.copy()
                W[1] = V[1] + m1 * u[0]
                W[2] = V[2] + m2 * u[0] + m3 * u[1]
                if np.abs(W - V).max() < 1e-9:
                    continue
                lx, ly = W[0, 0], W[1, 1]
                if abs(W[1, 0]) > 0.5 * lx * (1 + 1e-9) or abs(W[2, 0]) > 0.5 * lx * (1 + 1e-9) \
                        or abs(W[2, 1]) > 0.5 * ly * (1 + 1e-9):
                    continue
                if (_widths(W, np) <= 2.05 * cut).any():
                    continue
                cands.append(((abs(W[1, 0]) / lx + abs(W[2, 0]) / lx + abs(W[2, 1]) / ly), (m1, m2, m3), W))
    if not cands:
        return None
    cands.sort(key=lambda c: (-c[0], c[1]))
    _, m, W = cands[rng.randrange(min(len(cands), 6))] if rng.random() < 0.7 else cands[rng.randrange(len(cands))]
    s = am.System(atoms=am.Atoms(atype=s0.atoms.atype, pos=s0.atoms.pos.copy()), box=am.Box(vects=W, origin=s0.box.origin),
                  pbc=s0.pbc, symbols=s0.symbols)
    s.wrap()
    if grid is not None and np.abs(s.atoms.pos * grid - np.rint(s.atoms.pos * grid)).max() != 0:
        return None                   # (the exact regime needs the wrapped positions on the dyadic grid)
    return s, '(%d,%d,%d)' % m


def _mi(V, pbc, d, np):
    """TRUE nearest periodic image of every row of `d`: exhaustive search over all lattice vectors n.V (n integer,
    zero on non-periodic axes) inside the radius that C02.search_radius_images proves sufficient
    (n_i^2 <= 4 |e|^2 |recip_i|^2 around the rounded image e).  Returns (image (m,3), n (m,3) relative to the raw
    difference, decided (m,) : the minimum is unique by a relative margin of 1e-7)."""
    d = np.atleast_2d(np.asarray(d, dtype=float))
    per = np.array([bool(x) for x in pbc])
    m = len(d)
    if not per.any() or m == 0:
        return d.copy(), np.zeros((m, 3), dtype=int), np.ones(m, dtype=bool)
    inv = np.linalg.inv(V)
    n0 = np.where(per[None, :], -np.rint(d @ inv), 0.0)
    e = d + n0 @ V
    rec = np.linalg.norm(inv, axis=0)
    emax = math.sqrt(float((e ** 2).sum(1).max()))
    R = [max(1, int(math.floor(2 * emax * rec[i] * (1 + 1e-9)))) if per[i] else 0 for i in range(3)]
    capped = any(r > 4 for r in R)
    R = [min(r, 4) for r in R]
    S = np.array([[x, y, z] for x in range(-R[0], R[0] + 1) for y in range(-R[1], R[1] + 1)
                  for z in range(-R[2], R[2] + 1)], dtype=float)
    SV = S @ V
    best = np.empty((m, 3))
    nst = np.empty((m, 3), dtype=int)
    dec = np.empty(m, dtype=bool)
    for lo in range(0, m, 512):
        c = e[lo:lo + 512, None, :] + SV[None, :, :]
        n2 = (c ** 2).sum(2)
        k = n2.argmin(1)
        r = np.arange(len(k))
        b2 = n2[r, k]
        n2[r, k] = np.inf
        second = n2.min(1)
        best[lo:lo + 512] = c[r, k]
        nst[lo:lo + 512] = np.rint(n0[lo:lo + 512] + S[k]).astype(int)
        dec[lo:lo + 512] = second > b2 * (1 + 1e-7) + 1e-12
    if capped:
        dec[:] = False
    return best, nst, dec


def _ws_reach(V, pbc, e, np):
    """distance from the origin to the Wigner-Seitz boundary of the periodic lattice along the unit vector e
    (inf when no lattice vector has a component along e)."""
    best = float('inf')
    rr = [(-2, -1, 0, 1, 2) if p else (0,) for p in pbc]
    for x in rr[0]:
        for y in rr[1]:
            for z in rr[2]:
                L = x * V[0] + y * V[1] + z * V[2]
                pr = float(np.dot(e, L))
                if pr > 1e-9:
                    best = min(best, float(np.dot(L, L)) / (2 * pr))
    return best


def _system(s0, pos, vects=None, pbc=None, origin=None):
    import atomman as am
    if vects is None and origin is None:
        box = s0.box
    else:
        box = am.Box(vects=s0.box.vects if vects is None else vects, origin=s0.box.origin if origin is None else origin)
    return am.System(atoms=am.Atoms(atype=s0.atoms.atype, pos=pos), box=box,
                     pbc=s0.pbc if pbc is None else pbc, symbols=s0.symbols)


_OFFDIAG = [(1, 0), (2, 0), (2, 1), (0, 1), (0, 2), (1, 2)]


def _rand_F(rng, kind, where=None):
    """small deformation gradient (floats) from exact rationals: Cayley rotation times (I + eps).
    Sparse kinds (cells vects.F^T with every pattern of zero entries, not only full ones): 'single' = I plus ONE
    off-diagonal entry (position `where` of _OFFDIAG, else random), 'lower' / 'upper' = triangular (each entry of the
    triangle present with probability 0.7, optional stretch on the diagonal)."""
    def small(m):
        return Fraction(rng.randint(-m, m), 1024)
    I = [[Fraction(int(i == j)) for j in range(3)] for i in range(3)]
    if kind in ('single', 'lower', 'upper'):
        E = [[Fraction(0)] * 3 for _ in range(3)]

        def nz():
            return Fraction(rng.choice([-1, 1]) * rng.randint(6, 40), 1024)
        if kind == 'single':
            i, j = _OFFDIAG[rng.randrange(6) if where is None else where % 6]
            E[i][j] = nz()
        else:
            tri = _OFFDIAG[:3] if kind == 'lower' else _OFFDIAG[3:]
            for i, j in tri:
                if rng.random() < 0.7:
                    E[i][j] = nz()
            if not any(any(r) for r in E):
                i, j = rng.choice(tri)
                E[i][j] = nz()
            if rng.random() < 0.5:
                for i in range(3):
                    E[i][i] = small(20)
        return [[float(I[i][j] + E[i][j]) for j in range(3)] for i in range(3)]
    if kind in ('rotation', 'general'):
        w = [small(40) for _ in range(3)]
        if not any(w):
            w[0] = Fraction(17, 1024)
        S = [[0, -w[2], w[1]], [w[2], 0, -w[0]], [-w[1], w[0], 0]]
        R = _matmul(_inv3([[I[i][j] - S[i][j] for j in range(3)] for i in range(3)]),
                    [[I[i][j] + S[i][j] for j in range(3)] for i in range(3)])
    else:
        R = I
    if kind in ('strain', 'general'):
        E = [[small(30) for _ in range(3)] for _ in range(3)]
        if kind == 'strain':
            E = [[(E[i][j] + E[j][i]) / 2 for j in range(3)] for i in range(3)]
        if not any(any(r) for r in E):
            E[0][1] = E[1][0] = Fraction(9, 1024)
        U = [[I[i][j] + E[i][j] for j in range(3)] for i in range(3)]
    else:
        U = I
    return [[float(v) for v in r] for r in _matmul(R, U)]


def _perm_frame(rng, np):
    """a signed permutation of the Cartesian axes (proper or improper: left-handed cells) and a new ORDER of the box
    vectors: the same crystal in a cell whose zero entries sit anywhere (upper-triangular, anti-triangular, ...), not
    only in the LAMMPS positions.  Returns (R (3,3), rows)."""
    p = list(range(3))
    rng.shuffle(p)
    Rm = np.zeros((3, 3))
    for i in range(3):
        Rm[i, p[i]] = rng.choice([1.0, -1.0])
    rows = list(range(3))
    rng.shuffle(rows)
    if rng.random() < 0.4:
        # the plain reversal x <-> z, a <-> c: a LAMMPS-style (lower-triangular) cell becomes upper-triangular
        Rm = np.array([[0.0, 0.0, 1.0], [0.0, 1.0, 0.0], [1.0, 0.0, 0.0]]) * np.array([[rng.choice([1.0, -1.0])] for _ in range(3)])
        rows = [2, 1, 0]
    return Rm, rows


def _reframed(s, Rm, rows, np, pos=None, pbc=None):
    """system `s` (or the positions `pos` in its cell) expressed in the frame (Rm, rows) of _perm_frame."""
    pb = s.pbc if pbc is None else pbc
    return _system(s, (s.atoms.pos if pos is None else pos) @ Rm.T, vects=(s.box.vects @ Rm.T)[rows], origin=Rm @ s.box.origin,
                   pbc=tuple(bool(pb[r]) for r in rows))


def _deform(s0, F):
    """system_1 = F applied to positions and box (float arithmetic, as a user would do it)."""
    np = _np()
    F = np.array(F)
    return _system(s0, s0.atoms.pos @ F.T, vects=s0.box.vects @ F.T, origin=F @ s0.box.origin)


def _levels(vals, tol=1e-6):
    np = _np()
    v = np.sort(np.asarray(vals))
    out = [v[0]]
    for x in v[1:]:
        if x - out[-1] > tol:
            out.append(x)
    return out


def _stable(s0, pbc, nl, du, np):
    """regime filter (floats): for every neighbour pair d0 + du_j - du_i is the unique nearest image by a margin,
    and so is every atom's own displacement."""
    v = s0.box.vects
    sh = [[x, y, z] for x in ((-1, 0, 1) if pbc[0] else (0,)) for y in ((-1, 0, 1) if pbc[1] else (0,))
          for z in ((-1, 0, 1) if pbc[2] else (0,)) if (x, y, z) != (0, 0, 0)]
    if not sh:
        return True
    shifts = np.array(sh, dtype=float) @ v

    def ok(d1):
        n0 = (d1 ** 2).sum(1)
        alt = ((d1[:, None, :] + shifts[None, :, :]) ** 2).sum(2).min(1)
        return not (alt < n0 * 1.05 + 1e-6).any()
    if not ok(du):
        return False
    old = s0.pbc
    s0.pbc = pbc
    try:
        for i in range(s0.natoms):
            js = nl[i]
            if len(js) and not ok(np.atleast_2d(s0.dvect(i, js)) + du[js] - du[i]):
                return False
    finally:
        s0.pbc = old
    return True


def _slip_case(rng, s0, a, dyadic, shells):
    """half-crystal rigid slip.  returns dict(axis, mid, side, uA, uB, du, pbc, cutoff, nl0, mode, stable, nlkind) or None.
    Periodicity: all / off along the normal / off along an in-plane direction / none / one in-plane direction only
    (per-atom coordination then varies, down to 1 at corners).  Neighbour list: the cutoff's, its half list (j > i:
    coordination down to 0) or a randomly thinned one.  Modes: small slips inside the no-image-flip regime
    (`stable`), and `large`: the upper half moved to a fraction 0.8 .. 1.04 of the Wigner-Seitz boundary of the
    periodic lattice (expected values then come from the true-nearest-image oracle)."""
    np = _np()
    import atomman as am
    pos0 = s0.atoms.pos
    vects = s0.box.vects
    n = s0.natoms
    # slip-plane normal: a Cartesian axis along which exactly one box vector has a component
    axes = [k for k in range(3) if sum(1 for v in vects if abs(v[k]) > 1e-9) == 1]
    axis = rng.choice(axes)
    bv = [i for i, v in enumerate(vects) if abs(v[axis]) > 1e-9][0]
    lv = _levels(pos0[:, axis])
    k = rng.randrange(1, len(lv) - 2) if len(lv) > 3 else 0
    mid = lv[k] + rng.choice([0.5, 0.25, 0.75, 0.5]) * (lv[k + 1] - lv[k])
    side = pos0[:, axis] > mid
    inpl = [i for i in range(3) if i != bv]
    r = rng.random()
    pbc = [True, True, True]
    if r < 0.3:
        pass
    elif r < 0.55:
        pbc[bv] = False
    elif r < 0.7:
        pbc[rng.choice(inpl)] = False
    elif r < 0.85:
        pbc = [False, False, False]
    else:
        pbc = [False, False, False]
        pbc[rng.choice(inpl)] = True
    pbc = tuple(pbc)
    q = 16 if dyadic else 1000
    mode = rng.choice(['upper', 'both', 'lower', 'upper-normal', 'large', 'large'])
    cut = rng.choice(shells)[0] * a
    s0.pbc = pbc
    nlc = s0.neighborlist(cutoff=cut)
    nlkind = rng.choice(['cutoff', 'cutoff', 'half', 'thin'])
    nl0 = nlc
    if nlkind != 'cutoff':
        lists = [[int(j) for j in nlc[i]] for i in range(n)]
        if nlkind == 'half':
            lists = [[j for j in l if j > i] for i, l in enumerate(lists)]
        else:
            keep = [rng.choice([0.0, 0.3, 0.6, 1.0]) for _ in range(n)]
            lists = [[j for j in l if rng.random() < keep[i]] for i, l in enumerate(lists)]
        if any(lists):
            nl0 = _mk_nlist(am, s0, lists)
        else:
            nlkind = 'cutoff'
    out = {'axis': axis, 'mid': float(mid), 'side': side, 'pbc': pbc, 'mode': mode, 'cutoff': cut, 'nl0': nl0, 'bv': bv,
           'nlkind': nlkind}
    if mode == 'large':
        ip = [k for k in range(3) if k != axis]
        how = rng.randrange(6)
        e = np.zeros(3)
        if how >= 4:
            # chosen in the FRACTIONAL basis: both in-plane box-relative components just below one half, signs independent
            # (in a non-orthogonal cell such a vector can be much longer than its shortest periodic image although no
            #  component reaches half a cell: 0.45 a - 0.40 b in the 120 degree cell)
            fr_ = [rng.choice([1, -1]) * rng.choice([31, 30, 29, 28, 26, 24, 20]) / 64 for _ in range(2)]
            uA = np.rint((fr_[0] * np.array(vects[inpl[0]]) + fr_[1] * np.array(vects[inpl[1]])) * q) / q
            uA[axis] = 0.0
            uB = np.zeros(3)
            if not uA.any():
                return None
            out.update(uA=uA, uB=uB, du=np.where(side[:, None], uA, uB), stable=False, t='frac%+.3f%+.3f' % tuple(fr_))
            return out
        if how == 0:
            th = rng.uniform(0, 2 * math.pi)
            e[ip[0]], e[ip[1]] = math.cos(th), math.sin(th)
        else:
            w = np.array(vects[rng.choice(inpl)], dtype=float)
            w[axis] = 0.0
            if how == 1:                                   # in-plane, perpendicular to a box vector
                w = np.cross(w, np.eye(3)[axis])
            elif how == 2:                                 # between two box vectors
                w2 = np.array(vects[inpl[0]] + rng.choice([1, 1, -1]) * vects[inpl[1]], dtype=float)
                w2[axis] = 0.0
                w = w2
            e = w / np.linalg.norm(w) * rng.choice([1, -1])
        reach = _ws_reach(vects, pbc, e, np)
        if not math.isfinite(reach):
            reach = 0.5 * float(np.abs(vects).max())
        t = rng.choice([0.8, 0.9, 0.95, 0.98, 1.04, 1.04, 1.2])
        uA = np.rint(t * reach * e * q) / q
        uA[axis] = 0.0
        uB = np.zeros(3)
        if rng.random() < 0.3:
            uB = np.array([rng.randint(-q // 4, q // 4) / q for _ in range(3)])
            uB[axis] = 0.0
        if not (uA - uB).any():
            return None
        out.update(uA=uA, uB=uB, du=np.where(side[:, None], uA, uB), stable=False, t=t)
        return out
    scale = 0.45 * a
    for attempt in range(8):
        def vec(sc, inplane):
            v = [rng.randint(-max(1, int(sc * q)), max(1, int(sc * q))) / q for _ in range(3)]
            if inplane:
                v[axis] = 0.0
            return np.array(v)
        uA = vec(scale, True) if mode in ('upper', 'both') else vec(0.15 * scale, False) if mode == 'upper-normal' else np.zeros(3)
        uB = vec(scale / 2, True) if mode in ('both', 'lower') else np.zeros(3)
        if not (uA - uB).any():
            uA = uA + np.array([max(1, q // 8) / q if i != axis else 0.0 for i in range(3)])
        du = np.where(side[:, None], uA, uB)
        if _stable(s0, pbc, nlc, du, np):
            break
        scale /= 2
    else:
        return None
    out.update(uA=uA, uB=uB, du=du, stable=True)
    return out


def _frac_displacements(rng, s0, np, uniform=False):
    """per-atom displacements chosen in the FRACTIONAL basis of the cell: every box-relative component below one half in
    magnitude (most of them just below: 31/64 .. 22/64), signs independent.  In a non-orthogonal cell many of these
    vectors are longer than their shortest periodic image although 'no atom crossed half a cell'.  On the dyadic grid
    (multiples of 1/64 of box vectors)."""
    n = s0.natoms

    def comp():
        r = rng.random()
        m = rng.choice([31, 30, 29, 28, 26, 24, 22]) if r < 0.6 else rng.randint(0, 31) if r < 0.8 else rng.choice([0, 1, 16])
        return rng.choice([1, -1]) * m / 64
    if uniform:
        f = np.tile(np.array([comp() for _ in range(3)]), (n, 1))
    else:
        f = np.array([[comp() for _ in range(3)] for _ in range(n)])
    return f @ s0.box.vects, f


def _inbox(s, np):
    """the same configuration with every atom moved by whole box vectors into the cell along the periodic directions, or
    None when an atom lies outside the cell along a NON-periodic direction.  Only such systems are handed to code paths
    that (may) build a neighbour list from them: the list builder bins positions inside the cell's bounding box
    without bounds checks (property C03's domain), so atoms outside are a memory hazard, not an observation."""
    V = s.box.vects
    rel = (s.atoms.pos - s.box.origin) @ np.linalg.inv(V)
    per = np.array([bool(x) for x in s.pbc])
    sh = np.where(per[None, :], np.floor(rel + 1e-12), 0.0)
    rel2 = rel - sh
    if (rel2 < -1e-9).any() or (rel2 > 1 + 1e-9).any():
        return None
    if not sh.any():
        return s
    return _system(s, s.atoms.pos - sh @ V, pbc=s.pbc)


def _wrapshift(rng, s, np, frac=0.3):
    """the same physical configuration held in a differently placed periodic window: in every periodic direction
    the atoms with fractional coordinate below a random cut are moved up by one box vector (what wrapping into a box
    with another origin, or atoms crossing a periodic boundary, produces).  Any two atoms then differ by less than
    one box vector per direction, which is the range `dvect` searches."""
    pos = s.atoms.pos.copy()
    rel = s.box.position_cartesian_to_relative(pos)
    for k in range(3):
        if s.pbc[k]:
            f = rng.uniform(0.15, 0.85)
            pos[rel[:, k] < f] += s.box.vects[k]
    return pos


# ----------------------------------------------------------------------------------------
# wire helpers
# ----------------------------------------------------------------------------------------
def _cell(s):
    return ' '.join('1' if p else '0' for p in s.pbc) + ' ' + cm.frs(s.box.vects)


def _nlist_tokens(nl, natoms):
    return ' '.join(' '.join([str(len(nl[i]))] + [str(int(j)) for j in nl[i]]) for i in range(natoms))


def _sel_tokens(sel):
    return ' '.join([str(len(sel))] + [str(int(i)) for i in sel])


def _floats(line):
    return [Fraction(t) for t in line.split()]


def _maxdiff(impl, model):
    np = _np()
    impl = np.asarray(impl, dtype=float).ravel()
    if len(impl) != len(model):
        return float('inf')
    if len(impl) == 0:
        return 0.0
    if not np.isfinite(impl).all():
        return float('inf')
    return max(abs(Fraction(float(x)) - m) for x, m in zip(impl, model))


def _cosmax(theta_max=27):
    # as Strain.solve_G computes it
    return math.cos(theta_max * math.pi / 180.0)


def _select(rng, n, k, prefer=()):
    """k atoms to evaluate in the model: the preferred ones first (e.g. next to the slip plane), then random."""
    prefer = list(prefer)
    rng.shuffle(prefer)
    sel = prefer[:max(1, (2 * k) // 3)]
    rest = [i for i in range(n) if i not in set(sel)]
    rng.shuffle(rest)
    sel += rest[:max(0, k - len(sel))]
    return sorted(sel)


def _lstsq_residual(s1, nl1, pvec, G, cosmax, np):
    """max relative |Qt (Q G - P)| over atoms, P,Q re-paired by nearest angle (atoms with a one-to-one pairing)."""
    worst = 0.0
    for i in range(s1.natoms):
        q = np.atleast_2d(s1.dvect(i, nl1[i]))
        p = np.atleast_2d(np.asarray(pvec[i], dtype=float))
        c = (q @ p.T) / np.linalg.norm(q, axis=1)[:, None] / np.linalg.norm(p, axis=1)[None, :]
        k = c.argmax(1)
        ok = c.max(1) > cosmax
        if len(set(k[ok])) != ok.sum() or ok.sum() < 3:
            continue
        Q, P = q[ok], p[k[ok]]
        r = Q.T @ (Q @ G[i] - P)
        worst = max(worst, float(np.abs(r).max()) / max(1.0, float(np.abs(Q.T @ Q).max())))
    return worst


def _mk_nlist(am, system, lists):
    """NeighborList object holding exactly the given lists."""
    np = _np()
    # (the object is only a carrier for the arrays: built on a two-atom dummy, so that neither the scale of `system`
    #  nor atoms outside its cell ever reach the list builder)
    dummy = am.System(atoms=am.Atoms(atype=1, pos=[[1.0, 1.0, 1.0], [2.5, 1.0, 1.0]]), box=am.Box.cubic(10.0))
    nl = am.NeighborList(system=dummy, cutoff=2.0)
    cmax = max(len(l) for l in lists)
    arr = np.zeros((len(lists), cmax + 1), dtype='int64')
    for i, l in enumerate(lists):
        arr[i, 0] = len(l)
        arr[i, 1:len(l) + 1] = l
    nl._NeighborList__nlist = arr
    nl._NeighborList__coord = arr[:, 0]
    nl._NeighborList__neighbors = arr[:, 1:]
    return nl


# ----------------------------------------------------------------------------------------
# correspondence
# ----------------------------------------------------------------------------------------
class _Raised:
    """an exception raised by the implementation, as an observation."""
    def __init__(self, e):
        self.text = f'{type(e).__name__}: {e}'


def _guard(f):
    try:
        return f()
    except Exception as e:   # noqa
        return _Raised(e)


def _cmp(ctx, key, what, impl, out, exact, info, atol=1e-9, decided=None):
    """`decided`: boolean mask over the 3-vector rows; rows whose nearest periodic image is a tie (within 1e-7
    relative, by the exhaustive oracle) are not compared: float rounding and exact arithmetic may break it differently."""
    if isinstance(impl, _Raised):
        if not out.startswith('err:'):
            ctx.disagree(key + ':raises', f'{what}: implementation raised {impl.text}, the model returns values', info)
        return False
    if out.startswith('err:'):
        ctx.disagree(key + ':driver-error', f'{what}: model refused ({out})', info)
        return False
    model = _floats(out)
    if decided is not None:
        np = _np()
        impl = np.asarray(impl, dtype=float)
        decided = np.asarray(decided, dtype=bool)
        if impl.ndim == 2 and impl.shape[1] == 3 and len(decided) == len(impl) and len(model) == 3 * len(impl):
            keep = np.repeat(decided, 3)
            model = [m for m, k in zip(model, keep) if k]
            impl = impl[decided]
        else:
            ctx.disagree(key + ':shape', f'{what}: result shape {impl.shape} does not fit the {len(model) // 3} model rows', info)
            return False
    d = _maxdiff(impl, model)
    lim = 0 if exact else atol
    if d > lim:
        ctx.disagree(key, f'{what}: implementation differs from the model by {float(d):.3e} '
                          f'({"exact regime" if exact else "atol %g" % atol})', info)
        return False
    return True


def _corr_slip(ctx, caseseed, it, reps=3):
    """one reference crystal, `reps` different rigid slips of it (plane, pbc, vectors, storage of system_1)."""
    rng = random.Random(caseseed)
    dyadic = it % 2 == 0
    name = rng.choice(['fcc', 'bcc', 'L12', 'B2']) if dyadic else None
    ref = _reference(rng, name, dyadic)
    for rep in range(reps):
        _corr_slip_one(ctx, rng, ref, caseseed, it, it * reps + rep, dyadic)


def _corr_slip_one(ctx, rng, ref, caseseed, it0, it, dyadic):
    np = _np()
    import atomman as am
    s0, name, a, shells, size = ref
    sc = _slip_case(rng, s0, a, dyadic, shells)
    if sc is None:
        return
    s0.pbc = sc['pbc']
    s1 = _system(s0, s0.atoms.pos + sc['du'], pbc=sc['pbc'])
    if it % 4 >= 2:
        s1 = _system(s0, _wrapshift(rng, s1, np), pbc=sc['pbc'])
    cut, nl0 = sc['cutoff'], sc['nl0']
    n = s0.natoms
    info = {'op': 'corr-slip', 'caseseed': caseseed, 'it': it0, 'variant': it, 'crystal': name, 'a': a, 'size': list(size),
            'axis': sc['axis'], 'mid': sc['mid'], 'uA': sc['uA'].tolist(), 'uB': sc['uB'].tolist(),
            'pbc': list(sc['pbc']), 'cutoff': cut, 'dyadic': dyadic, 'mode': sc['mode'], 'nlist': sc['nlkind'],
            'box': s0.box.vects.tolist()}
    canon = (name, a, size, sc['axis'], sc['mid'], tuple(sc['uA']), tuple(sc['uB']), sc['pbc'], cut, it % 4 >= 2,
             sc['nlkind'])
    natural = sc['nlkind'] == 'cutoff'
    ctx.extra['coord_min_seen'] = min(ctx.extra.get('coord_min_seen', 99), int(min(len(nl0[i]) for i in range(s0.natoms))))
    if sc['mode'] == 'large':
        ctx.extra['large_slips'] = ctx.extra.get('large_slips', 0) + 1
    exact = dyadic
    across = [i for i in range(n) if any(sc['side'][j] != sc['side'][i] for j in nl0[i])]
    sel = list(range(n)) if ctx.thorough else _select(rng, n, 20, across)
    pos = cm.frs(s0.atoms.pos) + ' ' + cm.frs(s1.atoms.pos)
    nlt = _nlist_tokens(nl0, n)
    # nearest-image ties (exhaustive oracle): possible once the slip is not small
    V_, pb_ = s0.box.vects, sc['pbc']
    if sc['stable']:
        dec_disp = dec_slip = None

        def dec_rows(rows_, nl_=None):
            return None
    else:
        dec_disp = _mi(V_, pb_, s1.atoms.pos - s0.atoms.pos, np)[2]
        I_, J_, _, dec_dd = _expect_pairs(s0, s1, (V_, pb_), nl0, np)
        dec_slip_all = np.ones(n, dtype=bool)
        np.logical_and.at(dec_slip_all, I_, dec_dd)
        dec_slip = dec_slip_all[sel]

        def dec_rows(rows_, nl_=None):
            dd_ = dec_dd if nl_ is None else _expect_pairs(s0, s1, (V_, pb_), nl_, np)[3]
            return dd_[rows_]
    # displacement (system_1's cell; here it equals system_0's) ---------------------------
    ctx.stats.case('disp', canon, sample=info)
    out = ctx.driver.ask(f'disp {_cell(s1)} {n} {pos}')
    _cmp(ctx, 'displacement', 'am.displacement (rigid slip)', _guard(lambda: am.displacement(s0, s1)), out, exact, info,
         decided=dec_disp)
    _cmp(ctx, 'displacement:initial', "am.displacement(box_reference='initial')",
         _guard(lambda: am.displacement(s0, s1, box_reference='initial')), out, exact, info, decided=dec_disp)
    if it % 3 != 0:
        # displacement() as a whole (model `displacementCall`): every kind of box_reference, systems with different cells
        # (pbc flags and box vectors: system_1 re-described with b' = b + a when that keeps it a valid box) and atom counts
        p3 = list(sc['pbc'])
        p3[rng.randrange(3)] ^= True
        V3_ = np.array(s0.box.vects)
        if rng.random() < 0.5:
            V3_[1] = V3_[1] + V3_[0]
        s1c = _guard(lambda: am.System(atoms=am.Atoms(atype=1, pos=s1.atoms.pos.copy()), box=am.Box(vects=V3_, origin=s0.box.origin),
                                       pbc=tuple(bool(x) for x in p3)))
        if not isinstance(s1c, _Raised):
            short_ = am.System(atoms=am.Atoms(atype=1, pos=s1c.atoms.pos[:-1].copy()), box=s1c.box, pbc=s1c.pbc)
            p0t, p1t = cm.frs(s0.atoms.pos), cm.frs(s1c.atoms.pos)
            for ref_, tok_ in (('final', 'final'), ('initial', 'initial'), (None, 'none'), (rng.choice(['Final', 'both', '', 0, False, 'none', 1]), 'other')):
                for sB, nB, pB in ((s1c, n, p1t), (short_, n - 1, cm.frs(short_.atoms.pos))):
                    if sB is short_ and rng.random() < 0.5:
                        continue
                    o_ = ctx.driver.ask(f'dispcall {tok_} {_cell(s0)} {_cell(s1c)} {n} {p0t} {nB} {pB}')
                    r_ = _guard(lambda: am.displacement(s0, sB, box_reference=ref_))
                    ctx.stats.case('dispcall', canon + (repr(ref_), nB, tuple(p3)))
                    inf_ = dict(info, box_reference=repr(ref_), natoms1=nB, pbc1=p3, box1=V3_.tolist())
                    if isinstance(r_, _Raised) or o_.startswith('err:'):
                        cls_ = r_.text.split(':')[0] if isinstance(r_, _Raised) else 'values'
                        want_ = {'err:value': 'ValueError', 'err:assert': 'AssertionError'}.get(o_, 'values')
                        if cls_ != want_:
                            ctx.disagree('dispcall:refusal', f'displacement(box_reference={ref_!r}, {nB} vs {n} atoms): implementation '
                                         f'gives {r_.text if isinstance(r_, _Raised) else "values"}, the model {want_}', inf_)
                        continue
                    cellB = (V3_, p3) if ref_ == 'final' else (V_, pb_)
                    dq_ = None if ref_ is None else _mi(cellB[0], cellB[1], s1c.atoms.pos - s0.atoms.pos, np)[2]
                    _cmp(ctx, 'dispcall', f'am.displacement(box_reference={ref_!r}) with two different cells', r_, o_, exact, inf_, decided=dq_)
    if it % 3 == 1:
        # the two systems with DIFFERENT periodicity flags: 'final' takes system_1's, 'initial' system_0's
        p2 = list(sc['pbc'])
        kf = rng.randrange(3)
        p2[kf] = not p2[kf]
        s1q = _system(s0, s1.atoms.pos, pbc=tuple(p2))
        o1 = ctx.driver.ask(f'disp {_cell(s1q)} {n} {pos}')
        ctx.stats.case('disp:pbc-differs', canon + (kf,))
        dq = _mi(V_, p2, s1.atoms.pos - s0.atoms.pos, np)[2]
        _cmp(ctx, 'displacement:pbc', 'am.displacement (system_1 with other pbc flags, final)', am.displacement(s0, s1q), o1,
             exact, dict(info, pbc1=p2), decided=dq)
        _cmp(ctx, 'displacement:pbc', "am.displacement (system_1 with other pbc flags, box_reference='initial')",
             am.displacement(s0, s1q, box_reference='initial'), out, exact, dict(info, pbc1=p2),
             decided=_mi(V_, pb_, s1.atoms.pos - s0.atoms.pos, np)[2])
        o3 = ctx.driver.ask(f'slip {_cell(s0)} {n} {pos} {nlt} {_sel_tokens(sel)}')
        _cmp(ctx, 'slip_vector:pbc', "slip_vector (system_1 with other pbc flags: both separations under system_0's box and flags)",
             _guard(lambda: am.defect.slip_vector(s0, s1q, neighbors=nl0)[sel]), o3, exact, dict(info, pbc1=p2), decided=dec_slip)
        o2 = ctx.driver.ask(f'dd {_cell(s0)} {_cell(s1q)} {n} {pos} {nlt} {_sel_tokens(sel)}')
        offs_ = np.concatenate([[0], np.cumsum([len(nl0[i]) for i in range(n)])])
        rows_ = np.concatenate([np.arange(offs_[i], offs_[i + 1]) for i in sel]).astype(int)
        _cmp(ctx, 'ddvectors:pbc', 'DifferentialDisplacement (systems with different pbc flags).ddvectors',
             _guard(lambda: am.defect.DifferentialDisplacement(s0, s1q, neighbors=nl0, reference=0).ddvectors[rows_]), o2,
             exact, dict(info, pbc1=p2), decided=_expect_pairs(s0, s1q, (V_, tuple(p2)), nl0, np)[3][rows_])
    if it % 2 == 0:
        # per-atom displacements chosen in the fractional basis (every component below half a cell), system_1 not wrapped
        uf_, _ = _frac_displacements(rng, s0, np)
        s1f = _system(s0, s0.atoms.pos + uf_, pbc=sc['pbc'])
        of_ = ctx.driver.ask(f'disp {_cell(s1f)} {n} {cm.frs(s0.atoms.pos)} {cm.frs(s1f.atoms.pos)}')
        ctx.stats.case('disp:fractional', canon + (float(uf_[0, 0]),))
        _, nf_, df_ = _mi(V_, pb_, uf_, np)
        _cmp(ctx, 'displacement:fractional', 'am.displacement (displacements below half a cell in every box-relative component)',
             _guard(lambda: am.displacement(s0, s1f)), of_, exact, info, decided=df_ & (np.abs(nf_) <= 1).all(1))
    if it % 3 == 2:
        # the same pair of systems with the Cartesian axes permuted / reflected and the box vectors in another order
        Rm_, rows_ = _perm_frame(rng, np)
        s0r = _reframed(s0, Rm_, rows_, np, pbc=sc['pbc'])
        s1r = _system(s0r, s1.atoms.pos @ Rm_.T, pbc=s0r.pbc)
        posr = cm.frs(s0r.atoms.pos) + ' ' + cm.frs(s1r.atoms.pos)
        infr = dict(info, frame={'R': Rm_.tolist(), 'rows': rows_}, box=s0r.box.vects.tolist())
        ctx.stats.case('disp:permuted-frame', canon + (tuple(Rm_.ravel()), tuple(rows_)))
        _cmp(ctx, 'displacement:frame', 'am.displacement (axes permuted / reflected, box vectors reordered)',
             _guard(lambda: am.displacement(s0r, s1r)), ctx.driver.ask(f'disp {_cell(s1r)} {n} {posr}'), exact, infr, decided=dec_disp)
        _cmp(ctx, 'slip_vector:frame', 'slip_vector (axes permuted / reflected, box vectors reordered)',
             _guard(lambda: am.defect.slip_vector(s0r, s1r, neighbors=nl0)[sel]),
             ctx.driver.ask(f'slip {_cell(s0r)} {n} {posr} {nlt} {_sel_tokens(sel)}'), exact, infr, decided=dec_slip)
    # slip vector: via neighbors= and via cutoff= (the list must be system_0's) -----------
    out = ctx.driver.ask(f'slip {_cell(s0)} {n} {pos} {nlt} {_sel_tokens(sel)}')
    ctx.stats.case('slip', canon, sample=info)
    _cmp(ctx, 'slip_vector', 'slip_vector(neighbors=)', _guard(lambda: am.defect.slip_vector(s0, s1, neighbors=nl0)[sel]),
         out, exact, info, decided=dec_slip)
    s1c = _inbox(s1, np)              # (the representation handed to the cutoff= paths)
    natural = natural and s1c is not None
    if natural:
        # (system_1 is handed over in its in-cell representation: expectation and nearest-image decisions for THAT one)
        posc = cm.frs(s0.atoms.pos) + ' ' + cm.frs(s1c.atoms.pos)
        if sc['stable']:
            dec_slip_c = None

            def dec_rows_c(rows_):
                return None
        else:
            Ic_, _, _, dec_dd_c = _expect_pairs(s0, s1c, (V_, pb_), nl0, np)
            dsc_ = np.ones(n, dtype=bool)
            np.logical_and.at(dsc_, Ic_, dec_dd_c)
            dec_slip_c = dsc_[sel]

            def dec_rows_c(rows_):
                return dec_dd_c[rows_]
        outc = ctx.driver.ask(f'slip {_cell(s0)} {n} {posc} {nlt} {_sel_tokens(sel)}')
        _cmp(ctx, 'slip_vector:cutoff', 'slip_vector(cutoff=)', _guard(lambda: am.defect.slip_vector(s0, s1c, cutoff=cut)[sel]),
             outc, exact, info, decided=dec_slip_c)
    # differential displacement -------------------------------------------------------------
    offs = np.concatenate([[0], np.cumsum([len(nl0[i]) for i in range(n)])])
    rows = np.concatenate([np.arange(offs[i], offs[i + 1]) for i in sel]).astype(int)
    out = ctx.driver.ask(f'dd {_cell(s0)} {_cell(s1)} {n} {pos} {nlt} {_sel_tokens(sel)}')
    ctx.stats.case('dd', canon, sample=info)
    ddv = _guard(lambda: am.defect.DifferentialDisplacement(s0, s1, neighbors=nl0, reference=0).ddvectors)
    if not isinstance(ddv, _Raised) and len(ddv) != offs[-1]:
        ctx.disagree('ddvectors', f'DifferentialDisplacement(neighbors=, reference=0): {len(ddv)} pair vectors, the list has '
                     f'{int(offs[-1])} pairs', info)
    else:
        _cmp(ctx, 'ddvectors', 'DifferentialDisplacement(neighbors=, reference=0).ddvectors',
             ddv if isinstance(ddv, _Raised) else ddv[rows], out, exact, info, decided=dec_rows(rows))
    if natural:
        ddv = _guard(lambda: am.defect.DifferentialDisplacement(s0, s1c, cutoff=cut, reference=0).ddvectors)
        if not isinstance(ddv, _Raised) and len(ddv) != offs[-1]:
            ctx.disagree('ddvectors:cutoff', 'DifferentialDisplacement(cutoff=, reference=0): number of pairs differs from '
                         'system0\'s neighbour list', info)
        else:
            outc = ctx.driver.ask(f'dd {_cell(s0)} {_cell(s1c)} {n} {posc} {nlt} {_sel_tokens(sel)}')
            _cmp(ctx, 'ddvectors:cutoff', 'DifferentialDisplacement(cutoff=, reference=0).ddvectors',
                 ddv if isinstance(ddv, _Raised) else ddv[rows], outc, exact, info, decided=dec_rows_c(rows))
    if natural and it % 3 == 0:      # (lists are only built for systems whose atoms are inside the box)
        nl1 = s1c.neighborlist(cutoff=cut)
        offs1 = np.concatenate([[0], np.cumsum([len(nl1[i]) for i in range(n)])])
        rows1 = np.concatenate([np.arange(offs1[i], offs1[i + 1]) for i in sel]).astype(int)
        dd = am.defect.DifferentialDisplacement(s0, s1c, cutoff=cut)       # default reference=1: system1's list
        ctx.stats.case('dd:ref1', canon)
        out1 = ctx.driver.ask(f'dd {_cell(s0)} {_cell(s1c)} {n} {cm.frs(s0.atoms.pos)} {cm.frs(s1c.atoms.pos)} '
                              f'{_nlist_tokens(nl1, n)} {_sel_tokens(sel)}')
        if len(dd.ddvectors) != offs1[-1]:
            ctx.disagree('ddvectors:ref1', 'DifferentialDisplacement(cutoff=) (reference=1): number of pairs differs from '
                         'system1\'s neighbour list', info)
        else:
            _cmp(ctx, 'ddvectors:ref1', 'DifferentialDisplacement(cutoff=).ddvectors (reference=1)', dd.ddvectors[rows1],
                 out1, exact, info, decided=_expect_pairs(s0, s1c, (V_, pb_), nl1, np)[3][rows1])
    # disregistry ---------------------------------------------------------------------------
    ax = sc['axis']
    mdir = rng.choice([k for k in range(3) if k != ax])
    m = [0.0, 0.0, 0.0]
    nn = [0.0, 0.0, 0.0]
    m[mdir] = 1.0
    nn[ax] = 1.0
    planepos = [0.0, 0.0, 0.0]
    planepos[ax] = sc['mid']
    if dec_disp is not None and not dec_disp.all():
        return                                  # (a displacement at a nearest-image tie: the profile is not compared)
    _corr_disreg(ctx, s0, s1, m, nn, planepos, exact, dict(info, m=m, n=nn, planepos=planepos), canon)
    if it % 3 != 1:
        # both systems, the box and planepos far from the origin (1e2 .. 1e6 along the normal and in plane): the model
        # carries numpy.isclose's tolerances, so the regime in which planes / columns merge is tied as well
        mags = [2.0 ** 7, 2.0 ** 10, 2.0 ** 13, 2.0 ** 15, 2.0 ** 17, 2.0 ** 20] if dyadic else [1e2, 1e3, 6e3, 1e4, 1e5, 1e6]
        tt = np.array([rng.randint(-40, 40) / 8 for _ in range(3)])
        for k_ in range(3):
            if k_ == ax or rng.random() < 0.4:
                tt[k_] += rng.choice([1, -1]) * rng.choice(mags)
        s0d = _system(s0, s0.atoms.pos + tt, origin=s0.box.origin + tt, pbc=sc['pbc'])
        s1d = _system(s0d, s1.atoms.pos + tt, pbc=sc['pbc'])
        ppd = (np.array(planepos) + tt).tolist()
        _corr_disreg(ctx, s0d, s1d, m, nn, ppd, exact, dict(info, m=m, n=nn, planepos=ppd, translation=tt.tolist()),
                     canon + ('translated', tuple(tt)))
    if it % 2 == 1:
        # a smooth non-rigid field on top: means over columns and interpolation do real work
        # (it differs from plane to plane and between the halves: the choice of the two adjoining planes matters)
        sfrac = s0.box.position_cartesian_to_relative(s0.atoms.pos)
        lev = (s0.atoms.pos[:, ax] - s0.atoms.pos[:, ax].min()) / max(1e-9, float(np.ptp(s0.atoms.pos[:, ax])))
        third = [k_ for k_ in range(3) if k_ not in (ax, mdir)][0]
        # (it also varies ALONG each atomic column, so that the per-column mean is a real mean)
        u = (np.sin(2 * np.pi * sfrac[:, mdir]) * (0.4 + lev) * np.where(sc['side'], 1.0, -0.6)
             * (1.0 + 0.35 * np.cos(2 * np.pi * sfrac[:, third] + 0.7)))[:, None] * np.array([0.03, 0.012, -0.02]) * a
        s2 = _system(s0, s1.atoms.pos + u, pbc=sc['pbc'])
        _corr_disreg(ctx, s0, s2, m, nn, planepos, False, dict(info, m=m, n=nn, planepos=planepos, field=True),
                     canon + ('field',))
        # plane position outside the crystal -> ValueError on both sides
        pp = list(planepos)
        pp[ax] = float(s0.atoms.pos[:, ax].max() + 1.0)
        _corr_disreg(ctx, s0, s1, m, nn, pp, exact, dict(info, m=m, n=nn, planepos=pp), canon + ('outside',))


def _corr_disreg(ctx, s0, s1, m, nn, planepos, exact, info, canon):
    np = _np()
    import atomman as am
    n = s0.natoms
    xs = np.dot(s0.atoms.pos, np.asarray(m, dtype=float))
    ys = np.dot(s0.atoms.pos, np.asarray(nn, dtype=float))
    midy = float(np.dot(np.asarray(planepos, dtype=float), np.asarray(nn, dtype=float)))
    line = (f'disreg {cm.fr(1e-8)} {cm.fr(1e-5)} {cm.fr(midy)} {_cell(s1)} {n} {cm.frs(s0.atoms.pos)} '
            f'{cm.frs(s1.atoms.pos)} {cm.frs(xs)} {cm.frs(ys)}')
    out = ctx.driver.ask(line)
    ctx.stats.case('disreg', canon + (tuple(m), tuple(nn), tuple(planepos)), sample=info)
    try:
        coord, dis = am.defect.disregistry(s0, s1, m=m, n=nn, planepos=planepos)
    except ValueError as e:
        if out != 'err:value':
            ctx.disagree('disregistry:error', f'disregistry raised ValueError ({e}) but the model returned a profile', info)
        return
    if out.startswith('err:'):
        ctx.disagree('disregistry:error', f'disregistry returned a profile but the model refused ({out})', info)
        return
    toks = out.split()
    k = int(toks[0])
    model = [Fraction(t) for t in toks[1:]]
    if k != len(coord):
        ctx.disagree('disregistry', f'disregistry: {len(coord)} coordinates, model {k}', info)
        return
    impl = np.hstack([coord[:, None], dis]).ravel()
    d = _maxdiff(impl, model)
    if d > (0 if exact else 1e-9):
        ctx.disagree('disregistry', f'disregistry: implementation differs from the model by {float(d):.3e}', info)
    _corr_disregcall(ctx, s0, s1, m, nn, planepos, exact, info, canon)


def _corr_disregcall(ctx, s0, s1, m, nn, planepos, exact, info, canon):
    """the WHOLE call on the model side too (`disregistryCall`: displacement with its atom-count refusal and default
    reference, the projections on m and n, planepos·n): the model gets the systems and the three vectors, nothing
    pre-computed.  Forms: the directions as given / as integer multiples handed over as python ints (coordinates and
    plane position scale with them, the profile's displacements do not) / a second system that is one atom short."""
    np = _np()
    import atomman as am
    rng = random.Random(f"disregcall:{info.get('caseseed')}:{info.get('it')}:{len(canon)}:{planepos}")
    form = rng.choice(['same', 'ints', 'ints', 'short', 'pbc', 'pbc'])
    mm, n2, sB = list(m), list(nn), s1
    if form == 'ints':
        km, kn = rng.choice([1, 2, 4]), rng.choice([1, 2, 4, -1, -2])
        mm, n2 = [int(round(x)) * km for x in m], [int(round(x)) * kn for x in nn]
        if [float(x) / km for x in mm] != [float(x) for x in m] or [float(x) / kn for x in n2] != [float(x) for x in nn]:
            mm, n2, form = list(m), list(nn), 'same'           # (directions that are not axis vectors stay as they are)
    if form == 'short':
        sB = am.System(atoms=am.Atoms(atype=1, pos=s1.atoms.pos[:-1].copy()), box=s1.box, pbc=s1.pbc)
    if form == 'pbc':
        # the second system with OTHER periodicity flags: the displacement inside disregistry takes them (default 'final')
        p2 = [bool(x) for x in s1.pbc]
        kf = rng.randrange(3)
        p2[kf] = not p2[kf]
        sB = am.System(atoms=am.Atoms(atype=1, pos=s1.atoms.pos.copy()), box=s1.box, pbc=tuple(p2))
        dq = _mi(np.array(sB.box.vects), p2, sB.atoms.pos - s0.atoms.pos, np)[2]
        if not dq.all():
            sB, form = s1, 'same'                   # (a displacement at a nearest-image tie under these flags)
    vec = lambda v: ' '.join(cm.fr(float(x)) for x in v)
    line = (f'disregcall {cm.fr(1e-8)} {cm.fr(1e-5)} {_cell(s0)} {_cell(sB)} {s0.natoms} {cm.frs(s0.atoms.pos)} '
            f'{sB.natoms} {cm.frs(sB.atoms.pos)} {vec(mm)} {vec(n2)} {vec(planepos)}')
    out = ctx.driver.ask(line)
    inf = dict(info, call_form=form, m=mm, n=n2, natoms1=sB.natoms)
    ctx.stats.case('disregcall', canon + (form, tuple(mm), tuple(n2), tuple(planepos)), sample=inf)
    r = _guard(lambda: am.defect.disregistry(s0, sB, m=mm, n=n2, planepos=planepos))
    if isinstance(r, _Raised) or out.startswith('err:'):
        cls = r.text.split(':')[0] if isinstance(r, _Raised) else 'a profile'
        want = {'err:value': 'ValueError', 'err:assert': 'AssertionError'}.get(out, 'a profile')
        if cls != want:
            ctx.disagree('disregcall:refusal', f'disregistry(m={mm}, n={n2}, {sB.natoms} vs {s0.natoms} atoms): implementation gives '
                         f'{r.text if isinstance(r, _Raised) else "a profile"}, the model of the whole call {want}', inf)
        return
    coord, dis = r
    toks = out.split()
    k = int(toks[0])
    if k != len(coord):
        ctx.disagree('disregcall', f'disregistry (whole call, {form}): {len(coord)} coordinates, model {k}', inf)
        return
    d = _maxdiff(np.hstack([coord[:, None], dis]).ravel(), [Fraction(t) for t in toks[1:]])
    if d > (0 if exact else 1e-9):
        ctx.disagree('disregcall', f'disregistry (whole call, {form}): implementation differs from the model by {float(d):.3e}', inf)


def _corr_strain(ctx, caseseed, it, reps=4):
    """one reference crystal (neighbour list built once), `reps` different deformations of it."""
    rng = random.Random(caseseed)
    ref = _reference(rng, None, False)
    s0, name, a, shells, size = ref
    nl0 = s0.neighborlist(cutoff=shells[0][0] * a)
    for rep in range(reps):
        _corr_strain_one(ctx, rng, ref, nl0, caseseed, it, it * reps + rep)


def _corr_strain_one(ctx, rng, ref, nl0, caseseed, it0, it):
    np = _np()
    import atomman as am
    s0, name, a, shells, size = ref
    kind = ['general', 'field', 'rotation', 'field2', 'strain', 'sparse', 'rotation', 'strain', 'field'][it % 9]
    if kind == 'sparse':
        # F with a single off-diagonal entry / triangular F: deformed cells with zero entries in any position
        kind = rng.choice(['single', 'single', 'lower', 'upper'])
    n = s0.natoms
    cutf, coordn = shells[0]
    cut = cutf * a
    info = {'op': 'corr-strain', 'caseseed': caseseed, 'it': it0, 'variant': it, 'crystal': name, 'a': a,
            'size': list(size), 'kind': kind, 'cutoff': cut}
    if kind.startswith('field'):
        # smooth periodic displacement field u = A sin(2 pi (k.s + phase)): G varies, Nye tensor non-zero
        sfrac = s0.box.position_cartesian_to_relative(s0.atoms.pos)
        kvec = np.array([rng.choice([0, 1]) for _ in range(3)])
        if not kvec.any():
            kvec[rng.randrange(3)] = 1
        amp = np.array([rng.uniform(-0.012, 0.012) * a for _ in range(3)])
        ph = rng.uniform(0, 1)
        u = np.sin(2 * np.pi * (sfrac @ kvec + ph))[:, None] * amp[None, :]
        s1 = _system(s0, s0.atoms.pos + u)
        info.update(k=kvec.tolist(), amp=amp.tolist(), phase=ph)
        F = None
    else:
        F = _rand_F(rng, kind)
        s1 = _deform(s0, F)
        info.update(F=F)
    canon = (name, a, size, kind, cut, repr(info.get('F')), repr(info.get('amp')), repr(info.get('k')))
    if it % 2 == 0:
        nl1 = s1.neighborlist(cutoff=cut * (1.04 if F is not None else 1.0))
        if F is not None and it % 4 == 2:
            # same configuration with atoms moved by box vectors (lists are built before: nlist needs atoms in the box)
            s1 = _system(s1, _wrapshift(rng, s1, np))
        if it % 3 == 1:
            # current and reference lists in DIFFERENT orders (the pairing must not rely on the order)
            nl1 = _shuffled_nlist(am, rng, s1, nl1, n)
            if rng.random() < 0.5:
                nl0 = _shuffled_nlist(am, rng, s0, nl0, n)
        st = am.defect.Strain(s1, neighbors=nl1, basesystem=s0, baseneighbors=nl0)
    else:
        # the cutoff path builds both lists itself (system's and basesystem's)
        nl1 = s1.neighborlist(cutoff=cut)
        st = am.defect.Strain(s1, cutoff=cut, basesystem=s0)
    cosmax = _cosmax(27)
    G = st.G
    sel = list(range(n)) if ctx.thorough else _select(rng, n, 10)
    line = (f'strain {cm.fr(cosmax)} {_cell(s0)} {_cell(s1)} {n} {cm.frs(s0.atoms.pos)} {cm.frs(s1.atoms.pos)} '
            f'{_nlist_tokens(nl0, n)} {_nlist_tokens(nl1, n)} {_sel_tokens(sel)}')
    out = ctx.driver.ask(line)
    ctx.stats.case('strain:' + kind, canon, sample=info)
    _cmp(ctx, 'Strain.G', f'Strain.G ({kind})', G[sel], out, False, info, atol=2e-9)
    res = _lstsq_residual(s1, nl1, st.p_vectors, G, cosmax, np)
    ctx.extra['lstsq_residual_max'] = max(ctx.extra.get('lstsq_residual_max', 0.0), res)
    if res > 1e-10:
        ctx.disagree('lstsq:residual', f'numpy lstsq result violates the normal equations (relative residual {res:.2e})', info)
    if F is not None and (it % 4 == 0 or kind in ('single', 'lower', 'upper')):
        # differential displacement with two different cells (system_1 carries the deformed box)
        offs = np.concatenate([[0], np.cumsum([len(nl0[i]) for i in range(n)])])
        rows = np.concatenate([np.arange(offs[i], offs[i + 1]) for i in sel]).astype(int)
        o = ctx.driver.ask(f'dd {_cell(s0)} {_cell(s1)} {n} {cm.frs(s0.atoms.pos)} {cm.frs(s1.atoms.pos)} '
                           f'{_nlist_tokens(nl0, n)} {_sel_tokens(sel)}')
        ctx.stats.case('dd:deformed-cell', canon, sample=info)
        dd = am.defect.DifferentialDisplacement(s0, s1, neighbors=nl0, reference=0)
        _cmp(ctx, 'ddvectors:cells', 'DifferentialDisplacement (deformed cell).ddvectors', dd.ddvectors[rows], o, False, info,
             atol=2e-9)
        o = ctx.driver.ask(f'disp {_cell(s1)} {n} {cm.frs(s0.atoms.pos)} {cm.frs(s1.atoms.pos)}')
        _cmp(ctx, 'displacement:cells', 'displacement (deformed cell, final box)', am.displacement(s0, s1), o, False, info,
             atol=2e-9)
        o = ctx.driver.ask(f'disp {_cell(s0)} {n} {cm.frs(s0.atoms.pos)} {cm.frs(s1.atoms.pos)}')
        _cmp(ctx, 'displacement:cells', "displacement (deformed cell, box_reference='initial')",
             am.displacement(s0, s1, box_reference='initial'), o, False, info, atol=2e-9)
    # strain measures from G --------------------------------------------------------------
    atoms = sel[:3]
    outs = ctx.driver.ask_many(['derive ' + cm.frs(G[i]) for i in atoms])
    for i, o in zip(atoms, outs):
        impl = np.concatenate([st.strain[i].ravel(), st.rotation[i].ravel(),
                               [st.invariant1[i], st.invariant2[i], st.invariant3[i], st.angularvelocity[i] ** 2]])
        ctx.stats.case('derive', (canon, i))
        _cmp(ctx, 'Strain.measures', 'strain/rotation/invariants/angular velocity from G', impl, o, False,
             dict(info, atom=i), atol=1e-12)
    # Nye tensor from the implementation's own G (isolates solve_nye) -----------------------
    o = ctx.driver.ask(f'nye {_cell(s1)} {n} {cm.frs(s1.atoms.pos)} {_nlist_tokens(nl1, n)} {cm.frs(G)} {_sel_tokens(sel)}')
    ctx.stats.case('nye:' + kind, canon)
    _cmp(ctx, 'Strain.nye', f'Strain.nye ({kind})', st.nye[sel], o, False, info, atol=2e-9)
    if it % 3 == 0:
        # the older pure-python implementation of the same pipeline
        pv = np.array([np.asarray(p, dtype=float) for p in st.p_vectors])
        old = am.defect.nye_tensor(s1, pv, neighbors=nl1)
        ctx.stats.case('nye_tensor', canon)
        _cmp(ctx, 'nye_tensor.Nye', 'nye_tensor()[Nye_tensor]', old['Nye_tensor'][sel], o, False, info, atol=2e-9)
        for i, oo in zip(atoms, outs):
            mm = _floats(oo)
            impl = np.concatenate([old['strain'][i].ravel(), [old['strain_invariant_1'][i], old['strain_invariant_2'][i],
                                                              old['strain_invariant_3'][i], old['angular_velocity'][i] ** 2]])
            if _maxdiff(impl, mm[:9] + mm[18:22]) > 1e-9:
                ctx.disagree('nye_tensor.measures', 'nye_tensor() strain/invariants differ from the model', dict(info, atom=i))


def _corr_match(ctx, caseseed, N):
    """the pairing loop where it decides something: more q than p, competing q for one p, q outside theta_max.
    The real code is reached through Strain(basesystem=...) on a cluster (atom 0 + its neighbours, no pbc)."""
    np = _np()
    import atomman as am
    import warnings
    rng = random.Random(caseseed)
    cosmax = _cosmax(27)
    L = 64.0
    for it in range(N):
        npv = rng.randint(3, 8)
        ps = []
        while len(ps) < npv:
            v = np.array([rng.randint(-8, 8) / 4 for _ in range(3)])
            if v.any() and all(np.dot(v, w) / np.linalg.norm(v) / np.linalg.norm(w) < 0.8 for w in ps):
                ps.append(v)
        qs = []
        for p in ps:
            r = rng.random()
            if r < 0.15:
                continue
            qs.append(p * rng.choice([1.0, 1.0, 1.25, 0.75]) + np.array([rng.randint(-2, 2) / 16 for _ in range(3)]))
            if r > 0.7:     # a second, longer candidate for the same p
                qs.append(p * rng.choice([1.5, 2.0]) + np.array([rng.randint(-2, 2) / 16 for _ in range(3)]))
            if r > 0.8:     # ... and more of them, longer and shorter, listed in any order
                for fct in rng.sample([0.5, 0.625, 1.75, 2.5, 3.0, 1.375], rng.randint(1, 3)):
                    qs.append(p * fct + np.array([rng.randint(-2, 2) / 16 for _ in range(3)]))
        if rng.random() < 0.4:
            qs.append(np.array([rng.randint(-8, 8) / 4 for _ in range(3)]) + np.array([1 / 32, 1 / 64, 0]))
        uq = []
        for q in qs:
            if q.any() and all(np.abs(q - w).max() > 1e-9 for w in uq):
                uq.append(q)
        qs = uq
        rng.shuffle(qs)
        if len(qs) < 3:
            continue
        # exemption: a decision closer than 1e-9 to a tie or to theta_max is not compared
        c = np.array([[np.dot(q, p) / np.linalg.norm(q) / np.linalg.norm(p) for p in ps] for q in qs])
        srt = np.sort(c, axis=1)
        qm = np.array([np.linalg.norm(q) for q in qs])
        r1 = min(np.linalg.norm(p) for p in ps)
        rad = np.abs(r1 - qm)
        if (np.abs(srt[:, -1] - srt[:, -2]) < 1e-9).any() or (np.abs(c - cosmax) < 1e-9).any() \
                or (np.abs(rad[:, None] - rad[None, :])[~np.eye(len(qs), dtype=bool)] < 1e-9).any():
            continue
        nat = 2 + max(len(ps), len(qs))

        def cluster(vs):
            pos = np.full((nat, 3), L / 2)
            pos[1:len(vs) + 1] += np.array(vs)
            for k in range(len(vs) + 1, nat):          # padding atoms, far away
                pos[k] = [2.0 + k, 3.0, 5.0]
            s = am.System(atoms=am.Atoms(atype=1, pos=pos), box=am.Box.cubic(L), pbc=(False, False, False))
            lists = [list(range(1, len(vs) + 1))]
            for k in range(1, nat):
                other = 1 + (k % (nat - 1))
                lists.append([0, other])
            return s, _mk_nlist(am, s, lists)
        sb, nlb = cluster(ps)
        scur, nlc = cluster(qs)
        info = {'op': 'corr-match', 'caseseed': caseseed, 'index': it, 'p': [p.tolist() for p in ps],
                'q': [q.tolist() for q in qs]}
        try:
            with warnings.catch_warnings():
                warnings.simplefilter('ignore')
                G = am.defect.Strain(scur, neighbors=nlc, basesystem=sb, baseneighbors=nlb).G[0]
        except Exception as e:   # noqa
            ctx.disagree('match:raises', f'Strain on a cluster raised {type(e).__name__}: {e}', info)
            continue
        line = f'match {cm.fr(cosmax)} {len(ps)} {cm.frs(np.array(ps))} {len(qs)} {cm.frs(np.array(qs))}'
        out = ctx.driver.ask(line)
        pairs = [int(t) for t in out.split()]
        sel = [(j, k) for j, k in enumerate(pairs) if k >= 0]
        info['model_pairs'] = pairs
        ctx.stats.case('match', line, nontrivial=len(sel) != len(qs) or len(qs) != len(ps), sample=info)
        if len(sel) == 0:
            want = np.identity(3)
        else:
            Q = np.array([qs[j] for j, _ in sel])
            P = np.array([ps[k] for _, k in sel])
            if np.linalg.matrix_rank(Q) < 3 or np.linalg.cond(Q) > 1e3:
                continue
            want = _solve_normal([[Fraction(float(x)) for x in q] for q in Q], [[Fraction(float(x)) for x in p] for p in P])
            want = np.array([[float(v) for v in r] for r in want])
        if not np.allclose(G, want, rtol=1e-9, atol=1e-10):
            ctx.disagree('match_pq', f'G of a cluster differs from the normal-equation solution over the model\'s pairing '
                                     f'{pairs}: {G.tolist()} vs {want.tolist()}', info)


def correspond(ctx):
    rng = ctx.rng
    for it in range(ctx.n(10, 45)):
        _guarded_case(ctx, 'corr', _corr_slip, rng.getrandbits(48), it)
    for it in range(ctx.n(7, 40)):
        _guarded_case(ctx, 'corr', _corr_strain, rng.getrandbits(48), it)
    _corr_match(ctx, rng.getrandbits(48), ctx.n(250, 2500))
    for it in range(ctx.n(5, 40)):
        _guarded_case(ctx, 'corr', _strain_sequence, rng.getrandbits(48), it, True)
    for it in range(ctx.n(6, 40)):
        _guarded_case(ctx, 'corr', _dd_sequence, rng.getrandbits(48), it, True)
    for it in range(ctx.n(5, 40)):
        _guarded_case(ctx, 'corr', _shells, rng.getrandbits(48), it, True)
    for it in range(ctx.n(2, 12)):
        _guarded_case(ctx, 'corr', _sources, rng.getrandbits(48), it, True)


# ----------------------------------------------------------------------------------------
# search: the property's clauses on the real code, exact rational oracle
# ----------------------------------------------------------------------------------------
def _bad(impl, want, tol):
    """first row where |impl - want| > tol, or None."""
    np = _np()
    impl = np.asarray(impl, dtype=float)
    w = np.asarray(want, dtype=float).reshape(impl.shape)
    if impl.size == 0:
        return None
    fin = np.isfinite(impl).reshape(len(impl), -1).all(1)
    if not fin.all():
        return int(np.argmin(fin))
    d = np.abs(impl - w).reshape(len(impl), -1).max(1)
    if d.max() > tol:
        return int(d.argmax())
    return None


def _same_profile(c1, d1, c2, d2, tol, np):
    """two disregistry profiles agree as functions of the coordinate (numpy.unique on floats may list a column
    once or twice depending on rounding, so the number of rows is not compared)."""
    if len(c1) == 0 or len(c2) == 0:
        return len(c1) == len(c2)
    for ca, da, cb, db in ((c1, d1, c2, d2), (c2, d2, c1, d1)):
        for x, v in zip(ca, da):
            k = int(np.abs(cb - x).argmin())
            if abs(cb[k] - x) > max(tol, 1e-7) or np.abs(db[k] - v).max() > tol:
                return False
    return True


def _search_slip(ctx, caseseed, it, reps=3):
    """rigid slip of a half crystal: displacement, slip vector, disregistry, differential displacement,
    invariance under joint translation and consistent renumbering."""
    rng = random.Random(caseseed)
    dyadic = it % 3 == 0
    name = rng.choice(['fcc', 'bcc', 'L12', 'B2']) if dyadic else None
    ref = _reference(rng, name, dyadic)
    for rep in range(reps):
        _search_slip_one(ctx, rng, ref, caseseed, it, it * reps + rep, dyadic)


def _pairs(nl, n, np):
    I = np.concatenate([np.full(len(nl[i]), i, dtype=int) for i in range(n)]) if n else np.zeros(0, dtype=int)
    J = np.concatenate([np.asarray(nl[i], dtype=int) for i in range(n)]) if n else np.zeros(0, dtype=int)
    return I, J


def _expect_pairs(s0, s1, cell1, nl, np):
    """exact expectation for every neighbour pair from the true-nearest-image oracle: (I, J, dd rows, decided rows)
    with dd = MI_1(x1_j - x1_i) - MI_0(x0_j - x0_i); `cell1` = (vects, pbc) used for system_1's separation.
    A row is decided when both minima are unique by a margin and lie within one box vector per direction of the raw
    difference (the range the property's 'through the periodic boundaries' covers)."""
    n = s0.natoms
    I, J = _pairs(nl, n, np)
    d0, n0, u0 = _mi(s0.box.vects, s0.pbc, s0.atoms.pos[J] - s0.atoms.pos[I], np)
    d1, n1, u1 = _mi(cell1[0], cell1[1], s1.atoms.pos[J] - s1.atoms.pos[I], np)
    ok = u0 & u1 & (np.abs(n0) <= 1).all(1) & (np.abs(n1) <= 1).all(1)
    return I, J, d1 - d0, ok


def _search_slip_one(ctx, rng, ref, caseseed, it0, it, dyadic):
    np = _np()
    import atomman as am
    s0, name, a, shells, size = ref
    sc = _slip_case(rng, s0, a, dyadic, shells)
    if sc is None:
        return
    n = s0.natoms
    s0.pbc = sc['pbc']
    du, side, cut, nl0 = sc['du'], sc['side'], sc['cutoff'], sc['nl0']
    natural = sc['nlkind'] == 'cutoff'
    s1 = _system(s0, s0.atoms.pos + du, pbc=sc['pbc'])
    wrapped = it % 2 == 1
    if wrapped:
        s1 = _system(s0, _wrapshift(rng, s1, np), pbc=sc['pbc'])
    L = max(1.0, float(np.abs(s0.box.vects).max()))
    tol = 0.0 if dyadic else 1e-9 * L
    base = {'op': 'search-slip', 'caseseed': caseseed, 'it': it0, 'variant': it, 'crystal': name, 'a': a, 'size': list(size),
            'box': s0.box.vects.tolist(), 'pbc': list(sc['pbc']), 'normal_axis': sc['axis'], 'plane': sc['mid'],
            'u_above': sc['uA'].tolist(), 'u_below': sc['uB'].tolist(), 'cutoff': cut, 'wrapped': wrapped, 'mode': sc['mode'],
            'nlist': sc['nlkind']}
    canon = (name, a, size, sc['axis'], sc['mid'], tuple(sc['uA']), tuple(sc['uB']), sc['pbc'], cut, wrapped, sc['nlkind'])
    ctx.stats.case('oracle:slip' + (':large' if sc['mode'] == 'large' else ''), canon, sample=base)
    coordn = np.array([len(nl0[i]) for i in range(n)])
    for c_ in (0, 1):
        if (coordn == c_).any():
            ctx.extra[f'oracle_atoms_with_{c_}_neighbours'] = ctx.extra.get(f'oracle_atoms_with_{c_}_neighbours', 0) + int((coordn == c_).sum())
    # expectations -----------------------------------------------------------------------------------------
    # the imposed displacement taken through the periodic boundaries = its true nearest image (exhaustive lattice
    # search); inside the no-image-flip regime that is the imposed vector itself and the rigid-slip formulas hold
    # literally (cross-checked here), outside it the same exact oracle gives the expected value.
    V, pb = s0.box.vects, sc['pbc']
    mi_disp, nst, dec_disp = _mi(V, pb, s1.atoms.pos - s0.atoms.pos, np)
    dec_disp &= (np.abs(nst) <= 1).all(1)
    mi_dec = dec_disp.copy()
    I, J, mi_dd, dec_dd = _expect_pairs(s0, s1, (V, pb), nl0, np)
    across = np.array([sum(1 for j in nl0[i] if side[j] != side[i]) for i in range(n)])
    rel = np.where(side[:, None], sc['uA'] - sc['uB'], sc['uB'] - sc['uA'])       # own half relative to the other
    if sc['stable']:
        exp_disp = du
        exp_dd = du[J] - du[I]
        exp_slip = across[:, None] * rel
        if np.abs(mi_disp - du)[dec_disp].max(initial=0.0) > 1e-9 * L or np.abs(mi_dd - exp_dd)[dec_dd].max(initial=0.0) > 1e-9 * L:
            ctx.extra['oracle_selfcheck_mismatch'] = ctx.extra.get('oracle_selfcheck_mismatch', 0) + 1
        dec_disp = np.ones(n, dtype=bool)
        dec_dd = np.ones(len(I), dtype=bool)
    else:
        exp_disp = mi_disp
        exp_dd = mi_dd
        exp_slip = np.zeros((n, 3))
        np.subtract.at(exp_slip, I, exp_dd)
        ctx.extra['oracle_undecided_pairs'] = ctx.extra.get('oracle_undecided_pairs', 0) + int((~dec_dd).sum())
        ctx.extra['oracle_images_beyond_rhombus'] = ctx.extra.get('oracle_images_beyond_rhombus', 0) + int(
            (np.abs(np.rint((s1.atoms.pos - s0.atoms.pos) @ np.linalg.inv(V)) + nst).sum(1) > 0).sum())
    dec_slip = np.ones(n, dtype=bool)
    np.logical_and.at(dec_slip, I, dec_dd)

    def fail(key, what, i=None, **kw):
        ctx.violate(key, what, dict(base, atom=i, **kw))

    def bad(impl, want, tol_, dec):
        impl = np.asarray(impl, dtype=float)
        if impl.shape != np.asarray(want).shape:
            return -1
        if not dec.any():
            return None
        idx = np.where(dec)[0]
        k = _bad(impl[idx], np.asarray(want)[idx], tol_)
        return None if k is None else int(idx[k])
    # displacement ----------------------------------------------------------------------------
    for bref in ('final', 'initial'):
        d = _guard(lambda: am.displacement(s0, s1, box_reference=bref))
        if isinstance(d, _Raised):
            fail('displacement:raises', f'displacement(box_reference={bref!r}) raised {d.text}')
            continue
        k = bad(d, exp_disp, tol, dec_disp)
        if k is not None:
            fail('displacement', f'displacement(box_reference={bref!r}) of atom {k} is {d[k].tolist() if k >= 0 else d.shape}, the '
                 f'imposed displacement taken through the periodic boundaries is {exp_disp[max(k, 0)].tolist()} ({name} {size}, '
                 f'box {np.round(V, 6).tolist()}, pbc {list(pb)}, rigid slip {sc["uA"].tolist()} / {sc["uB"].tolist()}'
                 f'{", atoms moved by box vectors" if wrapped else ""})', k)
    # per-atom displacements chosen in the fractional basis, every component below half a cell, system_1 NOT wrapped (then
    # atoms moved by box vectors): the displacement is the shortest periodic image, which in a tilted cell differs from the
    # raw difference for many of them ----------------------------------------------------------------------------------------
    uf, ff = _frac_displacements(rng, s0, np, uniform=it % 3 == 1)
    for wr_ in (False, True):
        s1f = _system(s0, s0.atoms.pos + uf, pbc=sc['pbc'])
        if wr_:
            s1f = _system(s0, _wrapshift(rng, s1f, np), pbc=sc['pbc'])
        ef, nf, df = _mi(V, pb, s1f.atoms.pos - s0.atoms.pos, np)
        df &= (np.abs(nf) <= 1).all(1)
        ctx.stats.case('oracle:disp-fractional', canon + (wr_, float(uf[0, 0])), nontrivial=bool(np.abs(nf).any()))
        ctx.extra['frac_disp_images_taken'] = ctx.extra.get('frac_disp_images_taken', 0) + int((np.abs(nf).any(1) & df).sum())
        for bref in ('final', 'initial'):
            d = _guard(lambda: am.displacement(s0, s1f, box_reference=bref))
            if isinstance(d, _Raised):
                fail('displacement:raises', f'displacement(box_reference={bref!r}) raised {d.text}')
                continue
            k = bad(d, ef, max(tol, 1e-12), df)
            if k is not None:
                fail('displacement:fractional', f'displacement(box_reference={bref!r}) of atom {k} is {d[k].tolist() if k >= 0 else d.shape}; '
                     f'imposed displacement {uf[max(k, 0)].tolist()} = {ff[max(k, 0)].tolist()} in box-relative components (all below 1/2), its '
                     f'shortest periodic image is {ef[max(k, 0)].tolist()} ({name} {size}, box {np.round(V, 6).tolist()}, pbc {list(pb)}'
                     f'{", atoms moved by box vectors" if wr_ else ", system_1 not wrapped"})', k, fractional=ff[max(k, 0)].tolist(),
                     wrapped_variant=wr_)
                break
    if it % 2 == 0:
        # options and refusals of displacement(); fresh results
        d = _guard(lambda: am.displacement(s0, s1, box_reference=None))
        if isinstance(d, _Raised) or d.shape != (n, 3) or (d != s1.atoms.pos - s0.atoms.pos).any():
            fail('displacement:none', f'displacement(box_reference=None) is not the plain difference of the positions: '
                 f'{d.text if isinstance(d, _Raised) else "values differ"}')
        for bad_ in ('Final', 'both', '', 0, False, 'none'):
            d = _guard(lambda: am.displacement(s0, s1, box_reference=bad_))
            if not isinstance(d, _Raised) or not d.text.startswith('ValueError'):
                fail('displacement:refusal', f'displacement(box_reference={bad_!r}): expected the documented ValueError, got '
                     f'{d.text if isinstance(d, _Raised) else "values"}', box_reference=repr(bad_))
        short = am.System(atoms=am.Atoms(atype=1, pos=s1.atoms.pos[:-1].copy()), box=s1.box, pbc=sc['pbc'])
        for nm_, f_, cls_ in (('displacement', lambda: am.displacement(s0, short), 'ValueError'),
                              ('slip_vector', lambda: am.defect.slip_vector(s0, short, neighbors=nl0), 'ValueError'),
                              ('DifferentialDisplacement', lambda: am.defect.DifferentialDisplacement(s0, short, neighbors=nl0, reference=0), 'AssertionError')):
            d = _guard(f_)
            if not isinstance(d, _Raised) or not d.text.startswith(cls_):
                fail('natoms:refusal', f'{nm_} with systems of {n} and {n - 1} atoms: expected {cls_}, got '
                     f'{d.text if isinstance(d, _Raised) else "a result"}')
        for nm_, f_ in (('displacement', lambda: am.displacement(s0, s1)), ('slip_vector', lambda: am.defect.slip_vector(s0, s1, neighbors=nl0))):
            a1 = _guard(f_)
            if isinstance(a1, _Raised):
                continue
            keep_ = a1.copy()
            a1[:] = 7.25
            a2 = _guard(f_)
            if isinstance(a2, _Raised) or np.shares_memory(a1, a2) or not np.array_equal(a2, keep_, equal_nan=True):
                fail('result-not-fresh', f'{nm_}: overwriting a returned array changes what the next call returns')
    # slip vector -----------------------------------------------------------------------------
    s1c = _inbox(s1, np)              # (the representation handed to the cutoff= paths: atoms inside the cell)
    natural = natural and s1c is not None
    dec_slip_c, dec_dd_c, exp_slip_c, exp_dd_c = dec_slip, dec_dd, exp_slip, exp_dd
    if natural and not sc['stable'] and s1c is not s1:
        # (the in-cell representation handed to the cutoff= paths: its own nearest-image decisions)
        Ic_, _, exp_dd_c, dec_dd_c = _expect_pairs(s0, s1c, (V, pb), nl0, np)
        exp_slip_c = np.zeros((n, 3))
        np.subtract.at(exp_slip_c, Ic_, exp_dd_c)
        dec_slip_c = np.ones(n, dtype=bool)
        np.logical_and.at(dec_slip_c, Ic_, dec_dd_c)
    for how, kw in (('neighbors=', {'neighbors': nl0}),) + ((('cutoff=', {'cutoff': cut}),) if natural else ()):
        sv = _guard(lambda: am.defect.slip_vector(s0, s1 if 'neighbors' in kw else s1c, **kw))
        if isinstance(sv, _Raised):
            fail('slip_vector:raises', f'slip_vector({how}) raised {sv.text} (coordination {int(coordn.min())}..{int(coordn.max())})')
            continue
        k = bad(sv, exp_slip if 'neighbors' in kw else exp_slip_c, tol * 20, dec_slip if 'neighbors' in kw else dec_slip_c)
        if k is not None:
            fail('slip_vector', f'slip_vector({how}) of atom {k} is {sv[k].tolist() if k >= 0 else sv.shape}, expected '
                 f'{int(across[max(k, 0)])} neighbours across x (own - other half displacement {rel[max(k, 0)].tolist()}) = '
                 f'{(exp_slip if "neighbors" in kw else exp_slip_c)[max(k, 0)].tolist()} ({int(coordn[max(k, 0)])} neighbours in the list)', k)
    if natural and a == 4.0 and name.split('/')[0] in ('fcc', 'L12') and abs(cut - 3.4) < 1e-9:
        # the cutoff as a whole number in every spelling (python int, whole-number float, numpy int64 / float32): 3 lies between
        # the first (2.83) and the second (4.0) shell of this crystal, like the 3.4 used above
        ctx.stats.case('oracle:cutoff-forms', canon)
        ref_ = _guard(lambda: am.defect.slip_vector(s0, s1c, cutoff=cut))
        for cv in (3, 3.0, np.int64(3), np.float32(3.0), np.float64(3.0)):
            sv = _guard(lambda: am.defect.slip_vector(s0, s1c, cutoff=cv))
            ddc = _guard(lambda: am.defect.DifferentialDisplacement(s0, s1c, cutoff=cv, reference=0).ddvectors)
            if isinstance(sv, _Raised) or isinstance(ref_, _Raised) or sv.shape != ref_.shape or not np.array_equal(sv, ref_):
                fail('cutoff-forms', f'slip_vector(cutoff={cv!r} [{type(cv).__name__}]) {"raised " + sv.text if isinstance(sv, _Raised) else "differs"} '
                     f'from slip_vector(cutoff={cut}); both cutoffs select the first shell (a = {a})', cutoff_form=repr(cv))
                break
            if isinstance(ddc, _Raised) or ddc.shape != exp_dd_c.shape:
                fail('cutoff-forms', f'DifferentialDisplacement(cutoff={cv!r} [{type(cv).__name__}], reference=0): '
                     f'{ddc.text if isinstance(ddc, _Raised) else str(len(ddc)) + " pair vectors"}, the first shell has {len(exp_dd_c)} pairs',
                     cutoff_form=repr(cv))
                break
    # differential displacement ---------------------------------------------------------------
    for how, kw in (('neighbors=', {'neighbors': nl0}),) + ((('cutoff=', {'cutoff': cut}),) if natural else ()):
        dd = _guard(lambda: am.defect.DifferentialDisplacement(s0, s1 if 'neighbors' in kw else s1c, reference=0, **kw).ddvectors)
        if isinstance(dd, _Raised):
            fail('ddvectors:raises', f'DifferentialDisplacement({how}, reference=0) raised {dd.text}')
            continue
        if dd.shape != exp_dd.shape:
            fail('ddvectors', f'DifferentialDisplacement({how}, reference=0): {len(dd)} pair vectors, the reference '
                 f'neighbour list has {len(exp_dd)} pairs')
            continue
        k = bad(dd, exp_dd if 'neighbors' in kw else exp_dd_c, tol * 2, dec_dd if 'neighbors' in kw else dec_dd_c)
        if k is not None:
            fail('ddvectors', f'DifferentialDisplacement({how}, reference=0).ddvectors[{k}] (pair {int(I[k])}-{int(J[k])}, atom '
                 f'{int(I[k])} has {int(coordn[I[k]])} neighbour(s)) = {dd[k].tolist()}, difference of the imposed displacements '
                 f'{(exp_dd if "neighbors" in kw else exp_dd_c)[k].tolist()}', pair=k)
    if it % 6 == 0 and sc['stable']:
        _search_ddplot(ctx, s0, s1, nl0, exp_dd, tol, base, np, am)
    if it % 3 == 2:
        # the two systems with different periodicity flags and different cells: every separation with its own system's
        p2 = list(sc['pbc'])
        kf = rng.randrange(3)
        p2[kf] = not p2[kf]
        s1q = _system(s0, s1.atoms.pos, pbc=tuple(p2))
        e1, ns1, dc1 = _mi(V, p2, s1.atoms.pos - s0.atoms.pos, np)
        dc1 &= (np.abs(ns1) <= 1).all(1)
        d = _guard(lambda: am.displacement(s0, s1q))
        k = -2 if isinstance(d, _Raised) else bad(d, e1, max(tol, 1e-12), dc1)
        if k is not None:
            fail('displacement:pbc', f'displacement(final) with system_1.pbc = {p2}, system_0.pbc = {list(pb)}: '
                 f'{d.text if k == -2 else d[k].tolist()} for atom {k}, expected (system_1 flags) {e1[max(k, 0)].tolist()}', k, pbc1=p2)
        d = _guard(lambda: am.displacement(s0, s1q, box_reference='initial'))
        k = -2 if isinstance(d, _Raised) else bad(d, mi_disp, max(tol, 1e-12), mi_dec)
        if k is not None:
            fail('displacement:pbc', f"displacement(box_reference='initial') with system_1.pbc = {p2}, system_0.pbc = {list(pb)}: "
                 f'{d.text if k == -2 else d[k].tolist()} for atom {k}, expected (system_0 flags) {mi_disp[max(k, 0)].tolist()}',
                 k, pbc1=p2)
        # slip vector: the reference system's periodicity applies to both separations (the list, the box and the
        # flags are system_0's), so the rigid-slip value does not depend on the flags system_1 carries
        sv = _guard(lambda: am.defect.slip_vector(s0, s1q, neighbors=nl0))
        k = -2 if isinstance(sv, _Raised) else bad(sv, exp_slip, max(tol * 20, 1e-12), dec_slip)
        if k is not None:
            fail('slip_vector:pbc', f'slip_vector with system_1.pbc = {p2}, system_0.pbc = {list(pb)}: '
                 f'{sv.text if k == -2 else (sv[k].tolist() if k >= 0 else sv.shape)} for atom {k}, expected {int(across[max(k, 0)])} '
                 f'neighbours across x {rel[max(k, 0)].tolist()} = {exp_slip[max(k, 0)].tolist()} as with equal flags', k, pbc1=p2)
        I2, J2, dd2, dc2 = _expect_pairs(s0, s1q, (V, tuple(p2)), nl0, np)
        dd = _guard(lambda: am.defect.DifferentialDisplacement(s0, s1q, neighbors=nl0, reference=0).ddvectors)
        k = -2 if isinstance(dd, _Raised) else bad(dd, dd2, max(tol * 2, 1e-12), dc2)
        if k is not None:
            fail('ddvectors:pbc', f'DifferentialDisplacement with system_1.pbc = {p2}, system_0.pbc = {list(pb)}: '
                 f'{dd.text if k == -2 else (dd[k].tolist() if k >= 0 else dd.shape)}, expected each separation under its own '
                 f"system's flags: {dd2[max(k, 0)].tolist()}", pair=k, pbc1=p2)
    # disregistry -------------------------------------------------------------------------------
    ax = sc['axis']
    mdir = rng.choice([k for k in range(3) if k != ax])
    m = [0.0] * 3
    nn = [0.0] * 3
    planepos = [0.0] * 3
    m[mdir], nn[ax], planepos[ax] = 1.0, 1.0, sc['mid']
    if it % 2 == 1:
        for k_ in range(3):           # (any point of the slip plane defines it)
            if k_ != ax:
                planepos[k_] = rng.randint(-64, 64) / 4
    lv = _levels(s0.atoms.pos[:, ax])
    above = min(v for v in lv if v > sc['mid'])
    below = max(v for v in lv if v < sc['mid'])
    adj = (np.abs(s0.atoms.pos[:, ax] - above) < 1e-6) | (np.abs(s0.atoms.pos[:, ax] - below) < 1e-6)
    exp_coord = _levels(s0.atoms.pos[adj, mdir], 1e-7)
    form = it % 4        # (m, n, planepos as float lists / integer lists and a tuple / arrays (one read-only) / float32, numpy scalars)
    fm, fn, fp = (m, nn, planepos) if form == 0 else ([int(x) for x in m], tuple(int(x) for x in nn), tuple(planepos)) if form == 1 \
        else (np.array(m), np.array(nn, dtype='int64'), np.array(planepos)) if form == 2 \
        else (np.array(m, dtype='float32'), [np.float64(x) for x in nn], [np.float64(x) for x in planepos])
    if form == 2:
        fp.flags.writeable = False
    try:
        coord, dis = am.defect.disregistry(s0, s1, m=fm, n=fn, planepos=fp)
    except Exception as e:   # noqa
        fail('disregistry', f'disregistry raised {type(e).__name__}: {e} for a plane position between two atomic planes '
             f'(m, n, planepos given as {type(fm).__name__}/{type(fn).__name__}/{type(fp).__name__})',
             m=m, n=nn, planepos=planepos)
        coord = None
    if coord is not None:
        # above minus below, each half's displacement taken through the periodic boundaries (= the slip itself
        # whenever both lie inside the Wigner-Seitz cell)
        ia = int(np.where(adj & side)[0][0])
        ib = int(np.where(adj & ~side)[0][0])
        want = exp_disp[ia] - exp_disp[ib]
        if len(coord) < len(exp_coord) or dis.shape != (len(coord), 3):
            fail('disregistry', f'disregistry returns {len(coord)} coordinates, the adjoining planes have {len(exp_coord)} columns',
                 m=m, n=nn, planepos=planepos)
            coord = None
        elif dec_disp[adj].all():
            k = _bad(dis, np.tile(want, (len(coord), 1)), tol * 2)
            if k is not None:
                fail('disregistry', f'disregistry at coordinate {coord[k]} is {dis[k].tolist()}, the imposed slip '
                     f'(upper - lower half, through the periodic boundaries) is {want.tolist()}', m=m, n=nn, planepos=planepos)
    if coord is not None and sc['stable'] and it % 2 == 0:
        # the profile is built from PER-COLUMN MEANS: a perturbation whose mean over every atomic column (same plane,
        # same coordinate along m) vanishes must leave the disregistry of the rigid slip unchanged
        third = [k_ for k_ in range(3) if k_ not in (ax, mdir)][0]
        keys = np.round(np.stack([s0.atoms.pos[:, ax], s0.atoms.pos[:, mdir]], axis=1) / 1e-5).astype(np.int64)
        _, grp = np.unique(keys, axis=0, return_inverse=True)
        grp = np.asarray(grp).ravel()
        pert = np.array([[rng.uniform(-1, 1) for _ in range(3)] for _ in range(n)]) * 0.02 * a
        cnt = np.bincount(grp)
        if cnt.max() > 1:
            for c_ in range(3):
                pert[:, c_] -= (np.bincount(grp, weights=pert[:, c_]) / cnt)[grp]
            s2 = _system(s0, s1.atoms.pos + pert, pbc=sc['pbc'])
            # exact expectation: per column the mean (Fractions) of the displacements actually imposed
            dexp = s2.atoms.pos - s1.atoms.pos + exp_disp
            worst = 0.0
            for g_ in np.unique(grp[adj]):
                idx_ = np.where(grp == g_)[0]
                mean_ = [sum(Fraction(float(dexp[i_, c_])) for i_ in idx_) / len(idx_) for c_ in range(3)]
                ref_ = exp_disp[idx_[0]]
                worst = max(worst, max(abs(float(mean_[c_]) - ref_[c_]) for c_ in range(3)))
            ctx.stats.case('oracle:disreg-columns', canon)
            if worst < 1e-12:
                try:
                    c3, d3 = am.defect.disregistry(s0, s2, m=m, n=nn, planepos=planepos)
                    want = exp_disp[int(np.where(adj & side)[0][0])] - exp_disp[int(np.where(adj & ~side)[0][0])]
                    k = _bad(d3, np.tile(want, (len(c3), 1)), 1e-9 * L) if d3.shape == (len(c3), 3) else 0
                    if k is not None:
                        fail('disregistry:column-mean', f'rigid slip {want.tolist()} plus a perturbation with zero mean over every atomic '
                             f'column ({int(cnt.max())} atoms per column): disregistry at coordinate {c3[k]} is {d3[k].tolist()}, '
                             f'the per-column means give {want.tolist()}', m=m, n=nn, planepos=planepos, perturbation=pert.tolist())
                except Exception as e:   # noqa
                    fail('disregistry:column-mean', f'disregistry raised {type(e).__name__}: {e}', m=m, n=nn, planepos=planepos)
    # invariance: joint translation -------------------------------------------------------------
    # (entries whose nearest image is not decided by a margin are left out: rounding may pick the other image)
    tolt = 1e-9 * L
    masks = {'displacement': dec_disp, 'slip_vector': dec_slip, 'ddvectors': dec_dd}
    if coord is not None and (len(coord) < 1 or (np.diff(coord) <= 0).any()):
        fail('disregistry:coord', f'disregistry: the coordinates returned are not strictly increasing unique values: {coord.tolist()[:12]}',
             m=m, n=nn, planepos=planepos)
    # small and LARGE common translations (1e2 .. 1e6, along the normal, in plane, all directions)
    t = np.array([rng.randint(-40, 40) / 8 for _ in range(3)])
    tclass = rng.choice(['small', 'normal', 'inplane', 'all', 'all'])
    if tclass != 'small':
        mags = [2.0 ** 7, 2.0 ** 10, 2.0 ** 13, 2.0 ** 17, 2.0 ** 20] if dyadic else [1e2, 1e3, 1e4, 1e5, 1e6]
        for k_ in range(3):
            if tclass == 'all' or (tclass == 'normal') == (k_ == ax):
                t[k_] += rng.choice([1, -1]) * rng.choice(mags)
    tbig = float(np.abs(t).max())
    tolt = tolt + 200 * 2.3e-16 * tbig
    ctx.extra['translation_max'] = max(ctx.extra.get('translation_max', 0.0), tbig)
    snap = (s0.atoms.pos.tobytes(), s1.atoms.pos.tobytes(), s0.box.vects.tobytes())
    s0t = _system(s0, s0.atoms.pos + t, origin=s0.box.origin + t, pbc=sc['pbc'])
    s1t = _system(s0t, s1.atoms.pos + t, pbc=sc['pbc'])
    try:
        res0 = (am.displacement(s0, s1), am.defect.slip_vector(s0, s1, neighbors=nl0),
                am.defect.DifferentialDisplacement(s0, s1, neighbors=nl0, reference=0).ddvectors)
        rest = (am.displacement(s0t, s1t), am.defect.slip_vector(s0t, s1t, neighbors=nl0),
                am.defect.DifferentialDisplacement(s0t, s1t, neighbors=nl0, reference=0).ddvectors)
    except Exception as e:   # noqa
        fail('translation:raises', f'{type(e).__name__}: {e} when both systems are translated by {t.tolist()}',
             translation=t.tolist())
        return
    for nm, x, y in zip(('displacement', 'slip_vector', 'ddvectors'), res0, rest):
        mk = masks[nm]
        if x.shape != y.shape or len(mk) != len(x):
            fail('translation:' + nm, f'{nm}: result shape changes from {x.shape} to {y.shape} under a joint translation',
                 translation=t.tolist())
        elif mk.any() and np.abs(x - y)[mk].max() > tolt * 20:
            fail('translation:' + nm, f'{nm} changes by {np.abs(x - y)[mk].max():.3e} when both systems (and the box) are '
                 f'translated by {t.tolist()}', translation=t.tolist())
    if snap != (s0.atoms.pos.tobytes(), s1.atoms.pos.tobytes(), s0.box.vects.tobytes()):
        fail('inputs-modified', 'displacement / slip_vector / DifferentialDisplacement / disregistry changed the positions or the box of a '
             'system handed to them')
    if coord is not None and dec_disp[adj].all():
        # disregistry groups atoms into planes with numpy.isclose (relative tolerance 1e-5 of the coordinate along n):
        # the sweep along the normal goes up to where that tolerance reaches 1/8 of the smallest plane spacing
        # (beyond: candidate `disregistry:isclose-far-origin`, see docs), in plane up to 1e6
        gap = float(np.diff(np.asarray(lv)).min())
        ymax = float(np.abs(s0.atoms.pos[:, ax]).max())
        bound = gap / 8e-5 - ymax
        td = np.array([rng.randint(-40, 40) / 8 for _ in range(3)])
        fr_ = rng.choice([0.01, 0.12, 0.5, 0.95])
        tn = fr_ * bound
        if dyadic:
            tn = 2.0 ** math.floor(math.log2(tn)) if tn >= 1 else 0.0
        else:
            tn = round(tn, 2)
        td[ax] += rng.choice([1, -1]) * tn
        for k_ in range(3):
            if k_ != ax and rng.random() < 0.5:
                td[k_] += rng.choice([1, -1]) * rng.choice([2.0 ** 7, 2.0 ** 13, 2.0 ** 20] if dyadic else [1e2, 1e4, 1e6])
        for tt in ((t, td) if tbig + ymax <= gap / 8e-5 else (td,)):
            s0d = _system(s0, s0.atoms.pos + tt, origin=s0.box.origin + tt, pbc=sc['pbc'])
            s1d = _system(s0d, s1.atoms.pos + tt, pbc=sc['pbc'])
            pp = (np.array(planepos) + tt).tolist()
            told = 2e-9 * L + 400 * 2.3e-16 * float(np.abs(tt).max())
            ctx.stats.case('oracle:disreg-translated', canon + (tuple(tt),))
            ctx.extra['disreg_translation_max_normal'] = max(ctx.extra.get('disreg_translation_max_normal', 0.0), abs(float(tt[ax])))
            try:
                c2, d2 = am.defect.disregistry(s0d, s1d, m=m, n=nn, planepos=pp)
                if not _same_profile(coord + tt[mdir], dis, c2, d2, told, np):
                    kk = int(np.abs(d2 - dis[0]).max(1).argmax()) if len(d2) else 0
                    fail('translation:disregistry', f'disregistry changes when both systems, the box and planepos are translated by '
                         f'{tt.tolist()}: at coordinate {c2[kk] if len(c2) else None} it is {d2[kk].tolist() if len(d2) else None}, untranslated '
                         f'{dis[0].tolist()} = the imposed slip (plane spacing {gap:.4f}, {len(lv)} planes)', translation=tt.tolist())
            except Exception as e:   # noqa
                fail('translation:disregistry', f'disregistry raised {type(e).__name__}: {e} after a joint translation by {tt.tolist()}',
                     translation=tt.tolist())
    # history on the SAME objects: the current system is edited in place between two calls (no result may be remembered by
    # object identity); the second call is compared with the call on freshly built systems -------------------------------
    if it % 2 == 1 and sc['stable']:
        du2 = np.where(side[:, None], 0.5 * sc['uA'] + 0.125 * (sc['uA'] != 0), sc['uB'] * 0.5)
        s1m = _system(s0, s1.atoms.pos.copy(), pbc=sc['pbc'])
        fresh2 = _system(s0, s0.atoms.pos + du2, pbc=sc['pbc'])
        calls = [('displacement', lambda a_, b_: am.displacement(a_, b_)),
                 ('slip_vector', lambda a_, b_: am.defect.slip_vector(a_, b_, neighbors=nl0)),
                 ('DifferentialDisplacement', lambda a_, b_: am.defect.DifferentialDisplacement(a_, b_, neighbors=nl0, reference=0).ddvectors)]
        if coord is not None:
            calls.append(('disregistry', lambda a_, b_: np.hstack([x_.reshape(len(x_), -1) for x_ in
                                                                 am.defect.disregistry(a_, b_, m=m, n=nn, planepos=planepos)])))
        first = [_guard(lambda: f_(s0, s1m)) for _, f_ in calls]
        s1m.atoms.pos[:] = fresh2.atoms.pos
        for (nm_, f_), r1_ in zip(calls, first):
            r2_ = _guard(lambda: f_(s0, s1m))
            rf_ = _guard(lambda: f_(s0, fresh2))
            if isinstance(r2_, _Raised) or isinstance(rf_, _Raised):
                if isinstance(r2_, _Raised) != isinstance(rf_, _Raised):
                    fail('history:' + nm_, f'{nm_} after an in-place edit of system_1: {r2_.text if isinstance(r2_, _Raised) else "values"}, on '
                         f'fresh systems {rf_.text if isinstance(rf_, _Raised) else "values"}')
            elif r2_.shape != rf_.shape or not np.array_equal(r2_, rf_):
                fail('history:' + nm_, f'{nm_}(system_0, system_1) called again after system_1.atoms.pos was edited in place returns '
                     f'{"the values of the FIRST call" if not isinstance(r1_, _Raised) and r1_.shape == r2_.shape and np.array_equal(r1_, r2_) else "other values"}'
                     f', not those of the current positions (max difference {np.abs(r2_ - rf_).max() if r2_.shape == rf_.shape else "shape"})')
    # the same configuration in a generically ROTATED frame (box, positions, m, n, planepos rotated together; the normal also
    # reversed: the profile is that of the half on the +n side minus the other) -------------------------------------------
    _, Rm = _rand_axes(random.Random(caseseed * 3 + it), np)
    if np.abs(Rm - np.identity(3)).max() < 1e-9:
        Rm = np.array([[0.0, -1.0, 0.0], [0.6, 0.0, 0.8], [-0.8, 0.0, 0.6]])
    rows_ = [0, 1, 2]
    if random.Random(caseseed * 5 + it).random() < 0.5:
        # ... or with the Cartesian axes permuted / reflected and the box vectors in another order (cells whose zero
        # entries sit above the diagonal, left-handed cells)
        Rm, rows_ = _perm_frame(random.Random(caseseed * 7 + it), np)
        ctx.extra['slip_permuted_frames'] = ctx.extra.get('slip_permuted_frames', 0) + 1
    s0r = _reframed(s0, Rm, rows_, np, pbc=sc['pbc'])
    s1r = _system(s0r, s1.atoms.pos @ Rm.T, pbc=s0r.pbc)
    ctx.stats.case('oracle:rotated-frame', canon + (tuple(Rm.ravel()), tuple(rows_)))
    resr = _guard(lambda: (am.displacement(s0r, s1r), am.defect.slip_vector(s0r, s1r, neighbors=nl0),
                           am.defect.DifferentialDisplacement(s0r, s1r, neighbors=nl0, reference=0).ddvectors))
    if isinstance(resr, _Raised):
        fail('rotated:raises', f'{resr.text} with both systems rotated by {Rm.tolist()}, box vectors in the order {rows_}', rotation=Rm.tolist())
    else:
        for nm, x, y in zip(('displacement', 'slip_vector', 'ddvectors'), res0, resr):
            mk = masks[nm]
            if x.shape != y.shape or (mk.any() and np.abs(y - x @ Rm.T)[mk].max() > 40e-9 * L):
                fail('rotated:' + nm, f'{nm} of the rotated pair of systems is not the rotated {nm} (rotation {Rm.tolist()}, box '
                     f'vectors in the order {rows_}: cell {np.round(s0r.box.vects, 6).tolist()}, pbc {[bool(x) for x in s0r.pbc]})', rotation=Rm.tolist())
    if coord is not None and dec_disp[adj].all():
        sgn = rng.choice([1.0, -1.0])
        mr, nr = (Rm @ np.array(m)).tolist(), (sgn * (Rm @ np.array(nn))).tolist()
        ppr = (Rm @ np.array(planepos)).tolist()
        try:
            c2, d2 = am.defect.disregistry(s0r, s1r, m=mr, n=nr, planepos=ppr)
            if not _same_profile(coord, sgn * dis @ Rm.T, c2, d2, 4e-9 * L, np):
                fail('rotated:disregistry', f'disregistry in a rotated frame (m = {mr}, n = {nr}{", normal reversed" if sgn < 0 else ""}, planepos = {ppr}) '
                     f'is {d2[0].tolist() if len(d2) else None} at coordinate {c2[0] if len(c2) else None}; expected the '
                     f'{"negative of the " if sgn < 0 else ""}rotated slip {(sgn * dis[0] @ Rm.T).tolist()}', rotation=Rm.tolist(), m=mr, n=nr,
                     planepos=ppr)
        except Exception as e:   # noqa
            fail('rotated:disregistry', f'disregistry raised {type(e).__name__}: {e} in a rotated frame (m = {mr}, n = {nr})',
                 rotation=Rm.tolist(), m=mr, n=nr, planepos=ppr)
    # power-of-two length scales: every result scales with the lengths (no absolute length hidden in the code) ----------
    kexp = rng.choice([-300, -100, -16, -8, 8, 16, 100, 300])
    fsc = 2.0 ** kexp
    try:
        s0s = _system(s0, s0.atoms.pos * fsc, vects=s0.box.vects * fsc, origin=s0.box.origin * fsc, pbc=sc['pbc'])
        s1s = _system(s0s, s1.atoms.pos * fsc, pbc=sc['pbc'])
    except Exception as e:   # noqa  (building boxes at this scale is not this property's subject)
        s0s = None
        ctx.extra['scale_not_constructible'] = ctx.extra.get('scale_not_constructible', 0) + 1
    if s0s is not None:
        ctx.stats.case('oracle:scaled', canon + (kexp,))
        ress = _guard(lambda: (am.displacement(s0s, s1s), am.defect.slip_vector(s0s, s1s, neighbors=nl0),
                               am.defect.DifferentialDisplacement(s0s, s1s, neighbors=nl0, reference=0).ddvectors))
        if isinstance(ress, _Raised):
            fail('scale:raises', f'{ress.text} when all lengths are multiplied by 2**{kexp}', scale_exponent=kexp)
        else:
            for nm, x, y in zip(('displacement', 'slip_vector', 'ddvectors'), res0, ress):
                mk = masks[nm]
                if x.shape != y.shape:
                    fail('scale:' + nm, f'{nm}: shape changes from {x.shape} to {y.shape} when all lengths are multiplied by 2**{kexp}',
                         scale_exponent=kexp)
                elif mk.any() and (not np.isfinite(y[mk]).all() or np.abs(y / fsc - x)[mk].max() > 1e-12 * L):
                    kk = int(np.where(mk[:, None], np.abs(y / fsc - x), 0).max(1).argmax())
                    fail('scale:' + nm, f'{nm}[{kk}] = {y[kk].tolist()} after all lengths were multiplied by 2**{kexp}; '
                         f'2**{kexp} x the unscaled result {x[kk].tolist()} expected', scale_exponent=kexp)
        if coord is not None and dec_disp[adj].all() and -16 <= kexp <= 16:
            # (numpy.isclose's absolute tolerance 1e-8 is what groups a plane lying at coordinate ~0 +- rounding noise, and what
            #  merges everything once plane spacings fall below ~1e-8: outside 2**-16 .. 2**16 the grouping of the unchanged
            #  code changes: candidates `disregistry:isclose-small-lengths` / `disregistry:isclose-plane-at-zero`, see docs)
            try:
                c2, d2 = am.defect.disregistry(s0s, s1s, m=m, n=nn, planepos=(np.array(planepos) * fsc).tolist())
                if not _same_profile(coord, dis, c2 / fsc, d2 / fsc, 2e-9 * L, np):
                    fail('scale:disregistry', f'disregistry does not scale with the lengths (all lengths multiplied by 2**{kexp})',
                         scale_exponent=kexp)
            except Exception as e:   # noqa
                fail('scale:disregistry', f'disregistry raised {type(e).__name__}: {e} after all lengths were multiplied by 2**{kexp}',
                     scale_exponent=kexp)
    # invariance: consistent renumbering ------------------------------------------------------
    perm = list(range(n))
    rng.shuffle(perm)                 # new index of old atom i is perm[i]
    inv = np.argsort(perm)            # old index of new atom k
    s0p = _system(s0, s0.atoms.pos[inv], pbc=sc['pbc'])
    s0p.atoms.atype = s0.atoms.atype[inv]
    s1p = _system(s0p, s1.atoms.pos[inv], pbc=sc['pbc'])
    # the same list, renumbered
    nlp = _mk_nlist(am, s0p, [[int(perm[j]) for j in nl0[int(inv[knew])]] for knew in range(n)])
    try:
        dp = am.displacement(s0p, s1p)
        svp = am.defect.slip_vector(s0p, s1p, neighbors=nlp)
        ddp = am.defect.DifferentialDisplacement(s0p, s1p, neighbors=nlp, reference=0).ddvectors
    except Exception as e:   # noqa
        fail('renumbering:raises', f'{type(e).__name__}: {e} after a consistent renumbering', perm=perm)
        return
    d0, sv0, dd0 = res0
    if dec_disp.any() and np.abs(dp[perm] - d0)[dec_disp].max() > tolt:
        fail('renumbering:displacement', 'displacement is not carried along with a consistent renumbering of both systems',
             perm=perm)
    if dec_slip.any() and np.abs(svp[perm] - sv0)[dec_slip].max() > tolt * 20:
        k = int(np.where(dec_slip[:, None], np.abs(svp[perm] - sv0), 0).max(1).argmax())
        fail('renumbering:slip_vector', f'slip vector of atom {k} changes from {sv0[k].tolist()} to {svp[perm[k]].tolist()} '
             f'under a consistent renumbering', k, perm=perm)
    mp = {}
    r = 0
    for knew in range(n):
        for j in nlp[knew]:
            mp[(int(inv[knew]), int(inv[j]))] = ddp[r] if r < len(ddp) else None
            r += 1
    r = 0
    worst = 0.0
    for i in range(n):
        for j in nl0[i]:
            v = mp.get((i, int(j)))
            if r < len(dec_dd) and dec_dd[r]:
                worst = max(worst, float('inf') if v is None or r >= len(dd0) else float(np.abs(v - dd0[r]).max()))
            r += 1
    if worst > tolt * 2:
        fail('renumbering:ddvectors', f'differential displacement of a pair changes by {worst:.3e} under a consistent renumbering',
             perm=perm)
    if coord is not None and dec_disp[adj].all():
        try:
            c2, d2 = am.defect.disregistry(s0p, s1p, m=m, n=nn, planepos=planepos)
            if not _same_profile(coord, dis, c2, d2, tolt * 2, np):
                fail('renumbering:disregistry', 'disregistry changes under a consistent renumbering', perm=perm)
        except Exception as e:   # noqa
            fail('renumbering:disregistry', f'disregistry raised {type(e).__name__}: {e} after renumbering', perm=perm)


def _search_ddplot(ctx, s0, s1, nl0, exp_dd, tol, base, np, am):
    """the function form (differential_displacement.py) returns the same vectors through return_data."""
    import matplotlib
    matplotlib.use('Agg')
    import matplotlib.pyplot as plt
    big = float(np.abs(s0.box.vects).sum() + np.abs(s0.atoms.pos).max() + 10)
    # (returned vectors are expressed in the plotting frame x, y, x x y: every choice of plotting axes must give the
    #  same vectors, rotated)
    r2 = math.sqrt(0.5)
    frames = [('x', 'y'), ('y', 'z'), ('z', 'x'), ([r2, r2, 0.0], [-r2, r2, 0.0]), ([0.6, 0.0, 0.8], [0.0, 1.0, 0.0]),
              ([0.0, 0.0, 2.0], [3.0, 0.0, 0.0])]
    unit = {'x': [1.0, 0.0, 0.0], 'y': [0.0, 1.0, 0.0], 'z': [0.0, 0.0, 1.0]}
    pick = random.Random(base['caseseed'] + 11)
    exp_dd0 = exp_dd
    for kw in ({}, {'atom_color': 'b'}, {'frame': pick.choice(frames[1:])}, {'frame': pick.choice(frames[1:]), 'display_final_pos': True}):
        kw = dict(kw)
        fr = kw.pop('frame', None)
        exp_dd = exp_dd0
        if fr is not None:
            kw['plotxaxis'], kw['plotyaxis'] = fr
            ex_ = np.array(unit.get(fr[0], fr[0]) if isinstance(fr[0], str) else fr[0], dtype=float)
            ey_ = np.array(unit.get(fr[1], fr[1]) if isinstance(fr[1], str) else fr[1], dtype=float)
            ex_, ey_ = ex_ / np.linalg.norm(ex_), ey_ / np.linalg.norm(ey_)
            exp_dd = exp_dd0 @ np.array([ex_, ey_, np.cross(ex_, ey_)]).T
        try:
            res = am.defect.differential_displacement(s0, s1, [1.0, 0.0, 0.0], neighbors=nl0, return_data=True,
                                                      xlim=(-big, big), ylim=(-big, big), zlim=(-big, big), **kw)
            data = res[1] if isinstance(res, tuple) else res
            v = np.asarray(data['vectors'])
        except Exception as e:   # noqa
            ctx.violate('differential_displacement:raises',
                        f'differential_displacement({"default colours" if not kw else kw}) raised {type(e).__name__}: {e}',
                        dict(base, call=str(kw)))
            continue
        finally:
            plt.close('all')
        ctx.stats.case('oracle:ddplot', (base['caseseed'], str(kw)))
        if v.shape != exp_dd.shape:
            ctx.violate('differential_displacement', f'differential_displacement returns {len(v)} vectors for {len(exp_dd)} pairs',
                        dict(base, call=str(kw)))
        else:
            k = _bad(v, exp_dd, tol * 2 + (1e-12 if fr is not None else 0.0))
            if k is not None:
                ctx.violate('differential_displacement', f'differential_displacement({kw}) vector {k} = {v[k].tolist()}, difference of '
                            f'imposed displacements (in the plotting frame) {exp_dd[k].tolist()}', dict(base, call=str(kw), pair=k))


def _search_homog(ctx, caseseed, it, reps=4):
    """homogeneous deformation gradient F: G = F^-T at every atom, strain / rotation / invariants from it, Nye = 0,
    displacement = (F - I) x; invariance under translation and renumbering."""
    rng = random.Random(caseseed)
    # (every sixth reference is bcc-like and analysed as a free block: edge / corner atoms with 2 / 1 neighbours)
    block = it % 6 == 5
    # (every third reference is held in an ORTHOGONAL cell, not re-described: besides the usual deformations it is put under
    #  the six shears with a SINGLE off-diagonal entry of F and a lower / an upper triangular F: the deformed cells
    #  vects.F^T then carry their only tilt entries in each of the six positions, above as well as below the diagonal)
    ortho = it % 3 == 1 and not block
    if ortho:
        ref = _reference(rng, rng.choice(['fcc', 'bcc', 'L12', 'B2', 'fcc-bct']), False, shear=False)
    else:
        ref = _reference(rng, rng.choice(['bcc', 'B2', 'bcc']) if block else None, False)
    s0, name, a, shells, size = ref
    nl0 = s0.neighborlist(cutoff=shells[0][0] * a)
    for rep in range(reps):
        _search_homog_one(ctx, rng, ref, nl0, caseseed, it, it * reps + rep, block and rep % 2 == 1, reframe=not ortho)
    if ortho:
        for w in range(8):
            _search_homog_one(ctx, rng, ref, nl0, caseseed, it, 4 * (it * 8 + w) + rng.choice([0, 0, 1, 2]), False,
                              kind=('single' if w < 6 else 'lower' if w == 6 else 'upper'), where=w, reframe=False)


def _search_homog_one(ctx, rng, ref, nl0, caseseed, it0, it, block=False, kind=None, where=None, reframe=True):
    np = _np()
    import atomman as am
    s0, name, a, shells, size = ref
    if kind is None:
        kind = ['general', 'rotation', 'strain'][it % 3]
        if it % 8 == 6:
            kind = rng.choice(['single', 'lower', 'upper'])
    n = s0.natoms
    cut = shells[0][0] * a
    F = _rand_F(rng, kind, where)
    pbcv = (True, True, True)
    if it % 4 == 3 or block:
        # periodicity switched off in 1-3 directions: surface / edge / corner atoms with few neighbours, down to
        # coplanar, collinear and single-vector sets (rank-deficient least squares)
        pbcv = tuple(rng.choice([(False, True, True), (True, False, True), (True, True, False), (False, False, True),
                                 (False, True, False), (True, False, False), (False, False, False), (False, False, False),
                                 (False, False, False)]))
        if block:
            pbcv = rng.choice([(False, False, False), (False, False, True), (True, False, False)])
        s0 = _system(s0, s0.atoms.pos.copy(), pbc=pbcv)
        nl0 = s0.neighborlist(cutoff=cut)
    frame = None
    if reframe and rng.random() < 0.35:
        # the same crystal with the Cartesian axes permuted / reflected and the box vectors in another order (the
        # neighbour list, being a list of indices, stays what it is)
        Rm_, rows_ = _perm_frame(rng, np)
        s0 = _reframed(s0, Rm_, rows_, np)
        pbcv = tuple(bool(x) for x in s0.pbc)
        frame = {'R': Rm_.tolist(), 'rows': rows_}
        ctx.extra['homog_permuted_frames'] = ctx.extra.get('homog_permuted_frames', 0) + 1
    s1 = _deform(s0, F)
    wrapped = it % 4 == 1
    nl1 = s1.neighborlist(cutoff=cut * 1.04)
    if it % 3 == 2:
        # the neighbours of every atom listed in another order than in the reference list
        nl1 = _shuffled_nlist(am, rng, s1, nl1, n)
    # atoms whose reference vectors span three dimensions (singular values of the set): G = F^-T is claimed there; for
    # the others lstsq returns the minimum-norm solution, which still maps every current vector onto its reference vector
    full = np.ones(n, dtype=bool)
    if not all(pbcv):
        for i_ in range(n):
            P_ = np.atleast_2d(s0.dvect(i_, nl0[i_])) if len(nl0[i_]) else np.zeros((0, 3))
            sv_ = np.linalg.svd(P_, compute_uv=False) if len(P_) else np.zeros(1)
            full[i_] = len(P_) >= 3 and len(sv_) == 3 and sv_[-1] > 0.05 * sv_[0]
        ctx.extra['homog_rank_deficient_atoms'] = ctx.extra.get('homog_rank_deficient_atoms', 0) + int((~full).sum())
    fidx = np.where(full)[0]
    if wrapped:
        # same configuration, atoms moved by box vectors (the list is built before: nlist needs atoms in the box)
        s1 = _system(s1, _wrapshift(rng, s1, np))
    base = {'op': 'search-homog', 'caseseed': caseseed, 'it': it0, 'variant': it, 'crystal': name, 'a': a, 'size': list(size),
            'F': F, 'kind': kind, 'cutoff': cut, 'wrapped': wrapped, 'pbc': list(pbcv), 'frame': frame,
            'box0': s0.box.vects.tolist(), 'box1': s1.box.vects.tolist()}
    canon = (name, a, size, repr(F), cut, wrapped, pbcv, repr(frame))
    ctx.stats.case('oracle:homog:' + kind, canon, sample=base)
    Fq = _fr_mat(F)
    Finv = _inv3(Fq)
    Gq = [[Finv[j][i] for j in range(3)] for i in range(3)]                       # inverse transpose
    I = [[Fraction(int(i == j)) for j in range(3)] for i in range(3)]
    Eq = [[((I[j][k] - Gq[j][k]) + (I[k][j] - Gq[k][j])) / 2 for k in range(3)] for j in range(3)]
    Rq = [[((I[j][k] - Gq[j][k]) - (I[k][j] - Gq[k][j])) / 2 for k in range(3)] for j in range(3)]
    i1 = Eq[0][0] + Eq[1][1] + Eq[2][2]
    i2 = (Eq[0][0] * Eq[1][1] + Eq[0][0] * Eq[2][2] + Eq[1][1] * Eq[2][2]
          - Eq[0][1] ** 2 - Eq[0][2] ** 2 - Eq[1][2] ** 2)
    i3 = _det3(Eq)
    Gf = np.array([[float(v) for v in r] for r in Gq])
    Ef = np.array([[float(v) for v in r] for r in Eq])
    Rf = np.array([[float(v) for v in r] for r in Rq])
    tol = 2e-9

    def fail(key, what, i=None, **kw):
        ctx.violate(key, what, dict(base, atom=i, **kw))
    # displacement: (F - I) x through the periodic boundaries ------------------------------------
    exp_disp = s0.atoms.pos @ (np.array(F) - np.identity(3)).T
    d = am.displacement(s0, s1)
    k = _bad(d, exp_disp, 1e-9 * float(np.abs(s0.box.vects).max()))
    if k is not None:
        fail('displacement', f'displacement of atom {k} is {d[k].tolist()}, imposed (F-I)x = {exp_disp[k].tolist()}', k)
    # differential displacement: u_j - u_i = (F - I) d0_ij for every reference neighbour pair --------------
    FmI = np.array(F) - np.identity(3)
    exp_dd = np.concatenate([np.atleast_2d(s0.dvect(i, nl0[i])) @ FmI.T for i in range(n) if len(nl0[i])] or [np.zeros((0, 3))])
    try:
        dd = am.defect.DifferentialDisplacement(s0, s1, neighbors=nl0, reference=0).ddvectors
        if dd.shape != exp_dd.shape:
            fail('ddvectors', f'DifferentialDisplacement: {len(dd)} pair vectors for {len(exp_dd)} reference pairs')
        else:
            k = _bad(dd, exp_dd, 1e-9 * float(np.abs(s0.box.vects).max()))
            if k is not None:
                fail('ddvectors', f'ddvectors[{k}] = {dd[k].tolist()} under a homogeneous deformation, difference of the '
                     f'imposed displacements (F-I) d_ij = {exp_dd[k].tolist()}', pair=k)
    except Exception as e:   # noqa
        fail('ddvectors:raises', f'DifferentialDisplacement raised {type(e).__name__}: {e}')
    variants = [('neighbors=', lambda: am.defect.Strain(s1, neighbors=nl1, basesystem=s0, baseneighbors=nl0))]
    if it % 2 == 0:
        variants.append(('cutoff=', lambda: am.defect.Strain(s1, cutoff=cut, basesystem=s0)))
    G0 = None
    for how, mkst in variants:
        try:
            st = mkst()
            G = st.G
        except Exception as e:   # noqa
            fail('Strain:raises', f'Strain({how}) raised {type(e).__name__}: {e}')
            continue
        if G0 is None:
            G0 = G
        if not np.isfinite(G).all():
            k = int(np.argmin(np.isfinite(G).reshape(n, -1).all(1)))
            fail('Strain.G', f'Strain({how}).G[{k}] = {G[k].tolist()} (atom with {len(nl1[k])} neighbours, pbc {list(pbcv)})', k)
            continue
        k = _bad(G[fidx].reshape(len(fidx), 9), np.tile(Gf.ravel(), (len(fidx), 1)), tol)
        if k is not None:
            k = int(fidx[k])
            fail('Strain.G', f'Strain({how}).G[{k}] = {G[k].tolist()}, inverse transpose of F = {Gf.tolist()} '
                 f'({len(nl1[k])} neighbours, pbc {list(pbcv)})', k)
        if not full.all() and how == 'neighbors=':
            # rank-deficient sets: the returned G still maps every current neighbour vector onto its reference vector
            for i_ in np.where(~full)[0]:
                if len(nl0[i_]) == 0 or sorted(int(j) for j in nl0[i_]) != sorted(int(j) for j in nl1[i_]):
                    continue
                Qi = np.atleast_2d(s1.dvect(int(i_), nl0[i_]))
                Pi = np.atleast_2d(s0.dvect(int(i_), nl0[i_]))
                if np.abs(Qi @ G[i_] - Pi).max() > 1e-9 * a:
                    fail('Strain.G:rank-deficient', f'Strain({how}).G[{int(i_)}] = {G[i_].tolist()} does not map the {len(Qi)} current '
                         f'neighbour vector(s) of this surface atom onto the reference vectors (residual {np.abs(Qi @ G[i_] - Pi).max():.3e})',
                         int(i_))
                    break
        for nm, val, want in (('strain', st.strain, Ef), ('rotation', st.rotation, Rf)):
            k = _bad(val[fidx].reshape(len(fidx), 9), np.tile(want.ravel(), (len(fidx), 1)), tol)
            if k is not None:
                k = int(fidx[k])
                fail('Strain.' + nm, f'Strain({how}).{nm}[{k}] = {val[k].tolist()}, from F^-T: {want.tolist()}', k)
        for nm, val, want in (('invariant1', st.invariant1, i1), ('invariant2', st.invariant2, i2), ('invariant3', st.invariant3, i3)):
            dv = np.abs(val - float(want))[fidx]
            if len(fidx) and (not np.isfinite(val[fidx]).all() or dv.max() > tol):
                k = int(fidx[dv.argmax()])
                fail('Strain.' + nm, f'Strain({how}).{nm}[{k}] = {val[k]}, from F^-T: {float(want)}', k)
        ny = _guard(lambda: st.nye)
        if isinstance(ny, _Raised):
            fail('Strain:raises', f'Strain({how}).nye raised {ny.text} (pbc {list(pbcv)})')
        elif full.all() and (not np.isfinite(ny).all() or np.abs(ny).max() > 1e-8 / a):
            k = int(np.abs(ny).reshape(n, -1).max(1).argmax())
            fail('Strain.nye', f'Strain({how}).nye[{k}] = {ny[k].tolist()} for a homogeneous deformation (expected 0)', k)
    if it % 3 == 0 and G0 is not None and full.all():
        pv = [np.atleast_2d(s0.dvect(i, nl0[i])) for i in range(n)]
        if len({len(p_) for p_ in pv}) == 1:
            pv = np.array(pv)
        try:
            old = am.defect.nye_tensor(s1, pv, neighbors=nl1)
        except Exception as e:   # noqa
            fail('nye_tensor:raises', f'nye_tensor raised {type(e).__name__}: {e}')
            old = None
        if old is not None:
            k = _bad(old['strain'].reshape(n, 9), np.tile(Ef.ravel(), (n, 1)), tol)
            if k is not None:
                fail('nye_tensor.strain', f'nye_tensor strain[{k}] = {old["strain"][k].tolist()}, from F^-T: {Ef.tolist()}', k)
            for nm, want in (('strain_invariant_1', i1), ('strain_invariant_2', i2), ('strain_invariant_3', i3)):
                if np.abs(old[nm] - float(want)).max() > tol:
                    fail('nye_tensor.' + nm, f'nye_tensor {nm} differs from the value from F^-T ({float(want)})')
            if np.abs(old['Nye_tensor']).max() > 1e-8 / a:
                fail('nye_tensor.Nye', 'nye_tensor Nye tensor is not zero for a homogeneous deformation')
    if G0 is None:
        return
    # power-of-two length scales: G (dimensionless) unchanged, the Nye tensor scales with 1 / length -------------------
    kexp = rng.choice([-300, -100, -20, 20, 100, 300])
    fsc = 2.0 ** kexp
    try:
        s0s = _system(s0, s0.atoms.pos * fsc, vects=s0.box.vects * fsc, origin=s0.box.origin * fsc)
        s1s = _system(s1, s1.atoms.pos * fsc, vects=s1.box.vects * fsc, origin=s1.box.origin * fsc)
    except Exception:   # noqa  (building boxes at this scale is not this property's subject)
        s0s = None
    if s0s is not None:
        import warnings
        with warnings.catch_warnings():
            warnings.simplefilter('ignore')
            gs = _guard(lambda: am.defect.Strain(s1s, neighbors=nl1, basesystem=s0s, baseneighbors=nl0).G)
        if isinstance(gs, _Raised):
            fail('scale:Strain', f'Strain raised {gs.text} after all lengths were multiplied by 2**{kexp}', scale_exponent=kexp)
        elif not np.isfinite(gs).all() or np.abs(gs - G0).max() > 1e-11:
            k = int(np.abs(gs - G0).reshape(n, -1).max(1).argmax())
            fail('scale:Strain.G', f'G[{k}] = {gs[k].tolist()} after all lengths (both systems) were multiplied by 2**{kexp}; '
                 f'unscaled: {G0[k].tolist()}', k, scale_exponent=kexp)
    # invariance: joint translation, consistent renumbering --------------------------------------
    t = np.array([rng.randint(-40, 40) / 8 for _ in range(3)])
    if it % 2 == 0:
        for k_ in range(3):
            if rng.random() < 0.6:
                t[k_] += rng.choice([1, -1]) * rng.choice([1e2, 1e3, 1e4, 1e5, 1e6])
    tol = tol + 400 * 2.3e-16 * float(np.abs(t).max()) / a
    s0t = _system(s0, s0.atoms.pos + t, origin=s0.box.origin + t)
    s1t = _system(s1, s1.atoms.pos + t, origin=s1.box.origin + t)
    if wrapped:
        rel_ = s1.box.position_cartesian_to_relative(s1.atoms.pos)
        rel_ = np.where(np.array(pbcv)[None, :], rel_ % 1.0, rel_)
        s1 = _system(s1, s1.box.position_relative_to_cartesian(rel_))
    if not full.all():
        return          # (minimum-norm solutions of the rank-deficient atoms: no invariance claim)
    try:
        Gt = am.defect.Strain(s1t, neighbors=nl1, basesystem=s0t, baseneighbors=nl0).G
        if np.abs(Gt - G0).max() > tol:
            fail('translation:Strain.G', f'G changes by {np.abs(Gt - G0).max():.3e} when both systems are translated by {t.tolist()}',
                 translation=t.tolist())
    except Exception as e:   # noqa
        fail('translation:Strain.G', f'Strain raised {type(e).__name__}: {e} after a joint translation', translation=t.tolist())
    perm = list(range(n))
    rng.shuffle(perm)
    inv = np.argsort(perm)
    s0p = _system(s0, s0.atoms.pos[inv])
    s0p.atoms.atype = s0.atoms.atype[inv]
    s1p = _system(s1, s1.atoms.pos[inv])
    s1p.atoms.atype = s0.atoms.atype[inv]
    stp = am.defect.Strain(s1p, neighbors=s1p.neighborlist(cutoff=cut * 1.04), basesystem=s0p,
                           baseneighbors=s0p.neighborlist(cutoff=cut))
    if np.abs(stp.G[perm] - G0).max() > tol:
        k = int(np.abs(stp.G[perm] - G0).reshape(n, -1).max(1).argmax())
        fail('renumbering:Strain.G', f'G of atom {k} changes under a consistent renumbering of both systems', k, perm=perm)
    if np.abs(stp.nye).max() > 1e-8 / a:
        fail('renumbering:Strain.nye', 'Nye tensor not zero after renumbering', perm=perm)


# ----------------------------------------------------------------------------------------
# every way of supplying the reference (p vectors) to Strain / nye_tensor
# ----------------------------------------------------------------------------------------
def _rh(u, v):
    w = [u[1] * v[2] - u[2] * v[1], u[2] * v[0] - u[0] * v[2], u[0] * v[1] - u[1] * v[0]]
    g = math.gcd(math.gcd(abs(w[0]), abs(w[1])), abs(w[2])) or 1
    return [u, v, [x // g for x in w]]


# right-handed orthogonal integer triples (third = first x second)
_CRYST_AXES = [_rh([1, -1, 0], [1, 1, -2]), _rh([1, 1, -2], [-1, 1, 0]), _rh([1, 0, 0], [0, 1, -1]), _rh([0, 1, 0], [0, 0, 1]),
               _rh([0, -1, 0], [1, 0, 0]), _rh([1, 2, 2], [2, 1, -2]), _rh([2, 3, 6], [3, -6, 2]), _rh([1, 1, 1], [1, -1, 0])]


def _rand_axes(rng, np):
    """(axes as handed over, unit axes T as rows): crystallographic integer triples (not normalised), signed
    permutations, generic rational rotations (Cayley, angles up to ~100 degrees), the identity now and then."""
    r = rng.random()
    if r < 0.45:
        ax = np.array(rng.choice(_CRYST_AXES), dtype=float)
        if rng.random() < 0.5:
            ax = ax * np.array([[rng.choice([1, 2, 0.5])], [1.0], [rng.choice([1, 3])]])
    elif r < 0.9:
        w = [Fraction(rng.randint(-24, 24), 16) for _ in range(3)]
        if not any(w):
            w[2] = Fraction(5, 16)
        I = [[Fraction(int(i == j)) for j in range(3)] for i in range(3)]
        S = [[0, -w[2], w[1]], [w[2], 0, -w[0]], [-w[1], w[0], 0]]
        R = _matmul(_inv3([[I[i][j] - S[i][j] for j in range(3)] for i in range(3)]),
                    [[I[i][j] + S[i][j] for j in range(3)] for i in range(3)])
        ax = np.array([[float(v) for v in row] for row in R])
    else:
        ax = np.identity(3)
    T = ax / np.linalg.norm(ax, axis=1)[:, None]
    return ax, T


def _shared_set(pv, np, tol=1e-7):
    """the common neighbour-vector set when every atom has the same one (as a set), else None."""
    p0 = pv[0]
    for p in pv[1:]:
        if len(p) != len(p0):
            return None
        d = np.abs(p[:, None, :] - p0[None, :, :]).max(2)
        if not ((d < tol).any(1).all() and (d < tol).any(0).all()):
            return None
    return p0


def _p_supply(rng, pv, n, np, how=None):
    """one way of handing the per-atom reference vectors `pv` over: returns (label, make) where make() gives fresh
    (p_vectors, axes, wire) — wire = the `so setp` argument text for the model (unit axes computed here)."""
    shared = _shared_set(pv, np)
    kinds = ['list', 'list']
    if len({len(p) for p in pv}) == 1:
        kinds.append('array')
    if shared is not None and len(shared) not in (1, n):
        kinds += ['shared', 'shared', 'shared1']
    kind = how if how in kinds else rng.choice(kinds)
    with_axes = rng.random() < 0.65
    ax, T = _rand_axes(rng, np) if with_axes else (None, None)

    # components of p in the frame whose unit axes are the rows of T: p_c = T^T p, i.e. the row vector p @ T
    order = list(range(len(shared))) if shared is not None else []
    rng.shuffle(order)

    def make():
        if kind == 'list':
            pa = [(p.copy() if T is None else p @ T) for p in pv]
            wire = 'nested %d %s' % (n, ' '.join('%d %s' % (len(q), cm.frs(q)) for q in pa))
            arg = [q.copy() for q in pa] if rng.random() < 0.5 else [q.tolist() for q in pa]
        elif kind == 'array':
            pa = np.array([(p if T is None else p @ T) for p in pv])
            wire = 'nested %d %s' % (n, ' '.join('%d %s' % (len(q), cm.frs(q)) for q in pa))
            arg = pa.copy()
        else:
            q = shared[order]
            q = q.copy() if T is None else q @ T
            if kind == 'shared':
                wire = 'flat %d %s' % (len(q), cm.frs(q))
                arg = q.copy() if rng.random() < 0.5 else q.tolist()
            else:
                wire = 'nested 1 %d %s' % (len(q), cm.frs(q))
                arg = [q.copy()]
        axw = '0' if T is None else '1 ' + cm.frs(T)
        return arg, (None if ax is None else ax.copy()), axw + ' ' + wire
    label = kind + ('' if ax is None else '+axes' + str(np.round(ax, 4).tolist()))
    return label, make


_SPROPS = [('G', 'G'), ('strain', 'strain'), ('rotation', 'rotation'), ('invariant1', 'inv1'), ('invariant2', 'inv2'),
           ('invariant3', 'inv3'), ('angularvelocity', 'angvel2'), ('nye', 'nye')]


def _exact_measures(Fq, Aq):
    """G = (F A^-1)^-T and what follows from it, exactly (Fractions) -> dict of float arrays / floats."""
    np = _np()
    M = _matmul(Fq, _inv3(Aq))
    Mi = _inv3(M)
    Gq = [[Mi[j][i] for j in range(3)] for i in range(3)]
    I = [[Fraction(int(i == j)) for j in range(3)] for i in range(3)]
    Eq = [[((I[j][k] - Gq[j][k]) + (I[k][j] - Gq[k][j])) / 2 for k in range(3)] for j in range(3)]
    Rq = [[((I[j][k] - Gq[j][k]) - (I[k][j] - Gq[k][j])) / 2 for k in range(3)] for j in range(3)]
    i1 = Eq[0][0] + Eq[1][1] + Eq[2][2]
    i2 = (Eq[0][0] * Eq[1][1] + Eq[0][0] * Eq[2][2] + Eq[1][1] * Eq[2][2] - Eq[0][1] ** 2 - Eq[0][2] ** 2 - Eq[1][2] ** 2)
    i3 = _det3(Eq)
    av2 = Rq[0][1] ** 2 + Rq[0][2] ** 2 + Rq[1][2] ** 2

    def f(m):
        return np.array([[float(v) for v in r] for r in m])
    return {'G': f(Gq), 'strain': f(Eq), 'rotation': f(Rq), 'invariant1': float(i1), 'invariant2': float(i2),
            'invariant3': float(i3), 'angularvelocity': math.sqrt(float(av2)), 'nye': np.zeros((3, 3))}


def _small_reference(rng, nmax=40):
    """a reference crystal with at most nmax atoms (object sequences evaluate every atom in the model)."""
    for _ in range(40):
        ref = _reference(rng, rng.choice(['bcc', 'B2', 'fcc', 'L12', 'hcp', 'hcp2', 'fcc-bct', 'fcc-111', 'bcc-prim']), False)
        if ref[0].natoms <= nmax:
            return ref
    return _reference(rng, 'bcc', False)


def _strain_sequence(ctx, caseseed, it, tie):
    """ONE Strain object under a sequence of operations: reads of every cached property, new p vectors through
    set_p_vectors (every supply form, with/without axes) and build_p_vectors (neighbors= / cutoff=), theta_max setter,
    solve_G() / solve_G(theta_max=), clear_properties(), in-place change of the analysed system (positions + box).
    tie=True  : every reply (also the stale ones the code keeps by design when inputs change without solve_G) is
                compared with the Lean object model `SObj` (correspondence);
    tie=False : whenever the object was solved/cleared after the last input change, every read is compared with the
                exact expectation G = (F A^-1)^-T for the CURRENT deformation F and CURRENT reference A and with a
                fresh object built from the current inputs (oracle)."""
    np = _np()
    import atomman as am
    import warnings
    rng = random.Random(caseseed)
    ref = _small_reference(rng, 32 if tie else 120)
    s0, name, a, shells, size = ref
    n = s0.natoms
    cut = shells[0][0] * a
    nl0 = s0.neighborlist(cutoff=cut)
    Fs = [_rand_F(rng, k) for k in ('general', 'general', 'rotation')]
    As = [[[1.0, 0, 0], [0, 1.0, 0], [0, 0, 1.0]], _rand_F(rng, 'strain'), _rand_F(rng, 'general')]
    base = {'op': 'corr-sobj' if tie else 'search-sobj', 'caseseed': caseseed, 'it': it, 'crystal': name, 'a': a,
            'size': list(size), 'cutoff': cut, 'F': Fs, 'A': As}
    refs = [s0 if k == 0 else _deform(s0, As[k]) for k in range(3)]                  # the reference crystals A_k(s0)
    pvs = [[np.atleast_2d(r.dvect(i, nl0[i])).copy() for i in range(n)] for r in refs]
    # state 3 of the analysed system: F0 plus a smooth periodic displacement field (G varies, Nye tensor non-zero)
    sfrac0 = s0.box.position_cartesian_to_relative(s0.atoms.pos)
    kvec = np.array([rng.choice([0, 1]) for _ in range(3)])
    if not kvec.any():
        kvec[rng.randrange(3)] = 1
    ufield = np.sin(2 * np.pi * (sfrac0 @ kvec + rng.uniform(0, 1)))[:, None] * np.array([rng.uniform(-0.012, 0.012) * a for _ in range(3)])
    base['field'] = {'k': kvec.tolist()}

    def state(kF):
        if kF < 3:
            return _deform(s0, Fs[kF])
        t = _deform(s0, Fs[0])
        return _system(t, t.atoms.pos + ufield @ np.array(Fs[0]).T)
    kF0 = rng.choice([0, 0, 3])
    cur = {'F': kF0, 'A': None, 'theta': 27.0, 'claim': False}
    sys1 = state(kF0)
    nl1 = sys1.neighborlist(cutoff=cut * 1.04)
    log = []

    def cosd(th):
        return math.cos(th * math.pi / 180.0)

    def ask(line):
        return ctx.driver.ask(line) if tie else None

    def note(txt):
        log.append(txt)

    def report(key, what, **kw):
        (ctx.disagree if tie else ctx.violate)(key, what + '  [operations on this object: ' + '; '.join(log) + ']',
                                               dict(base, ops=list(log), **kw))
    # construction ---------------------------------------------------------------------------------------
    init = rng.choice(['none', 'base+nl', 'base+cut', 'pvec', 'pvec'])
    kA = rng.randrange(3)
    with warnings.catch_warnings():
        warnings.simplefilter('ignore')
        try:
            if init == 'none':
                st = am.defect.Strain(sys1, neighbors=nl1)
                note('Strain(system, neighbors)')
            elif init == 'base+nl':
                st = am.defect.Strain(sys1, neighbors=nl1, basesystem=refs[kA], baseneighbors=nl0)
                note(f'Strain(system, neighbors, basesystem=A{kA}, baseneighbors)')
                cur['A'] = kA
            elif init == 'base+cut':
                st = am.defect.Strain(sys1, cutoff=cut, basesystem=refs[kA])
                nl1 = st.neighbors
                note(f'Strain(system, cutoff, basesystem=A{kA})')
                cur['A'] = kA
            else:
                label, make = _p_supply(rng, pvs[kA], n, np)
                arg, ax, wire = make()
                st = am.defect.Strain(sys1, neighbors=nl1, p_vectors=arg, axes=ax)
                note(f'Strain(system, neighbors, p_vectors=A{kA} as {label})')
                cur['A'] = kA
        except Exception as e:   # noqa
            report('Strain:raises', f'Strain constructor raised {type(e).__name__}: {e}')
            return
    cur['claim'] = cur['A'] is not None
    if tie:
        out = ask(f'so new {_cell(sys1)} {n} {cm.frs(sys1.atoms.pos)} {_nlist_tokens(nl1, n)} {cm.fr(27.0)} {cm.fr(cosd(27.0))}')
        if init in ('base+nl', 'base+cut'):
            out = ask(f'so buildp {_cell(refs[kA])} {n} {cm.frs(refs[kA].atoms.pos)} {_nlist_tokens(nl0, n)}')
        elif init == 'pvec':
            out = ask('so setp ' + wire)
        if out != 'ok':
            report('sobj:driver', f'model refused the construction ({out})')
            return
    sel = list(range(n))
    seltok = _sel_tokens(sel)
    ctx.stats.case('sobj:' + ('tie' if tie else 'oracle'), (caseseed, it), sample=base)
    nops = rng.randint(6, 11)
    exps = {}
    # half of the sequences start with a purposeful motif (an input changed through one entry point after values were
    # read, then re-solved through another), the rest is random; `plan` entries force (op class, parameter)
    R_READ, R_SETP, R_BUILD, R_THETA, R_SOLVE, R_CLEAR, R_SYS = 0.2, 0.5, 0.65, 0.73, 0.8, 0.92, 0.97
    small = rng.choice([1.0, 2.0])
    motifs = [
        [(R_READ, None), (R_THETA, small), (R_SOLVE, 27.0), (R_READ, None)],
        [(R_SOLVE, small), (R_READ, None), (R_SOLVE, 27.0), (R_READ, None)],
        [(R_READ, None), (R_SETP, None), (R_SOLVE, None), (R_READ, None)],
        [(R_READ, None), (R_SYS, None), (R_SOLVE, None), (R_READ, None)],
        [(R_READ, None), (R_BUILD, None), (R_CLEAR, None), (R_READ, None)],
        [(R_READ, None), (R_THETA, small), (R_SETP, None), (R_SOLVE, rng.choice([25.0, 30.0])), (R_READ, None)],
        # re-solving with the SAME explicit theta_max after the reference / the system changed
        [(R_READ, None), (R_SETP, None), (R_SOLVE, 'same'), (R_READ, None)],
        [(R_READ, None), (R_BUILD, None), (R_SOLVE, 'same'), (R_READ, None)],
        [(R_READ, None), (R_SYS, None), (R_SOLVE, 'same'), (R_READ, None)],
        [(R_SOLVE, 'same'), (R_READ, None), (R_SETP, None), (R_SOLVE, 'same'), (R_READ, None), (R_SYS, None), (R_SOLVE, 'same'), (R_READ, None)],
    ]
    plan = list(rng.choice(motifs)) if rng.random() < 0.5 else []
    # directed probe of the theta_max setter: values outside (0, 180] are ignored (nothing changes), the boundary 180 is stored
    for th in (0, 0.0, -4.0, 180.0000001, 181, 400.0, 180, 27.0):
        note(f'theta_max = {th}')
        st.theta_max = th
        if 0 < th <= 180:
            cur['theta'] = float(th)
        if tie:
            ask(f'so theta {cm.fr(float(th))} {cm.fr(cosd(float(th)))}')
        if _guard(lambda: float(st.theta_max)) != cur['theta']:
            report('sobj:theta_max', f'after theta_max = {th!r} the object holds theta_max = {st.theta_max!r}; values outside (0, 180] '
                   f'are ignored, valid ones stored: expected {cur["theta"]!r}')
            return
    for step in range(nops):
        r, forced = plan.pop(0) if plan else (rng.random(), None)
        with warnings.catch_warnings():
            warnings.simplefilter('ignore')
            if r < 0.45 or step == nops - 1:
                # ---- reads --------------------------------------------------------------------------
                names = rng.sample(_SPROPS, rng.randint(1, 4))
                if rng.random() < 0.3:
                    # asdict(properties): None (six default keys), a list (any order, G and rotation allowed), one name as a
                    # string, a list with an UNKNOWN name somewhere (AssertionError after the keys before it were read)
                    form = rng.random()
                    if form < 0.35:
                        props = None
                    else:
                        props = [x[0] for x in rng.sample(_SPROPS, rng.randint(1, 4))]
                        if form > 0.7:
                            props.insert(rng.randrange(len(props) + 1), rng.choice(['Strain', 'g', 'invariant', 'Nye_tensor',
                                                                                     'strain_invariant_1', 'angular_velocity', 'strain ']).strip() or 'x')
                        elif len(props) == 1 and rng.random() < 0.5:
                            props = props[0]
                    plist = None if props is None else ([props] if isinstance(props, str) else list(props))
                    if tie:
                        pl_ = ask('asdictplan 0' if plist is None else f'asdictplan 1 {len(plist)} ' + ' '.join(plist)).split()
                        planned, bad_key = pl_[1:], pl_[0] == 'assert'
                    else:
                        ok_ = {a_: m_ for a_, m_ in _SPROPS}
                        src_ = ['strain', 'invariant1', 'invariant2', 'invariant3', 'angularvelocity', 'nye'] if plist is None else plist
                        planned, bad_key = [], False
                        for k_ in src_:
                            if k_ not in ok_:
                                bad_key = True
                                break
                            planned.append(ok_[k_])
                    back_ = {m_: a_ for a_, m_ in _SPROPS}
                    names = [(back_[m_], m_) for m_ in dict.fromkeys(planned)]   # a name given twice is one key of the dict
                    note(f'asdict({props!r})')
                    got = _guard(lambda: st.asdict() if props is None else st.asdict(props))
                    ctx.stats.case('sobj:asdict', (caseseed, it, step, repr(props)))
                    if bad_key:
                        # the reads before the unknown key happen (and are cached) in the model too; no values to compare
                        failed_ = False
                        if tie:
                            for _, m_ in names:
                                failed_ = failed_ or ask(f'so read {m_} {seltok}').startswith('err:')
                        else:
                            failed_ = cur['A'] is None and bool(names)
                        want_ = 'ValueError' if failed_ else 'AssertionError'
                        if not isinstance(got, _Raised) or not got.text.startswith(want_):
                            report('sobj:asdict:refusal', f'asdict({props!r}): expected {want_} (unknown property name'
                                   f'{" after a read that cannot be solved" if failed_ else ""}), got '
                                   f'{got.text if isinstance(got, _Raised) else "a dict with keys " + str(list(got))}')
                        continue
                    if not isinstance(got, _Raised) and list(got) != [a_ for a_, _ in names]:
                        report('sobj:asdict:keys', f'asdict({props!r}) returned the keys {list(got)}, expected {[a_ for a_, _ in names]}')
                        continue
                    vals = [(_Raised(Exception(got.text)) if isinstance(got, _Raised) else got[a_]) for a_, _ in names]
                else:
                    vals = []
                    for a_, _ in names:
                        note('read ' + a_)
                        vals.append(_guard(lambda: np.array(getattr(st, a_))))
                for (attr, mname), val in zip(names, vals):
                    if tie:
                        out = ask(f'so read {mname} {seltok}')
                        if isinstance(val, _Raised):
                            if out != 'err:value' or 'Cannot solve until p_vectors are set' not in val.text:
                                report('sobj:' + attr, f'reading .{attr} raised {val.text}, model: {out[:40]}')
                            continue
                        if out.startswith('err:'):
                            report('sobj:' + attr, f'reading .{attr} returned values, the model refuses ({out})')
                            continue
                        impl = np.asarray(val ** 2 if attr == 'angularvelocity' else val, dtype=float)
                        model = _floats(out)
                        # atoms whose matched p-q set (at the time the cached G was solved) is rank deficient or
                        # badly conditioned are exempt: lstsq then returns a minimum-norm solution the normal
                        # equations do not describe (small theta_max values produce such sets)
                        cond = [float(x) for x in _floats(ctx.driver.ask('so cond'))]
                        good = np.array([c_ >= 1e-4 or c_ < 0 for c_ in cond], dtype=bool) if len(cond) == n else np.ones(n, dtype=bool)
                        if attr == 'nye':
                            good = np.array([good[i] and all(good[j] for j in nl1[i]) for i in range(n)], dtype=bool)
                        ctx.extra['sobj_atoms_exempt_rank'] = ctx.extra.get('sobj_atoms_exempt_rank', 0) + int((~good).sum())
                        if impl.shape[:1] != (n,) or len(model) % n:
                            report('sobj:' + attr, f'.{attr} has shape {impl.shape}')
                            continue
                        per = len(model) // n
                        keep = np.repeat(good, per)
                        d = _maxdiff(impl.reshape(n, -1)[good], [m_ for m_, k_ in zip(model, keep) if k_])
                        if d > 2e-9:
                            report('sobj:' + attr, f'.{attr} differs from the object model by {float(d):.3e}')
                    else:
                        if cur['A'] is None:
                            if not isinstance(val, _Raised) or 'p_vectors' not in val.text:
                                report('sobj:no-reference', f'.{attr} without p vectors: expected the ValueError of solve_G, got '
                                       f'{val.text if isinstance(val, _Raised) else "values"}')
                            continue
                        if not cur['claim'] or cur['theta'] < 20:
                            # (no expectation: inputs changed without solve_G, or a theta_max so small that a
                            #  deformed shell is not matched completely)
                            continue
                        if isinstance(val, _Raised):
                            report('sobj:raises', f'reading .{attr} raised {val.text}')
                            continue
                        key = (cur['F'], cur['A'])
                        if cur['F'] == 3:
                            # non-homogeneous state: no closed form; a fresh object built from the current inputs instead
                            fr_ = _guard(lambda: np.array(getattr(am.defect.Strain(
                                sys1, neighbors=nl1, p_vectors=[np.array(p_, dtype=float) for p_ in st.p_vectors],
                                theta_max=st.theta_max), attr)))
                            if isinstance(fr_, _Raised):
                                report('Strain:raises', f'fresh Strain from the current inputs raised {fr_.text}')
                            elif fr_.shape != np.shape(val) or np.abs(fr_ - val).max() > 1e-12:
                                report('sobj:fresh:' + attr, f'.{attr} after the last solve/clear differs from a fresh object built '
                                       f'from the same current inputs by {np.abs(fr_ - val).max() if fr_.shape == np.shape(val) else "shape"}')
                            continue
                        if key not in exps:
                            exps[key] = _exact_measures(_fr_mat(Fs[key[0]]), _fr_mat(As[key[1]]))
                        want = exps[key][attr]
                        tolv = 1e-8 / a if attr == 'nye' else 2e-9
                        dv = np.abs(val - want).reshape(n, -1).max(1) if np.shape(val)[:1] == (n,) else np.array([np.inf])
                        if not np.isfinite(val).all() or dv.max() > tolv:
                            k = int(dv.argmax())
                            report('sobj:' + attr, f'.{attr}[{k}] = {np.asarray(val)[k].tolist() if len(dv) == n else np.shape(val)} after '
                                   f'the last solve/clear; from the current inputs (F{key[0]}, reference A{key[1]}): '
                                   f'{np.asarray(want).tolist()}', atom=k)
                continue
            if r < 0.6:
                # ---- new reference through set_p_vectors ----------------------------------------------
                kA = rng.randrange(3)
                label, make = _p_supply(rng, pvs[kA], n, np)
                arg, ax, wire = make()
                note(f'set_p_vectors(A{kA} as {label})')
                res = _guard(lambda: st.set_p_vectors(arg, axes=ax))
                if isinstance(res, _Raised):
                    report('set_p_vectors:raises', f'set_p_vectors raised {res.text}')
                    return
                cur['A'], cur['claim'] = kA, False
                if tie and ask('so setp ' + wire) != 'ok':
                    report('sobj:driver', 'model refused set_p_vectors')
                    return
            elif r < 0.7:
                kA = rng.randrange(3)
                viacut = rng.random() < 0.5
                note(f'build_p_vectors(A{kA}, {"cutoff" if viacut else "neighbors"})')
                res = _guard(lambda: st.build_p_vectors(refs[kA], cutoff=cut) if viacut else st.build_p_vectors(refs[kA], neighbors=nl0))
                if isinstance(res, _Raised):
                    report('build_p_vectors:raises', f'build_p_vectors raised {res.text}')
                    return
                cur['A'], cur['claim'] = kA, False
                if tie and ask(f'so buildp {_cell(refs[kA])} {n} {cm.frs(refs[kA].atoms.pos)} {_nlist_tokens(nl0, n)}') != 'ok':
                    report('sobj:driver', 'model refused build_p_vectors')
                    return
            elif r < 0.76:
                th = rng.choice([25.0, 27.0, 29.0, 30, 0, -4.0, 181.0, 400, 26.5, 1.0, 2.0] + ([4.0, 180] if tie else []))
                if forced is not None:
                    th = forced
                note(f'theta_max = {th}')
                st.theta_max = th
                if 0 < th <= 180:
                    cur['theta'] = float(th)
                    cur['claim'] = False
                # the setter stores values in (0, 180] and ignores everything else (model: setTheta_accepts_iff)
                if _guard(lambda: float(st.theta_max)) != cur['theta']:
                    report('sobj:theta_max', f'after theta_max = {th!r} the object holds theta_max = {st.theta_max!r}; values outside (0, 180] '
                           f'are ignored, valid ones stored: expected {cur["theta"]!r}')
                    return
                if tie:
                    ask(f'so theta {cm.fr(float(th))} {cm.fr(cosd(float(th)))}')
            elif r < 0.9:
                # (after a small theta_max, re-solving with the usual one must bring everything back)
                same = int(cur['theta']) if cur['theta'] == int(cur['theta']) and rng.random() < 0.5 else cur['theta']
                th = rng.choice([None, None, 25.0, 28.0, 30, 0, 200.0, same, same] + ([1.0, 2.5, 5.0] if tie else [])
                                + ([27.0, 27.0, 26.0] if cur['theta'] < 20 else []))
                if forced is not None:
                    th = same if forced == 'same' else forced
                note('solve_G()' if th is None else f'solve_G(theta_max={th})')
                res = _guard(lambda: st.solve_G() if th is None else st.solve_G(theta_max=th))
                out = ask('so solve 0' if th is None else f'so solve 1 {cm.fr(float(th))} {cm.fr(cosd(float(th)))}')
                if isinstance(res, _Raised):
                    if cur['A'] is not None or 'p_vectors' not in res.text:
                        report('solve_G:raises', f'solve_G raised {res.text}')
                        return
                    if tie and out != 'err:value':
                        report('sobj:solve', f'solve_G raised {res.text}, the model did not refuse')
                    continue
                if tie and out != 'ok':
                    report('sobj:solve', f'solve_G returned, the model refuses ({out})')
                    return
                if th is not None and 0 < th <= 180:
                    cur['theta'] = float(th)
                cur['claim'] = cur['A'] is not None
            elif r < 0.94:
                note('clear_properties()')
                st.clear_properties()
                cur['claim'] = cur['A'] is not None
                if tie:
                    ask('so clear')
            else:
                # ---- the analysed system changes in place (same System object, same neighbour list) --------
                kF = rng.randrange(4)
                note(f'system changed in place to F{kF}' + (' (F0 + smooth field)' if kF == 3 else ''))
                new = state(kF)
                # (same topology: keep every atom in the image the neighbour list was built for is not needed,
                #  dvect takes the nearest image)
                sys1.box_set(vects=new.box.vects, origin=new.box.origin, scale=False)
                sys1.atoms.pos[:] = new.atoms.pos
                cur['F'], cur['claim'] = kF, False
                if tie:
                    # the model's object holds cell and positions by value: rebuild its system part
                    out = ask(f'so setsys {_cell(sys1)} {cm.frs(sys1.atoms.pos)}')
                    if out != 'ok':
                        report('sobj:driver', f'model refused the system change ({out})')
                        return
    if not tie and cur['A'] is not None:
        # final: solve, read everything, compare with a fresh object built from the current inputs
        with warnings.catch_warnings():
            warnings.simplefilter('ignore')
            note('solve_G()')
            res = _guard(lambda: st.solve_G())
            if isinstance(res, _Raised):
                report('solve_G:raises', f'solve_G raised {res.text}')
                return
            fresh = _guard(lambda: am.defect.Strain(sys1, neighbors=nl1, p_vectors=[np.array(p, dtype=float) for p in st.p_vectors],
                                                    theta_max=st.theta_max))
            if isinstance(fresh, _Raised):
                report('Strain:raises', f'fresh Strain from the current inputs raised {fresh.text}')
                return
            for attr, _ in _SPROPS:
                x = _guard(lambda: np.array(getattr(st, attr)))
                y = _guard(lambda: np.array(getattr(fresh, attr)))
                if isinstance(x, _Raised) or isinstance(y, _Raised):
                    report('sobj:raises', f'.{attr} raised {(x if isinstance(x, _Raised) else y).text}')
                elif x.shape != y.shape or np.abs(x - y).max() > 1e-12:
                    report('sobj:fresh:' + attr, f'.{attr} after solve_G differs from a fresh object built from the same current '
                           f'inputs by {np.abs(x - y).max() if x.shape == y.shape else "shape"}')


def _lists_of(nl, n):
    return [[int(j) for j in nl[i]] for i in range(n)]


def _lists_tokens(lists):
    return str(len(lists)) + ' ' + ' '.join(' '.join([str(len(l))] + [str(j) for j in l]) for l in lists)


def _dd_sequence(ctx, caseseed, it, tie):
    """ONE DifferentialDisplacement object under a sequence of solve() calls with every subset of the optional
    arguments (system0, system1, neighbors, cutoff, reference), starting from every constructor form.
    tie=True : replies, stored vectors, stored list and reference compared with the Lean object model `DObj` after
               every call, including the refused ones (AssertionError / ValueError);
    tie=False: after every successful call the stored vectors are compared with the exact expectation for the
               CURRENT systems and CURRENT list (true-nearest-image oracle, each separation under its own system's
               cell) and with a fresh object."""
    np = _np()
    import atomman as am
    rng = random.Random(caseseed)
    ref = _small_reference(rng, 130)
    s0, name, a, shells, size = ref
    sc = _slip_case(rng, s0, a, False, shells)
    if sc is None:
        return
    n = s0.natoms
    pbc = sc['pbc']
    s0.pbc = pbc
    cut = sc['cutoff']
    # a second cutoff selecting more neighbours, every periodic width still above twice the cutoff (else 1.02 cut)
    wmin = min([w for w, p_ in zip(_widths(s0.box.vects, np), pbc) if p_] or [float('inf')])
    c2s = [f * cut for f in (1.25, 1.45, 1.2) if 2.05 * f * cut < wmin]
    cut2 = rng.choice(c2s) if c2s else cut * 1.02
    du = sc['du']
    du2 = np.where(sc['side'][:, None], 0.5 * sc['uA'] + np.array([0.011, -0.007, 0.0]) * a, sc['uB'])

    def wrapped(pos, pb):
        t = _system(s0, pos, pbc=pb)
        t.wrap()
        return t
    p2 = list(pbc)
    kf = rng.randrange(3)
    p2[kf] = not p2[kf]
    systems = {'S0': wrapped(s0.atoms.pos.copy(), pbc), 'S1a': wrapped(s0.atoms.pos + du, pbc), 'S1b': wrapped(s0.atoms.pos + du2, pbc),
               'S1c': wrapped(s0.atoms.pos + du, tuple(p2))}
    bad = am.System(atoms=am.Atoms(atype=1, pos=s0.atoms.pos[:-1].copy()), box=s0.box, pbc=pbc)
    base = {'op': 'corr-dobj' if tie else 'search-dobj', 'caseseed': caseseed, 'it': it, 'crystal': name, 'a': a,
            'size': list(size), 'pbc': list(pbc), 'cutoff': cut, 'cutoff2': cut2, 'uA': sc['uA'].tolist(), 'uB': sc['uB'].tolist()}
    full = _lists_of(systems['S0'].neighborlist(cutoff=cut), n)
    half = [[j for j in l if j > i] for i, l in enumerate(full)]
    named_lists = {'NL0': full, 'HALF': half}
    nlobjs = {k: _mk_nlist(am, systems['S0'], v) for k, v in named_lists.items()}
    cutlists = {}

    def cutlist(sname, c):
        if (sname, c) not in cutlists:
            cutlists[(sname, c)] = _lists_of(systems[sname].neighborlist(cutoff=c), n)
        return cutlists[(sname, c)]
    log = []
    cur = {'s0': None, 's1': None, 'ref': None, 'lists': None, 'valid': False}

    def report(key, what, **kw):
        (ctx.disagree if tie else ctx.violate)(key, what + '  [calls on this object: ' + '; '.join(log) + ']',
                                               dict(base, ops=list(log), **kw))

    def systok(t):
        return f'{_cell(t)} {t.natoms} {cm.frs(t.atoms.pos)}'

    def gen_args(first):
        kw = {}
        names = {}
        if first or rng.random() < 0.25:
            names['system0'] = 'S0'
        if first or rng.random() < 0.45:
            names['system1'] = rng.choice(['S1a', 'S1b', 'S1c'] + (['BAD'] if tie and not first and rng.random() < 0.3 else []))
        r = rng.random()
        if r < (0.35 if first else 0.25):
            names['neighbors'] = rng.choice(['NL0', 'HALF'])
        elif r < (0.75 if first else 0.5):
            names['cutoff'] = rng.choice([cut, cut2])
            if rng.random() < 0.1:
                names['neighbors'] = rng.choice(['NL0', 'HALF'])          # both given: the list wins
        if first:
            names['reference'] = rng.choice([0, 1])
        elif rng.random() < 0.4:
            names['reference'] = rng.choice([0, 1, 0, 1, 2] if tie else [0, 1])
        return names

    def wire_args(names, first):
        parts = []
        for k in ('system0', 'system1'):
            if first:
                continue
            parts.append('1 ' + systok(bad if names.get(k) == 'BAD' else systems[names[k]]) if k in names else '0')
        if first:
            parts += ['0', '0']
        parts.append('1 ' + _lists_tokens(named_lists[names['neighbors']]) if 'neighbors' in names else '0')
        if 'cutoff' in names:
            e0 = names.get('system0') or cur['s0']
            e1 = names.get('system1') or cur['s1']
            l0 = cutlist(e0, names['cutoff'])
            l1 = cutlist(e1, names['cutoff']) if e1 != 'BAD' else l0
            parts.append('1 ' + _lists_tokens(l0) + ' ' + _lists_tokens(l1))
        else:
            parts.append('0')
        parts.append('1 %d' % names['reference'] if 'reference' in names else '0')
        return ' '.join(parts)

    def kwargs(names):
        kw = {}
        for k in ('system0', 'system1'):
            if k in names:
                kw[k] = bad if names[k] == 'BAD' else systems[names[k]]
        if 'neighbors' in names:
            kw['neighbors'] = nlobjs[names['neighbors']]
        if 'cutoff' in names:
            kw['cutoff'] = names['cutoff']
        if 'reference' in names:
            kw['reference'] = names['reference']
        return kw

    def shadow(names):
        """documented meaning of a successful call (oracle mode: only admissible arguments are generated)."""
        if 'system0' in names:
            cur['s0'] = names['system0']
        if 'system1' in names:
            cur['s1'] = names['system1']
        if 'reference' in names:
            cur['ref'] = names['reference']
        if 'neighbors' in names:
            cur['lists'] = named_lists[names['neighbors']]
        elif 'cutoff' in names:
            cur['lists'] = cutlist(cur['s0'] if cur['ref'] == 0 else cur['s1'], names['cutoff'])

    def classify(e):
        return 'err:assert' if isinstance(e, AssertionError) else 'err:value' if isinstance(e, ValueError) else 'err:other'

    def compare_state(obj):
        if tie:
            out = ctx.driver.ask('do read')
            dd = obj.ddvectors
            if dd is None or out == 'none':
                if not (dd is None and out == 'none'):
                    report('dobj:ddvectors', f'ddvectors is {"None" if dd is None else "an array"}, the model holds {out[:20]}')
            else:
                toks = out.split()
                if int(toks[0]) != len(dd):
                    report('dobj:ddvectors', f'{len(dd)} stored vectors, the model holds {toks[0]}')
                else:
                    model = [Fraction(t) for t in toks[1:]]
                    u0, u1, ul = cur['used']
                    # rows at a nearest-image tie (exhaustive oracle) are left out: rounding may break it differently
                    dec = _expect_pairs(systems[u0], systems[u1], (systems[u1].box.vects, systems[u1].pbc),
                                        _mk_nlist(am, systems[u0], ul), np)[3]
                    if len(dec) == len(dd):
                        keep = np.repeat(dec, 3)
                        model = [m_ for m_, k_ in zip(model, keep) if k_]
                        ddc = dd[dec]
                    else:
                        ddc = dd
                    if _maxdiff(ddc, model) > 1e-9:
                        report('dobj:ddvectors', f'stored ddvectors differ from the object model by {float(_maxdiff(ddc, model)):.3e}')
            out = ctx.driver.ask('do state').split()
            nlo = obj.neighbors
            mine = 'none' if nlo is None else _lists_tokens(_lists_of(nlo, len(nlo.coord)))
            if int(out[0]) != obj.reference or ' '.join(out[1:]) != mine:
                report('dobj:state', f'reference / stored neighbour list differ from the object model (reference {obj.reference} vs {out[0]})')
        elif cur['valid']:
            S0_, S1_ = systems[cur['s0']], systems[cur['s1']]
            lists = cur['lists']
            nlx = _mk_nlist(am, S0_, lists)
            I, J, exp, dec = _expect_pairs(S0_, S1_, (S1_.box.vects, S1_.pbc), nlx, np)
            dd = obj.ddvectors
            if dd is None or dd.shape != exp.shape:
                report('dobj:ddvectors', f'after a successful solve ddvectors has shape {None if dd is None else dd.shape}, the current list has {len(exp)} pairs')
            elif dec.any() and np.abs(dd - exp)[dec].max() > 1e-9 * float(np.abs(S0_.box.vects).max()):
                k = int(np.where(dec[:, None], np.abs(dd - exp), 0).max(1).argmax())
                report('dobj:ddvectors', f'after solve, ddvectors[{k}] (pair {int(I[k])}-{int(J[k])}) = {dd[k].tolist()}; for the current '
                       f'systems ({cur["s0"]}, {cur["s1"]}) and the current list the difference of periodic separations is {exp[k].tolist()}',
                       pair=k)
            fresh = _guard(lambda: am.defect.DifferentialDisplacement(S0_, S1_, neighbors=nlx, reference=cur['ref']).ddvectors)
            if isinstance(fresh, _Raised):
                report('dobj:raises', f'fresh object from the current inputs raised {fresh.text}')
            elif dd is not None and (fresh.shape != dd.shape or np.abs(fresh - dd).max() > 1e-12):
                report('dobj:fresh', 'stored ddvectors differ from those of a fresh object built from the current systems, list and reference')
    # constructor --------------------------------------------------------------------------------------------
    names = gen_args(True)
    form = rng.random()
    if form < 0.25:
        names.pop('neighbors', None)
        names.pop('cutoff', None)
    log.append('DifferentialDisplacement(' + ', '.join(f'{k}={v}' for k, v in names.items()) + ')')
    obj = _guard(lambda: am.defect.DifferentialDisplacement(systems[names['system0']], systems[names['system1']],
                                                            **{k: v for k, v in kwargs(names).items() if k not in ('system0', 'system1')}))
    cur['s0'], cur['s1'], cur['ref'] = names['system0'], names['system1'], names['reference']
    if tie:
        out = ctx.driver.ask(f'do new {systok(systems[names["system0"]])} {systok(systems[names["system1"]])} {wire_args(names, True)}')
        if isinstance(obj, _Raised) or out != 'ok':
            if isinstance(obj, _Raised) and out.startswith('err:') and not out.startswith('err:format'):
                return
            report('dobj:new', f'constructor: implementation {"raised " + obj.text if isinstance(obj, _Raised) else "ok"}, model {out}')
            return
    elif isinstance(obj, _Raised):
        report('dobj:raises', f'constructor raised {obj.text}')
        return
    ctx.stats.case('dobj:' + ('tie' if tie else 'oracle'), (caseseed, it), sample=base)
    if 'neighbors' in names or 'cutoff' in names:
        shadow(names)
        cur['valid'] = True
        cur['used'] = (cur['s0'], cur['s1'], _lists_of(obj.neighbors, n))
    compare_state(obj)
    for step in range(rng.randint(3, 7)):
        names = gen_args(False)
        if not tie and cur['lists'] is None and 'neighbors' not in names and 'cutoff' not in names:
            names['cutoff'] = cut
        log.append('solve(' + ', '.join(f'{k}={v}' for k, v in names.items()) + ')')
        res = _guard(lambda: obj.solve(**kwargs(names)))
        if tie:
            # (what the model needs to know about system names it has not seen yet)
            for k in ('system0', 'system1'):
                if k in names:
                    cur['s0' if k == 'system0' else 's1'] = names[k]
            out = ctx.driver.ask('do solve ' + wire_args(names, False))
            got = 'ok' if not isinstance(res, _Raised) else \
                ('err:assert' if res.text.startswith('AssertionError') else 'err:value' if res.text.startswith('ValueError') else res.text)
            if got != out:
                report('dobj:solve', f'solve: implementation {got}, model {out}')
                return
            if got == 'ok':
                cur['used'] = (cur['s0'], cur['s1'], _lists_of(obj.neighbors, n))
            if cur['s1'] == 'BAD':
                # the object now refers to a system with another number of atoms: later calls must replace it
                cur['s1'] = None
                names2 = {'system1': rng.choice(['S1a', 'S1b'])}
                log.append('solve(' + ', '.join(f'{k}={v}' for k, v in names2.items()) + ')')
                res2 = _guard(lambda: obj.solve(**kwargs(names2)))
                cur['s1'] = names2['system1']
                out2 = ctx.driver.ask('do solve ' + wire_args(names2, False))
                got2 = 'ok' if not isinstance(res2, _Raised) else \
                    ('err:assert' if res2.text.startswith('AssertionError') else 'err:value' if res2.text.startswith('ValueError') else res2.text)
                if got2 != out2:
                    report('dobj:solve', f'solve: implementation {got2}, model {out2}')
                    return
                if got2 == 'ok':
                    cur['used'] = (cur['s0'], cur['s1'], _lists_of(obj.neighbors, n))
        else:
            if isinstance(res, _Raised):
                report('dobj:raises', f'solve raised {res.text}')
                return
            shadow(names)
            cur['valid'] = True
        compare_state(obj)


def _search_p_supply(ctx, caseseed, it):
    """homogeneous deformation analysed with the reference handed over in every form: p_vectors shared (m,3) /
    [(m,3)] / per-atom lists / per-atom array, with and without `axes` for generic orientations, through the
    Strain constructor, set_p_vectors on an existing object, and the older nye_tensor()."""
    np = _np()
    import atomman as am
    import warnings
    rng = random.Random(caseseed)
    ref = _reference(rng, None, False)
    s0, name, a, shells, size = ref
    n = s0.natoms
    cut = shells[0][0] * a
    nl0 = s0.neighborlist(cutoff=cut)
    pv = [np.atleast_2d(s0.dvect(i, nl0[i])).copy() for i in range(n)]
    for rep in range(3):
        F = _rand_F(rng, ['general', 'rotation', 'strain'][(it + rep) % 3])
        s1 = _deform(s0, F)
        nl1 = s1.neighborlist(cutoff=cut * 1.04)
        exp = _exact_measures(_fr_mat(F), [[Fraction(int(i == j)) for j in range(3)] for i in range(3)])
        how = ['list', 'shared', 'array', 'shared1'][(it + rep) % 4]
        label, make = _p_supply(rng, pv, n, np, how=how)
        base = {'op': 'search-psupply', 'caseseed': caseseed, 'it': it, 'rep': rep, 'crystal': name, 'a': a, 'size': list(size),
                'F': F, 'cutoff': cut, 'p_vectors': label}
        ctx.stats.case('oracle:psupply:' + label.split('+')[0] + ('+axes' if '+axes' in label else ''), (caseseed, rep), sample=base)
        entry = rng.choice(['ctor', 'ctor+cutoff', 'set_p_vectors', 'nye_tensor'])
        with warnings.catch_warnings():
            warnings.simplefilter('ignore')
            arg, ax, _ = make()
            if entry == 'ctor':
                got = _guard(lambda: am.defect.Strain(s1, neighbors=nl1, p_vectors=arg, axes=ax))
            elif entry == 'ctor+cutoff':
                got = _guard(lambda: am.defect.Strain(s1, cutoff=cut * 1.04, p_vectors=arg, axes=ax))
            elif entry == 'set_p_vectors':
                def f():
                    st_ = am.defect.Strain(s1, neighbors=nl1)
                    st_.set_p_vectors(arg, axes=ax)
                    return st_
                got = _guard(f)
            else:
                got = _guard(lambda: am.defect.nye_tensor(s1, arg, axes=ax, neighbors=nl1))
            if isinstance(got, _Raised):
                ctx.violate('psupply:raises', f'{entry} with p_vectors given as {label} raised {got.text}', dict(base, entry=entry))
                continue
            if entry == 'nye_tensor':
                vals = {'strain': got['strain'], 'invariant1': got['strain_invariant_1'], 'invariant2': got['strain_invariant_2'],
                        'invariant3': got['strain_invariant_3'], 'angularvelocity': got['angular_velocity'], 'nye': got['Nye_tensor']}
            else:
                vals = {}
                for attr, _ in _SPROPS:
                    v = _guard(lambda: np.array(getattr(got, attr)))
                    if isinstance(v, _Raised):
                        ctx.violate('psupply:raises', f'{entry} with p_vectors given as {label}: .{attr} raised {v.text}',
                                    dict(base, entry=entry))
                        vals = None
                        break
                    vals[attr] = v
                if vals is None:
                    continue
            for attr, val in vals.items():
                want = exp[attr]
                tolv = 1e-8 / a if attr == 'nye' else 2e-9
                val = np.asarray(val, dtype=float)
                dv = np.abs(val - want).reshape(n, -1).max(1) if val.shape[:1] == (n,) else np.array([np.inf])
                if not np.isfinite(val).all() or dv.max() > tolv:
                    k = int(dv.argmax())
                    ctx.violate('psupply:' + attr, f'{entry}, reference handed over as {label}: {attr}[{k}] = '
                                f'{val[k].tolist() if len(dv) == n else val.shape}, from F^-T: {np.asarray(want).tolist()} '
                                f'({name} {size}, F = {F})', dict(base, entry=entry, atom=k))
                    break


# ----------------------------------------------------------------------------------------
# reference set and current neighbour list with DIFFERENT shell counts, theta_max between the inter-shell angles
# ----------------------------------------------------------------------------------------
# cutoffs (units of a) half-way between consecutive shells, coordination after 1 / 2 / 3 shells, cells per edge so that
# every periodic width exceeds twice the largest cutoff of a crystal strained by a few per cent
_SHELLS = {'fcc': ([0.85, 1.11, 1.32], [12, 18, 42], 3, lambda am, a: [[0, 0, 0], [.5, .5, 0], [.5, 0, .5], [0, .5, .5]], None),
           'L12': ([0.85, 1.11, 1.32], [12, 18, 42], 3, lambda am, a: [[0, 0, 0], [.5, .5, 0], [.5, 0, .5], [0, .5, .5]], [1, 2, 2, 2]),
           'bcc': ([0.93, 1.2, 1.53], [8, 14, 26], 4, lambda am, a: [[0, 0, 0], [.5, .5, .5]], None),
           'B2': ([0.93, 1.2, 1.53], [8, 14, 26], 4, lambda am, a: [[0, 0, 0], [.5, .5, .5]], [1, 2])}


def _shuffled_nlist(am, rng, system, nl, n):
    """the same neighbour list with every atom's neighbours listed in another order."""
    lists = []
    for i in range(n):
        l = [int(j) for j in nl[i]]
        rng.shuffle(l)
        lists.append(l)
    return _mk_nlist(am, system, lists)


def _shells_case(rng):
    """homogeneously deformed fcc/bcc-type crystal, reference set with kp shells, current list with kq shells."""
    np = _np()
    import atomman as am
    name = rng.choice(sorted(_SHELLS))
    cuts, coords, ncell, frac, atype = _SHELLS[name]
    a = rng.choice([4.05, 3.3, 2.87, 4.0, 3.52])
    size = [ncell] * 3
    if rng.random() < 0.4:
        size[rng.randrange(3)] += 1
    s0 = am.System(atoms=am.Atoms(atype=atype or 1, pos=frac(am, a)), box=am.Box.cubic(a), scale=True).supersize(*size)
    tag = ''
    if rng.random() < 0.35:
        sh = _shear(rng, s0, size, cuts[2] * a * 1.05)
        if sh is not None:
            s0, tag = sh[0], '/sheared' + sh[1]
    kp, kq = rng.choice([(1, 3), (1, 3), (1, 2), (2, 3), (2, 3), (3, 1), (2, 1), (3, 2), (1, 1), (3, 3)])
    theta = rng.choice([15, 20, 27, 31, 33, 35, 38, 42, 47, 50])
    F = _rand_F(rng, rng.choice(['general', 'general', 'rotation', 'strain']))
    s1 = _deform(s0, F)
    nl0 = s0.neighborlist(cutoff=cuts[kp - 1] * a)
    nl1 = s1.neighborlist(cutoff=cuts[kq - 1] * a)
    n = s0.natoms
    complete = bool((nl0.coord == coords[kp - 1]).all() and (nl1.coord == coords[kq - 1]).all())
    order = rng.choice(['builder', 'builder', 'shuffled'])
    if order == 'shuffled':
        nl1 = _shuffled_nlist(am, rng, s1, nl1, n)
        if rng.random() < 0.5:
            nl0 = _shuffled_nlist(am, rng, s0, nl0, n)
    return {'name': name + tag, 'a': a, 'size': size, 's0': s0, 's1': s1, 'F': F, 'kp': kp, 'kq': kq, 'theta': theta,
            'nl0': nl0, 'nl1': nl1, 'complete': complete, 'order': order, 'cutp': cuts[kp - 1] * a, 'cutq': cuts[kq - 1] * a}


def _pairing_claim(P, Q, Fm, cosmax, np):
    """independent decision (documented rule: every q takes the p at the smallest angle inside theta_max; of several q
    taking one p the one whose length is closest to the shortest |p| keeps it): (claimed, competitors) — claimed when
    every surviving pair is a true pair q = F p, at least three of them are independent, and no decision is closer than
    1e-7 to a tie or to theta_max."""
    pm = np.linalg.norm(P, axis=1)
    qm = np.linalg.norm(Q, axis=1)
    C = (Q @ P.T) / qm[:, None] / pm[None, :]
    best = C.argmax(1)
    top = C[np.arange(len(Q)), best]
    if (np.abs(C - cosmax) < 1e-7).any():
        return False, 0
    if C.shape[1] > 1:
        srt = np.sort(C, axis=1)
        if ((srt[:, -1] - srt[:, -2] < 1e-7) & (top > cosmax)).any():
            return False, 0
    r1 = pm.min()
    rad = np.abs(r1 - qm)
    winners = []
    comp = 0
    for k in set(best[top > cosmax].tolist()):
        js = np.where((best == k) & (top > cosmax))[0]
        comp = max(comp, len(js))
        o = js[np.argsort(rad[js])]
        if len(o) > 1 and rad[o[1]] - rad[o[0]] < 1e-7:
            return False, comp
        winners.append((int(o[0]), k))
    if len(winners) < 3:
        return False, comp
    for j, k in winners:
        if np.abs(Q[j] - Fm @ P[k]).max() > 1e-7:
            return False, comp
    sv = np.linalg.svd(np.array([Q[j] for j, _ in winners]), compute_uv=False)
    return bool(sv[-1] > 0.05 * sv[0]), comp


def _shells(ctx, caseseed, it, tie):
    """G = F^-T at every atom when the reference set and the current neighbour list hold different numbers of complete
    shells and theta_max lies between / beyond the inter-shell angles (several q compete for one p).
    tie=True: the per-atom G against the Lean pairing loop + normal equations on the same inputs."""
    np = _np()
    import atomman as am
    import warnings
    rng = random.Random(caseseed)
    c = _shells_case(rng)
    s0, s1, nl0, nl1, F = c['s0'], c['s1'], c['nl0'], c['nl1'], c['F']
    n = s0.natoms
    theta = c['theta']
    cosmax = _cosmax(theta)
    supply = 'base' if tie else rng.choice(['base', 'base', 'shared', 'list'])
    base = {'op': 'corr-shells' if tie else 'search-shells', 'caseseed': caseseed, 'it': it, 'crystal': c['name'], 'a': c['a'],
            'size': list(c['size']), 'F': F, 'p_shells': c['kp'], 'q_shells': c['kq'], 'theta_max': theta,
            'cutoff_p': c['cutp'], 'cutoff_q': c['cutq'], 'neighbour_order': c['order'], 'supply': supply}
    pv = [np.atleast_2d(s0.dvect(i, nl0[i])).copy() for i in range(n)]

    def build():
        if supply == 'base':
            return am.defect.Strain(s1, neighbors=nl1, basesystem=s0, baseneighbors=nl0, theta_max=theta)
        if supply == 'shared':
            return am.defect.Strain(s1, neighbors=nl1, p_vectors=pv[0].copy(), theta_max=theta)
        return am.defect.Strain(s1, neighbors=nl1, p_vectors=[p.copy() for p in pv], theta_max=theta)
    if supply == 'shared' and (not c['complete'] or len(pv[0]) in (1, n)):
        supply = base['supply'] = 'base'
    with warnings.catch_warnings():
        warnings.simplefilter('ignore')
        st = _guard(build)
        G = st if isinstance(st, _Raised) else _guard(lambda: np.array(st.G))
    canon = (c['name'], c['a'], tuple(c['size']), repr(F), c['kp'], c['kq'], theta, c['order'], supply)
    ctx.stats.case(('shells:tie' if tie else 'oracle:shells') + f':p{c["kp"]}q{c["kq"]}', canon, sample=base)
    if tie:
        sel = _select(rng, n, 5)
        line = (f'strain {cm.fr(cosmax)} {_cell(s0)} {_cell(s1)} {n} {cm.frs(s0.atoms.pos)} {cm.frs(s1.atoms.pos)} '
                f'{_nlist_tokens(nl0, n)} {_nlist_tokens(nl1, n)} {_sel_tokens(sel)}')
        out = ctx.driver.ask(line)
        if isinstance(G, _Raised):
            ctx.disagree('shells:raises', f'Strain raised {G.text}', base)
            return
        okG = _cmp(ctx, 'Strain.G:shells', f'Strain.G (reference {c["kp"]} shells, current list {c["kq"]} shells, theta_max {theta})',
                   G[sel], out, False, base, atol=2e-9)
        if okG and it % 2 == 0:
            # the older pure-python pipeline has its own pairing loop: its strain against the model's (pairing + normal
            # equations + strain formula) on the same inputs
            with warnings.catch_warnings():
                warnings.simplefilter('ignore')
                old = _guard(lambda: am.defect.nye_tensor(s1, [p.copy() for p in pv], neighbors=nl1, theta_max=theta))
            if isinstance(old, _Raised):
                ctx.disagree('shells:nye_tensor:raises', f'nye_tensor raised {old.text}', base)
                return
            toks = out.split()
            outs = ctx.driver.ask_many(['derive ' + ' '.join(toks[9 * k_:9 * k_ + 9]) for k_ in range(len(sel))])
            for i_, o_ in zip(sel, outs):
                mm = _floats(o_)
                impl = np.concatenate([old['strain'][i_].ravel(), [old['strain_invariant_1'][i_], old['strain_invariant_2'][i_],
                                                                   old['strain_invariant_3'][i_], old['angular_velocity'][i_] ** 2]])
                if _maxdiff(impl, mm[:9] + mm[18:22]) > 2e-9:
                    ctx.disagree('nye_tensor:shells', f'nye_tensor(theta_max={theta}) strain / invariants of atom {i_} differ from the model '
                                 f'(reference {c["kp"]} shells, current list {c["kq"]} shells)', dict(base, atom=int(i_)))
                    break
        return
    if isinstance(G, _Raised):
        ctx.violate('shells:raises', f'Strain (reference {c["kp"]} shells, current list {c["kq"]} shells, theta_max={theta}) '
                    f'raised {G.text}', base)
        return
    if not c['complete']:
        ctx.extra['shells_incomplete'] = ctx.extra.get('shells_incomplete', 0) + 1
        return
    Fm = np.array(F)
    exp = _exact_measures(_fr_mat(F), [[Fraction(int(i == j)) for j in range(3)] for i in range(3)])
    claimed = np.zeros(n, dtype=bool)
    comp = 0
    for i in range(n):
        P = pv[0] if supply == 'shared' else pv[i]
        ok, k = _pairing_claim(P, np.atleast_2d(s1.dvect(i, nl1[i])), Fm, cosmax, np)
        claimed[i] = ok
        comp = max(comp, k)
    ctx.extra['shells_competitors_max'] = max(ctx.extra.get('shells_competitors_max', 0), comp)
    ctx.extra['shells_atoms_claimed'] = ctx.extra.get('shells_atoms_claimed', 0) + int(claimed.sum())
    ctx.extra['shells_atoms_unclaimed'] = ctx.extra.get('shells_atoms_unclaimed', 0) + int((~claimed).sum())
    if not claimed.any():
        return
    idx = np.where(claimed)[0]
    k = _bad(G[idx].reshape(len(idx), 9), np.tile(exp['G'].ravel(), (len(idx), 1)), 2e-9)
    if k is not None:
        i = int(idx[k])
        ctx.violate('shells:G', f'Strain.G[{i}] = {G[i].tolist()}, inverse transpose of F = {exp["G"].tolist()}: {c["name"]} '
                    f'{c["size"]}, reference set of {c["kp"]} shell(s) ({len(pv[i])} vectors, {supply}), current neighbour list of '
                    f'{c["kq"]} shell(s) ({len(nl1[i])} vectors, cutoff {c["cutq"]:.4f}), theta_max = {theta}: up to {comp} current '
                    f'vectors compete for one reference vector; F = {F}', dict(base, atom=i))
        return
    if it % 2 == 1:
        # all lengths times a power of two: the pairing (angles, ratios of lengths) and hence G must not change
        kexp = rng.choice([-300, -100, -20, 20, 100, 300])
        fsc = 2.0 ** kexp
        s0s = _guard(lambda: _system(s0, s0.atoms.pos * fsc, vects=s0.box.vects * fsc, origin=s0.box.origin * fsc))
        s1s = _guard(lambda: _system(s1, s1.atoms.pos * fsc, vects=s1.box.vects * fsc, origin=s1.box.origin * fsc))
        if not isinstance(s0s, _Raised) and not isinstance(s1s, _Raised):
            with warnings.catch_warnings():
                warnings.simplefilter('ignore')
                gs = _guard(lambda: am.defect.Strain(s1s, neighbors=nl1, basesystem=s0s, baseneighbors=nl0, theta_max=theta).G)
                g1 = _guard(lambda: am.defect.Strain(s1, neighbors=nl1, basesystem=s0, baseneighbors=nl0, theta_max=theta).G)
            if isinstance(gs, _Raised) or isinstance(g1, _Raised):
                ctx.violate('shells:scale:raises', f'Strain raised {(gs if isinstance(gs, _Raised) else g1).text} (lengths x 2**{kexp})',
                            dict(base, scale_exponent=kexp))
            elif np.abs(gs - g1)[claimed].max() > 1e-11:
                i = int(np.where(claimed[:, None, None], np.abs(gs - g1), 0).reshape(n, -1).max(1).argmax())
                ctx.violate('shells:scale', f'G[{i}] changes by {np.abs(gs - g1)[i].max():.3e} when all lengths of both systems are multiplied '
                            f'by 2**{kexp} (reference {c["kp"]} shells, current list {c["kq"]} shells, theta_max = {theta})',
                            dict(base, atom=i, scale_exponent=kexp))
    if claimed.all():
        # the older function (own pairing loop) on the same inputs
        with warnings.catch_warnings():
            warnings.simplefilter('ignore')
            parg = pv[0].copy() if supply == 'shared' else [p.copy() for p in pv]
            old = _guard(lambda: am.defect.nye_tensor(s1, parg, neighbors=nl1, theta_max=theta))
        if isinstance(old, _Raised):
            ctx.violate('shells:nye_tensor:raises', f'nye_tensor(theta_max={theta}) raised {old.text}', base)
        else:
            for nm, attr in (('strain', 'strain'), ('strain_invariant_1', 'invariant1'), ('strain_invariant_2', 'invariant2'),
                             ('strain_invariant_3', 'invariant3'), ('angular_velocity', 'angularvelocity'), ('Nye_tensor', 'nye')):
                tolv = 1e-8 / c['a'] if attr == 'nye' else 2e-9
                val = np.asarray(old[nm], dtype=float)
                dv = np.abs(val - exp[attr]).reshape(n, -1).max(1)
                if not np.isfinite(val).all() or dv.max() > tolv:
                    i = int(dv.argmax())
                    ctx.violate('shells:nye_tensor.' + nm, f'nye_tensor(theta_max={theta})[{nm!r}][{i}] = {val[i].tolist()}, from F^-T: '
                                f'{np.asarray(exp[attr]).tolist()} ({c["name"]} {c["size"]}, reference {c["kp"]} shells ({supply}), current list '
                                f'{c["kq"]} shells, up to {comp} current vectors compete for one reference vector; F = {F})', dict(base, atom=i))
                    break
        for attr in ('strain', 'rotation', 'invariant1', 'invariant2', 'invariant3', 'nye'):
            val = _guard(lambda: np.array(getattr(st, attr)))
            if isinstance(val, _Raised):
                ctx.violate('shells:raises', f'.{attr} raised {val.text}', base)
                return
            tolv = 1e-8 / c['a'] if attr == 'nye' else 2e-9
            dv = np.abs(val - exp[attr]).reshape(n, -1).max(1)
            if not np.isfinite(val).all() or dv.max() > tolv:
                i = int(dv.argmax())
                ctx.violate('shells:' + attr, f'Strain.{attr}[{i}] = {np.asarray(val)[i].tolist()}, from F^-T: '
                            f'{np.asarray(exp[attr]).tolist()} (reference {c["kp"]} shells, current list {c["kq"]} shells, '
                            f'theta_max = {theta})', dict(base, atom=i))
                return


# ----------------------------------------------------------------------------------------
# non-homogeneous state: what follows from G (strain, rotation, invariants, Nye tensor) with an independent evaluation
# ----------------------------------------------------------------------------------------
_EPS3 = None


def _nye_from_G(G, s1, nl1, np):
    """alpha_jk = -eps_jim d_i G_mk, the gradient of G by least squares over the neighbour vectors (Hartley & Mishin)."""
    global _EPS3
    if _EPS3 is None:
        e = np.zeros((3, 3, 3))
        e[0, 1, 2] = e[1, 2, 0] = e[2, 0, 1] = 1.0
        e[0, 2, 1] = e[2, 1, 0] = e[1, 0, 2] = -1.0
        _EPS3 = e
    n = len(G)
    out = np.zeros((n, 3, 3))
    for i in range(n):
        js = np.asarray(nl1[i], dtype=int)
        Q = np.atleast_2d(s1.dvect(i, js))
        dG = G[js] - G[i]                                             # (c, m, k)
        grad = np.linalg.lstsq(Q, dG.reshape(len(js), 9), rcond=None)[0].reshape(3, 3, 3)     # [i, m, k] = d_i G_mk
        out[i] = -np.einsum('jim,imk->jk', _EPS3, grad)
    return out


def _search_field(ctx, caseseed, it):
    """a sinusoidal SHEAR field on top of a homogeneous deformation (G varies, its gradient is not symmetric): strain,
    rotation, invariants, angular velocity and Nye tensor as functions of the G the code returns; nye_tensor() =
    Strain; joint translation, consistent renumbering and the order of the neighbours leave G and Nye unchanged."""
    np = _np()
    import atomman as am
    import warnings
    rng = random.Random(caseseed)
    ref = _reference(rng, None, False)
    s0, name, a, shells, size = ref
    n = s0.natoms
    cut = shells[0][0] * a
    nl0 = s0.neighborlist(cutoff=cut)
    F = _rand_F(rng, rng.choice(['general', 'rotation', 'strain']))
    sfrac = s0.box.position_cartesian_to_relative(s0.atoms.pos)
    kvec = np.array([rng.choice([0, 1, 1]) for _ in range(3)])
    if not kvec.any():
        kvec[rng.randrange(3)] = 1
    amp = np.array([rng.uniform(-0.012, 0.012) * a for _ in range(3)])
    kc = np.linalg.inv(s0.box.vects) @ kvec            # Cartesian wave vector (up to 2 pi): make the field a shear
    amp = amp - 0.7 * kc * np.dot(amp, kc) / np.dot(kc, kc)
    u = np.sin(2 * np.pi * (sfrac @ kvec + rng.uniform(0, 1)))[:, None] * amp[None, :]
    t0 = _deform(s0, F)
    s1 = _system(t0, t0.atoms.pos + u @ np.array(F).T)
    s1.wrap()
    nl1 = s1.neighborlist(cutoff=cut * 1.04)
    base = {'op': 'search-field', 'caseseed': caseseed, 'it': it, 'crystal': name, 'a': a, 'size': list(size), 'F': F,
            'k': kvec.tolist(), 'amplitude': amp.tolist(), 'cutoff': cut}
    ctx.stats.case('oracle:field', (name, a, size, repr(F), tuple(kvec), tuple(amp)), sample=base)

    def fail(key, what, **kw):
        ctx.violate(key, what, dict(base, **kw))
    with warnings.catch_warnings():
        warnings.simplefilter('ignore')
        st = _guard(lambda: am.defect.Strain(s1, neighbors=nl1, basesystem=s0, baseneighbors=nl0))
        if isinstance(st, _Raised):
            fail('field:raises', f'Strain raised {st.text}')
            return
        vals = {}
        for attr, _ in _SPROPS:
            v = _guard(lambda: np.array(getattr(st, attr)))
            if isinstance(v, _Raised):
                fail('field:raises', f'.{attr} raised {v.text}')
                return
            vals[attr] = v
        G = vals['G']
        I3 = np.identity(3)
        E = (2 * I3 - G - np.transpose(G, (0, 2, 1))) / 2
        R = (np.transpose(G, (0, 2, 1)) - G) / 2
        want = {'strain': E, 'rotation': R, 'invariant1': np.trace(E, axis1=1, axis2=2),
                'invariant2': (E[:, 0, 0] * E[:, 1, 1] + E[:, 0, 0] * E[:, 2, 2] + E[:, 1, 1] * E[:, 2, 2]
                               - E[:, 0, 1] ** 2 - E[:, 0, 2] ** 2 - E[:, 1, 2] ** 2),
                'invariant3': np.linalg.det(E),
                'angularvelocity': np.sqrt(R[:, 0, 1] ** 2 + R[:, 0, 2] ** 2 + R[:, 1, 2] ** 2),
                'nye': _nye_from_G(G, s1, nl1, np)}
        for attr, w in want.items():
            v = vals[attr]
            tolv = 1e-10 / a if attr == 'nye' else 1e-12
            if v.shape != w.shape or not np.isfinite(v).all() or np.abs(v - w).max() > tolv:
                k = int(np.abs(v - w).reshape(n, -1).max(1).argmax()) if v.shape == w.shape else 0
                fail('field:' + attr, f'Strain.{attr}[{k}] = {np.asarray(v)[k].tolist()}; from the G the object returns '
                     f'(G[{k}] = {G[k].tolist()}) it follows as {np.asarray(w)[k].tolist()} ({name} {size}, sinusoidal shear '
                     f'field k = {kvec.tolist()}, amplitude {amp.tolist()})', atom=k)
        if np.abs(vals['nye']).max() < 1e-7:
            ctx.extra['field_nye_trivial'] = ctx.extra.get('field_nye_trivial', 0) + 1
        # the older function: same pipeline
        if it % 2 == 0:
            pv = [np.atleast_2d(s0.dvect(i, nl0[i])).copy() for i in range(n)]
            old = _guard(lambda: am.defect.nye_tensor(s1, pv, neighbors=nl1))
            if isinstance(old, _Raised):
                fail('nye_tensor:raises', f'nye_tensor raised {old.text}')
            else:
                for nm, attr in (('strain', 'strain'), ('strain_invariant_1', 'invariant1'), ('strain_invariant_2', 'invariant2'),
                                 ('strain_invariant_3', 'invariant3'), ('angular_velocity', 'angularvelocity'), ('Nye_tensor', 'nye')):
                    tolv = 1e-9 / a if attr == 'nye' else 1e-10
                    if np.shape(old[nm]) != vals[attr].shape or np.abs(old[nm] - vals[attr]).max() > tolv:
                        fail('nye_tensor.' + nm, f'nye_tensor()[{nm!r}] differs from Strain.{attr} on the same inputs by '
                             f'{np.abs(old[nm] - vals[attr]).max() if np.shape(old[nm]) == vals[attr].shape else "shape"}')
        # order of the neighbours, joint translation, consistent renumbering
        nl1s = _shuffled_nlist(am, rng, s1, nl1, n)
        nl0s = _shuffled_nlist(am, rng, s0, nl0, n)
        t = np.array([rng.choice([1, -1]) * rng.choice([0.0, 3.375, 1e3, 3e4]) for _ in range(3)])
        s0t = _system(s0, s0.atoms.pos + t, origin=s0.box.origin + t)
        s1t = _system(s1, s1.atoms.pos + t, origin=s1.box.origin + t)
        perm = list(range(n))
        rng.shuffle(perm)
        inv = np.argsort(perm)
        s0p = _system(s0, s0.atoms.pos[inv])
        s0p.atoms.atype = s0.atoms.atype[inv]
        s1p = _system(s1, s1.atoms.pos[inv])
        s1p.atoms.atype = s0.atoms.atype[inv]
        nl0p = _mk_nlist(am, s0p, [[int(perm[j]) for j in nl0[int(inv[kn])]] for kn in range(n)])
        nl1p = _mk_nlist(am, s1p, [[int(perm[j]) for j in nl1[int(inv[kn])]] for kn in range(n)])
        tolG = 1e-10 + 64 * 2.3e-16 * float(np.abs(t).max()) / a
        for label, mk, back in (
                ('the neighbours of every atom listed in another order', lambda: am.defect.Strain(s1, neighbors=nl1s, basesystem=s0, baseneighbors=nl0s), None),
                (f'both systems translated by {t.tolist()}', lambda: am.defect.Strain(s1t, neighbors=nl1, basesystem=s0t, baseneighbors=nl0), None),
                ('both systems renumbered consistently', lambda: am.defect.Strain(s1p, neighbors=nl1p, basesystem=s0p, baseneighbors=nl0p), perm)):
            o = _guard(mk)
            g2 = o if isinstance(o, _Raised) else _guard(lambda: (np.array(o.G), np.array(o.nye)))
            if isinstance(g2, _Raised):
                fail('field:invariance:raises', f'{label}: {g2.text}')
                continue
            G2, N2 = (g2[0], g2[1]) if back is None else (g2[0][back], g2[1][back])
            if np.abs(G2 - G).max() > tolG:
                k = int(np.abs(G2 - G).reshape(n, -1).max(1).argmax())
                fail('field:invariance:G', f'G[{k}] changes by {np.abs(G2 - G).max():.3e} with {label}', atom=k,
                     translation=t.tolist())
            elif np.abs(N2 - vals['nye']).max() > 50 * tolG / a:
                k = int(np.abs(N2 - vals['nye']).reshape(n, -1).max(1).argmax())
                fail('field:invariance:nye', f'nye[{k}] changes by {np.abs(N2 - vals["nye"]).max():.3e} with {label}', atom=k,
                     translation=t.tolist())


# ----------------------------------------------------------------------------------------
# where the neighbour list comes from: neighbors= / cutoff= / the system's `neighbors` attribute / refusal
# ----------------------------------------------------------------------------------------
def _pick_doc(nb, cu, att):
    """documented precedence ('Either neighbors or cutoff must be given, or system must have a neighbors attribute')."""
    if nb and cu:
        return 'err:assert'
    if nb:
        return 'neighbors'
    if cu:
        return 'cutoff'
    if att:
        return 'attr'
    return 'err:value'


def _err_class(r):
    return 'err:assert' if r.text.startswith('AssertionError') else 'err:value' if r.text.startswith('ValueError') else r.text


_TWO_SHELLS = {'fcc': (0.85, 1.1), 'L12': (0.85, 1.1), 'bcc': (0.93, 1.2), 'B2': (0.93, 1.2)}


def _sources(ctx, caseseed, it, tie):
    """every analysis entry point x every combination of (neighbors= given, cutoff= given, system carries a
    `neighbors` attribute) with three DIFFERENT lists behind the three sources: slip_vector, Strain (system's list and
    basesystem's list), Strain.build_p_vectors, nye_tensor, differential_displacement, DifferentialDisplacement.
    tie=True: the source the Lean model `pickNeighbors` / `strainSources` designates; tie=False: the documented one and
    the property's value for it (rigid slip: count of neighbours across IN THE REQUESTED LIST x relative slip)."""
    np = _np()
    import atomman as am
    import warnings
    rng = random.Random(caseseed)
    cname = rng.choice(sorted(_TWO_SHELLS))
    c1f, c2f = _TWO_SHELLS[cname]
    a = rng.choice([4.05, 3.3, 2.87, 4.0])
    build = _crystals()[cname][0]
    size = [3, 3, 3]
    if rng.random() < 0.4:
        size[rng.randrange(3)] += 1
    s0 = build(a).supersize(*size)
    sc = None
    for _ in range(6):
        sc = _slip_case(rng, s0, a, False, [(c2f, 0)])
        if sc is not None and sc['stable']:
            break
        sc = None
    if sc is None:
        return
    pbc = sc['pbc']
    s0.pbc = pbc
    n = s0.natoms
    c1, c2 = c1f * a, c2f * a
    du, side = sc['du'], sc['side']
    s1 = _system(s0, s0.atoms.pos + du, pbc=pbc)
    s1w = _inbox(s1, np)
    if s1w is None:
        return
    mode = 'tie' if tie else 'oracle'
    base = {'op': 'corr-sources' if tie else 'search-sources', 'caseseed': caseseed, 'it': it, 'crystal': cname, 'a': a,
            'size': size, 'pbc': list(pbc), 'normal_axis': sc['axis'], 'plane': sc['mid'], 'u_above': sc['uA'].tolist(),
            'u_below': sc['uB'].tolist(), 'cutoffs': [c1, c2]}
    ctx.stats.case('sources:' + mode, (cname, a, tuple(size), pbc, sc['axis'], sc['mid'], tuple(sc['uA']), tuple(sc['uB'])),
                   sample=base)

    def report(key, what, **kw):
        (ctx.disagree if tie else ctx.violate)(key, what, dict(base, **kw))

    def lists_of(sysm, thin_seed):
        la = _lists_of(sysm.neighborlist(cutoff=c1), n)
        lb = _lists_of(sysm.neighborlist(cutoff=c2), n)
        r2 = random.Random(thin_seed)
        lc = [[j for j in l if (j > i or r2.random() < 0.3)] for i, l in enumerate(lb)]
        if not any(lc):
            lc = [l[:1] for l in lb]
        return {'A': la, 'B': lb, 'C': lc}

    def expected(nb, cu, att):
        if tie:
            return ctx.driver.ask(f'src {int(nb)} {int(cu)} {int(att)}')
        return _pick_doc(nb, cu, att)
    # three different lists behind the three sources ------------------------------------------------------
    L0 = lists_of(s0, caseseed)
    cutkey = rng.choice(['A', 'B'])
    cutv = c1 if cutkey == 'A' else c2
    attkey, nbkey = rng.sample([k for k in 'ABC' if k != cutkey], 2)
    role = {'neighbors': nbkey, 'cutoff': cutkey, 'attr': attkey}
    base['lists'] = {'neighbors=': nbkey, 'cutoff=': f'{cutv:.4f} ({cutkey})', 'attribute': attkey,
                     'A': 'first shell', 'B': 'two shells', 'C': 'two shells, thinned'}
    rel = np.where(side[:, None], sc['uA'] - sc['uB'], sc['uB'] - sc['uA'])

    def obj(sysm, key, L):
        return _mk_nlist(am, sysm, L[key])

    def with_attr(sysm, att, L):
        t = _system(sysm, sysm.atoms.pos.copy(), pbc=sysm.pbc)
        if att:
            t.neighbors = obj(t, role['attr'], L)
        return t
    combos = [(nb, cu, att) for nb in (False, True) for cu in (False, True) for att in (False, True)]
    tolr = 1e-9 * float(np.abs(s0.box.vects).max())
    # slip_vector ------------------------------------------------------------------------------------------
    for nb, cu, att in combos:
        exp = expected(nb, cu, att)
        x0 = with_attr(s0, att, L0)
        kw = {}
        if nb:
            kw['neighbors'] = obj(s0, role['neighbors'], L0)
        if cu:
            kw['cutoff'] = cutv
        got = _guard(lambda: am.defect.slip_vector(x0, s1w, **kw))
        call = f'slip_vector(system_0{" [carrying .neighbors]" if att else ""}, system_1' + ''.join(f', {k}=…' for k in kw) + ')'
        if exp.startswith('err:'):
            if not isinstance(got, _Raised) or _err_class(got) != exp:
                report('sources:slip_vector:refusal', f'{call}: expected {"AssertionError" if exp == "err:assert" else "ValueError"}, got '
                       f'{got.text if isinstance(got, _Raised) else "values"}', combo=[nb, cu, att])
            continue
        if isinstance(got, _Raised):
            report('sources:slip_vector:raises', f'{call} raised {got.text}', combo=[nb, cu, att])
            continue
        lst = L0[role[exp]]
        across = np.array([sum(1 for j in lst[i] if side[j] != side[i]) for i in range(n)])
        want = across[:, None] * rel
        k = _bad(got, want, tolr * 20) if got.shape == want.shape else 0
        if k is not None:
            report('sources:slip_vector', f'{call}: slip vector of atom {k} is {got[k].tolist()}; the list to use is the one of '
                   f'{exp}{"=" if exp != "attr" else "ibute"} ({base["lists"][role[exp]]}): {int(across[k])} neighbours across x '
                   f'{rel[k].tolist()} = {want[k].tolist()}', combo=[nb, cu, att], atom=k)
    # slip_vector with systems of DIFFERENT size: ValueError for every combination (the count is checked before the block)
    short_ = am.System(atoms=am.Atoms(atype=1, pos=s1w.atoms.pos[:-1].copy()), box=s1w.box, pbc=s1w.pbc)
    for nb, cu, att in combos:
        exp = ctx.driver.ask(f'slipentry {n} {n - 1} {int(nb)} {int(cu)} {int(att)}') if tie else 'err:value'
        x0 = with_attr(s0, att, L0)
        kw = {}
        if nb:
            kw['neighbors'] = obj(s0, role['neighbors'], L0)
        if cu:
            kw['cutoff'] = cutv
        got = _guard(lambda: am.defect.slip_vector(x0, short_, **kw))
        if not isinstance(got, _Raised) or _err_class(got) != exp:
            report('sources:slip_vector:count', f'slip_vector(system_0 [{n} atoms], system_1 [{n - 1} atoms]' + ''.join(f', {k}=…' for k in kw)
                   + f'): expected {"ValueError" if exp == "err:value" else exp}, got {got.text if isinstance(got, _Raised) else "values"}',
                   combo=[nb, cu, att])
    # differential displacement: function form (8 combinations) and class (the attribute is never a source) --------
    I = J = None
    if it % 2 == 0:
        import matplotlib
        matplotlib.use('Agg')
        import matplotlib.pyplot as plt
        big = float(np.abs(s0.box.vects).sum() + np.abs(s0.atoms.pos).max() + 10)
        for nb, cu, att in combos:
            exp = expected(nb, cu, att)
            x0 = with_attr(s0, att, L0)
            kw = {}
            if nb:
                kw['neighbors'] = obj(s0, role['neighbors'], L0)
            if cu:
                kw['cutoff'] = cutv
            try:
                got = _guard(lambda: am.defect.differential_displacement(x0, s1w, [1.0, 0.0, 0.0], return_data=True, xlim=(-big, big),
                                                                         ylim=(-big, big), zlim=(-big, big), **kw))
            finally:
                plt.close('all')
            call = f'differential_displacement(system_0{" [carrying .neighbors]" if att else ""}, system_1' + ''.join(f', {k}=…' for k in kw) + ')'
            if exp.startswith('err:'):
                if not isinstance(got, _Raised) or _err_class(got) != exp:
                    report('sources:differential_displacement:refusal', f'{call}: expected {exp}, got '
                           f'{got.text if isinstance(got, _Raised) else "values"}', combo=[nb, cu, att])
                continue
            if isinstance(got, _Raised):
                report('sources:differential_displacement:raises', f'{call} raised {got.text}', combo=[nb, cu, att])
                continue
            data = got[1] if isinstance(got, tuple) else got
            v = np.asarray(data['vectors'])
            lst = L0[role[exp]]
            I, J = _pairs(lst, n, np)
            want = du[J] - du[I]
            if v.shape != want.shape or np.abs(v - want).max() > tolr * 2:
                report('sources:differential_displacement', f'{call}: {len(v)} vectors; the list of {exp} ({base["lists"][role[exp]]}) has '
                       f'{len(want)} pairs' + ('' if v.shape != want.shape else f', vectors differ by {np.abs(v - want).max():.3e}'),
                       combo=[nb, cu, att])
    for how in ('neighbors', 'cutoff'):
        x0 = with_attr(s0, True, L0)
        x1 = _system(s1w, s1w.atoms.pos.copy(), pbc=pbc)
        x1.neighbors = obj(x1, role['attr'], L0)
        kw = {'neighbors': obj(s0, role['neighbors'], L0)} if how == 'neighbors' else {'cutoff': cutv}
        got = _guard(lambda: am.defect.DifferentialDisplacement(x0, x1, reference=0, **kw).ddvectors)
        lst = L0[role[how]]
        I, J = _pairs(lst, n, np)
        want = du[J] - du[I]
        if isinstance(got, _Raised) or got.shape != want.shape or np.abs(got - want).max() > tolr * 2:
            report('sources:DifferentialDisplacement', f'DifferentialDisplacement(systems carrying .neighbors, {how}=…, reference=0): '
                   f'{got.text if isinstance(got, _Raised) else str(len(got)) + " vectors"}; the list of {how}= has {len(want)} pairs',
                   how=how)
    # Strain / build_p_vectors / nye_tensor on a NON-homogeneous state (G depends on the lists used) ----------------
    F = _rand_F(rng, 'general')
    s0f = _system(s0, s0.atoms.pos.copy(), pbc=(True, True, True))
    sfrac = s0f.box.position_cartesian_to_relative(s0f.atoms.pos)
    kvec = np.array([1, rng.choice([0, 1]), rng.choice([0, 1])])
    uf = np.sin(2 * np.pi * (sfrac @ kvec + rng.uniform(0, 1)))[:, None] * np.array([rng.uniform(-0.01, 0.01) * a for _ in range(3)])
    t0 = _deform(s0f, F)
    t1 = _system(t0, t0.atoms.pos + uf @ np.array(F).T)
    t1.wrap()
    L1 = lists_of(t1, caseseed + 1)
    Lb = lists_of(s0f, caseseed + 2)
    pv1 = [np.atleast_2d(s0f.dvect(i, Lb['A'][i])).copy() for i in range(n)]
    cache = {}

    def explicit(syskey, basekey):
        """G / p-vector counts / coordination of the explicit construction with the designated lists."""
        if (syskey, basekey) not in cache:
            if basekey is None:
                e = am.defect.Strain(t1, neighbors=obj(t1, syskey, L1), p_vectors=[p.copy() for p in pv1])
            else:
                e = am.defect.Strain(t1, neighbors=obj(t1, syskey, L1), basesystem=s0f, baseneighbors=obj(s0f, basekey, Lb))
            cache[(syskey, basekey)] = (np.array(e.G), [len(p) for p in e.p_vectors], np.array(e.neighbors.coord))
        return cache[(syskey, basekey)]
    flags = [(nb, cu, att, False, False, False) for nb, cu, att in combos]
    more = [(nb, cu, att, True, bn, ba) for nb, cu, att in combos for bn in (False, True) for ba in (False, True)]
    rng.shuffle(more)
    flags += more[:10]
    with warnings.catch_warnings():
        warnings.simplefilter('ignore')
        for nb, cu, att, bs, bn, ba in flags:
            if tie:
                exp = ctx.driver.ask(f'srcs {int(nb)} {int(cu)} {int(att)} {int(bs)} {int(bn)} {int(ba)}')
            else:
                e1 = _pick_doc(nb, cu, att)
                e2 = _pick_doc(bn, cu, ba) if bs else 'none'
                if bs and bn and cu:
                    continue             # (baseneighbors together with the shared cutoff: not documented either way; tie only)
                exp = e1 if e1.startswith('err:') else e2 if e2.startswith('err:') else (e1 + ' ' + ('baseneighbors' if e2 == 'neighbors' else e2))
            x1 = with_attr(t1, att, L1)
            xb = with_attr(s0f, ba, Lb)
            kw = {}
            if nb:
                kw['neighbors'] = obj(t1, role['neighbors'], L1)
            if cu:
                kw['cutoff'] = cutv
            if bs:
                kw['basesystem'] = xb
                if bn:
                    kw['baseneighbors'] = obj(s0f, role['neighbors'], Lb)
            else:
                kw['p_vectors'] = [p.copy() for p in pv1]
            call = (f'Strain(system{" [carrying .neighbors]" if att else ""}' + ''.join(f', {k}=…' for k in kw)
                    + (' [basesystem carrying .neighbors]' if bs and ba else '') + ')')
            got = _guard(lambda: am.defect.Strain(x1, **kw))
            res = got if isinstance(got, _Raised) else _guard(lambda: (np.array(got.G), [len(p) for p in got.p_vectors],
                                                                       np.array(got.neighbors.coord)))
            if exp.startswith('err:'):
                if not isinstance(got, _Raised) or _err_class(got) != exp:
                    report('sources:Strain:refusal', f'{call}: expected {exp} from the constructor, got '
                           f'{got.text if isinstance(got, _Raised) else "an object"}', flags=[nb, cu, att, bs, bn, ba])
                continue
            if isinstance(res, _Raised):
                report('sources:Strain:raises', f'{call} raised {res.text}', flags=[nb, cu, att, bs, bn, ba])
                continue
            es, eb = exp.split()
            eb = None if eb == 'none' else role['neighbors' if eb == 'baseneighbors' else eb]
            wG, wp, wc = explicit(role[es], eb)
            if list(res[2]) != list(wc):
                report('sources:Strain:list', f'{call}: the object uses a list with coordination {sorted(set(res[2].tolist()))}; the list '
                       f'to use is the one of {es} ({base["lists"][role[es]]}: {sorted(set(wc.tolist()))})', flags=[nb, cu, att, bs, bn, ba])
            elif res[1] != wp:
                report('sources:Strain:p_vectors', f'{call}: p vectors per atom {sorted(set(res[1]))}; the base list to use is the one of '
                       f'{exp.split()[1]} ({sorted(set(wp))} per atom)', flags=[nb, cu, att, bs, bn, ba])
            elif np.abs(res[0] - wG).max() > 1e-12:
                report('sources:Strain:G', f'{call}: G differs by {np.abs(res[0] - wG).max():.3e} from the object built explicitly with '
                       f'the lists of {exp}', flags=[nb, cu, att, bs, bn, ba])
        # build_p_vectors on an existing object, nye_tensor()
        for nb, cu, att in combos:
            exp = expected(nb, cu, att)
            xb = with_attr(s0f, att, Lb)
            kw = {}
            if nb:
                kw['neighbors'] = obj(s0f, role['neighbors'], Lb)
            if cu:
                kw['cutoff'] = cutv
            o = am.defect.Strain(t1, neighbors=obj(t1, 'A', L1))
            got = _guard(lambda: o.build_p_vectors(xb, **kw))
            call = f'build_p_vectors(basesystem{" [carrying .neighbors]" if att else ""}' + ''.join(f', {k}=…' for k in kw) + ')'
            if exp.startswith('err:'):
                if not isinstance(got, _Raised) or _err_class(got) != exp:
                    report('sources:build_p_vectors:refusal', f'{call}: expected {exp}, got {got.text if isinstance(got, _Raised) else "no exception"}',
                           combo=[nb, cu, att])
            elif isinstance(got, _Raised):
                report('sources:build_p_vectors:raises', f'{call} raised {got.text}', combo=[nb, cu, att])
            else:
                lst = Lb[role[exp]]
                wantp = [np.atleast_2d(s0f.dvect(i, lst[i])) if len(lst[i]) else np.zeros((0, 3)) for i in range(n)]
                gp = [np.atleast_2d(np.asarray(p, dtype=float)) if np.size(p) else np.zeros((0, 3)) for p in o.p_vectors]
                badp = [i for i in range(n) if gp[i].shape != wantp[i].shape or (gp[i].size and np.abs(gp[i] - wantp[i]).max() > 1e-12)]
                if badp:
                    i = badp[0]
                    report('sources:build_p_vectors', f'{call}: atom {i} gets {len(gp[i])} p vectors; the list to use is the one of {exp} '
                           f'({len(wantp[i])} neighbours)', combo=[nb, cu, att], atom=i)
            x1 = with_attr(t1, att, L1)
            kw = {}
            if nb:
                kw['neighbors'] = obj(t1, role['neighbors'], L1)
            if cu:
                kw['cutoff'] = cutv
            got = _guard(lambda: am.defect.nye_tensor(x1, [p.copy() for p in pv1], **kw))
            call = f'nye_tensor(system{" [carrying .neighbors]" if att else ""}, p_vectors' + ''.join(f', {k}=…' for k in kw) + ')'
            if exp.startswith('err:'):
                if not isinstance(got, _Raised) or _err_class(got) != exp:
                    report('sources:nye_tensor:refusal', f'{call}: expected {exp}, got {got.text if isinstance(got, _Raised) else "values"}',
                           combo=[nb, cu, att])
            elif isinstance(got, _Raised):
                report('sources:nye_tensor:raises', f'{call} raised {got.text}', combo=[nb, cu, att])
            else:
                key = ('nye_tensor', role[exp])
                if key not in cache:
                    cache[key] = am.defect.nye_tensor(t1, [p.copy() for p in pv1], neighbors=obj(t1, role[exp], L1))
                w = cache[key]
                for nm in ('strain', 'Nye_tensor'):
                    if np.shape(got[nm]) != np.shape(w[nm]) or np.abs(got[nm] - w[nm]).max() > 1e-12:
                        report('sources:nye_tensor', f'{call}: {nm} differs by {np.abs(got[nm] - w[nm]).max():.3e} from the call with the '
                               f'list of {exp} given explicitly', combo=[nb, cu, att])
                        break


# ----------------------------------------------------------------------------------------
# counts and thresholds: MANY complete shells (lists of 100-250 neighbours built by atomman from the cutoff, > 65536
# pairs) and MANY atoms (> 4096 / 8192 / ... atoms); expected neighbours from an independent exact lattice count
# ----------------------------------------------------------------------------------------
_LATTICE_SHELLS = {}


def _lattice_shells(lat, R=11):
    """[(r2, [offsets])] of the fcc / bcc lattice, ascending; lengths in units of a/2, exact integers (complete up to
    radius R)."""
    if lat not in _LATTICE_SHELLS:
        out = {}
        for x in range(-R, R + 1):
            for y in range(-R, R + 1):
                for z in range(-R, R + 1):
                    r2 = x * x + y * y + z * z
                    if r2 == 0 or r2 > R * R:
                        continue
                    if ((x + y + z) % 2 == 0) if lat == 'fcc' else (x % 2 == y % 2 == z % 2):
                        out.setdefault(r2, []).append((x, y, z))
        _LATTICE_SHELLS[lat] = [(k, out[k]) for k in sorted(out)]
    return _LATTICE_SHELLS[lat]


def _exact_neighbours(K, D, pbc, offsets, np):
    """neighbour pairs (I, J) of the lattice sites K (integer coordinates in units of a/2, inside the grid D) at the
    given integer offsets, through the periodic faces of the supercell; exact integer arithmetic, no distances."""
    n = len(K)
    idx = -np.ones(tuple(D), dtype=np.int64)
    idx[K[:, 0], K[:, 1], K[:, 2]] = np.arange(n)
    T = K[:, None, :] + offsets[None, :, :]
    valid = np.ones(T.shape[:2], dtype=bool)
    for k in range(3):
        if pbc[k]:
            T[:, :, k] %= D[k]
        else:
            valid &= (T[:, :, k] >= 0) & (T[:, :, k] < D[k])
            T[:, :, k] = np.clip(T[:, :, k], 0, D[k] - 1)
    Jm = idx[T[:, :, 0], T[:, :, 1], T[:, :, 2]]
    assert (Jm[valid] >= 0).all()
    I = np.repeat(np.arange(n), len(offsets)).reshape(n, -1)[valid]
    J = Jm[valid]
    o = np.lexsort((J, I))
    return I[o], J[o]


def _search_big(ctx, caseseed, it):
    """rigid slip of a half crystal analysed with (a) a LARGE complete-shell cutoff (10-12 shells: 130-250 neighbours per atom,
    more than 40 atoms and ghosts per cutoff-sized bin of the list builder, > 65536 pairs) and (b) MANY atoms (just above
    4096, in thorough also 8192 / 16384 / 65536) with one or two shells.  The neighbour list is built by atomman from the
    cutoff; the expected number of neighbours across the plane comes from an exact integer lattice count."""
    np = _np()
    import atomman as am
    rng = random.Random(caseseed)
    lat = rng.choice(['fcc', 'bcc'])
    variant = ['shells', 'atoms', 'shells256'][it % 3]
    shells = _lattice_shells(lat)
    if variant == 'shells':
        k = rng.choice([10, 11, 12])
    elif variant == 'shells256':
        # more than 255 neighbours per atom (fcc: 13 shells = 320, 14 = 368; bcc: 13 = 258, 14 = 282); thorough: > 1000
        k = rng.choice([13, 14])
        if ctx.thorough and it % 6 == 5:
            k = next(kk for kk in range(1, len(shells)) if sum(len(o) for _, o in shells[:kk]) > 1000)
    else:
        k = rng.choice([1, 2])
    c2 = (shells[k - 1][0] + shells[k][0]) / 2          # cutoff^2 strictly between the k-th and the (k+1)-th shell
    a = rng.choice([4.05, 3.3, 2.87, 4.0, 3.52])
    cut = 0.5 * a * math.sqrt(c2)
    offsets = np.array([o for _, offs in shells[:k] for o in offs], dtype=np.int64)
    axis = rng.randrange(3)
    pbc = [True, True, True]
    r = rng.random()
    if r < 0.5:
        pbc[axis] = False
    elif r < 0.65:
        pbc[(axis + 1) % 3] = False
    per = 4 if lat == 'fcc' else 2
    # periodic edges m a with m a / 2 > cutoff + the largest relative displacement (0.36 a) + margin: no image flips
    mper = int(math.ceil(2 * (cut / a + 0.4) + 1e-9))
    size = [mper + rng.choice([0, 0, 1]) for _ in range(3)]
    if not pbc[axis]:
        size[axis] = mper if variant == 'shells256' else max(2, rng.choice([mper - 2, mper - 1, mper]))
    if variant == 'atoms':
        thr = rng.choice([4096, 4096, 8192, 16384, 65536]) if ctx.thorough else 4096
        cb = int(round((thr / per) ** (1 / 3)))            # (roughly cubic blocks; the atom count lands just above the threshold)
        m1, m2 = rng.randint(max(mper, cb - 3), cb + 3), rng.randint(max(mper, cb - 3), cb + 3)
        size = [m1, m2, max(mper, thr // (per * m1 * m2) + 1)]
        rng.shuffle(size)
    size = tuple(size)
    sites = [[0, 0, 0], [.5, .5, 0], [.5, 0, .5], [0, .5, .5]] if lat == 'fcc' else [[0, 0, 0], [.5, .5, .5]]
    s0 = am.System(atoms=am.Atoms(atype=1, pos=sites), box=am.Box.cubic(a), scale=True).supersize(*size)
    s0.pbc = tuple(pbc)
    n = s0.natoms
    Kf = 2 * s0.atoms.pos / a
    K = np.rint(Kf).astype(np.int64)
    D = [2 * m for m in size]
    assert np.abs(Kf - K).max() < 1e-9 and (K >= 0).all() and (K < np.array(D)).all()
    I, J = _exact_neighbours(K, D, pbc, offsets, np)
    coordx = np.bincount(I, minlength=n)
    # the slip
    p = rng.randrange(1, D[axis] - 2)
    mid = (p + rng.choice([0.5, 0.25, 0.75])) * a / 2
    side = K[:, axis] > p

    def vec(sc_):
        v = np.array([rng.randint(-int(sc_ * a * 1000), int(sc_ * a * 1000)) / 1000 for _ in range(3)])
        v[axis] = 0.0
        for k_ in range(3):
            if not pbc[k_]:
                v[k_] = 0.0               # (atoms stay inside the cell along non-periodic directions)
        return v
    uA = vec(0.25)
    uB = vec(0.1) if rng.random() < 0.4 else np.zeros(3)
    uB = np.where(np.abs(uA - uB) > 0.25 * a, 0.0, uB)
    if not (uA - uB).any():
        uA[(axis + 2) % 3] += 0.125 * a
    du = np.where(side[:, None], uA, uB)
    rel = np.where(side[:, None], uA - uB, uB - uA)
    across = np.bincount(I, weights=(side[I] != side[J]).astype(float), minlength=n).astype(int)
    exp_slip = across[:, None] * rel
    exp_dd = du[J] - du[I]
    s1 = _system(s0, s0.atoms.pos + du, pbc=tuple(pbc))
    s1c = _inbox(s1, np)
    wrapped = variant == 'atoms' or rng.random() < 0.5
    if wrapped:
        # (handed to displacement and slip_vector(neighbors=): the same configuration with atoms moved by box vectors)
        s1 = _system(s0, _wrapshift(rng, s1, np), pbc=tuple(pbc))
    base = {'op': 'search-big', 'caseseed': caseseed, 'it': it, 'lattice': lat, 'a': a, 'size': list(size), 'natoms': n,
            'shells': k, 'cutoff': cut, 'cutoff_over_a': cut / a, 'neighbours_per_bulk_atom': int(coordx.max()), 'pairs': int(len(I)),
            'pbc': list(pbc), 'normal_axis': axis, 'plane': mid, 'u_above': uA.tolist(), 'u_below': uB.tolist(), 'variant': variant,
            'wrapped': wrapped}
    ctx.stats.case('oracle:big:' + variant, (lat, a, size, k, tuple(pbc), axis, mid, tuple(uA), tuple(uB)), sample=base)
    ctx.extra['big_neighbours_max'] = max(ctx.extra.get('big_neighbours_max', 0), int(coordx.max()))
    ctx.extra['big_pairs_max'] = max(ctx.extra.get('big_pairs_max', 0), int(len(I)))
    ctx.extra['big_atoms_max'] = max(ctx.extra.get('big_atoms_max', 0), n)
    L = float(np.abs(s0.box.vects).max())
    tol = 1e-9 * L

    def fail(key, what, i=None, **kw):
        ctx.violate(key, what + f' [{lat} {size}, a = {a}, pbc {pbc}, {k} complete shells inside the cutoff {cut / a:.4f} a = '
                    f'{int(coordx.max())} neighbours per bulk atom, {n} atoms, {len(I)} pairs; upper half (axis {axis} above {mid:.4f}) '
                    f'moved by {uA.tolist()}, lower by {uB.tolist()}]', dict(base, atom=i, **kw))
    # displacement
    for bref in ('final', 'initial'):
        d = _guard(lambda: am.displacement(s0, s1, box_reference=bref))
        if isinstance(d, _Raised):
            fail('displacement:raises', f'displacement(box_reference={bref!r}) raised {d.text}')
        else:
            kb = -1 if d.shape != du.shape else _bad(d, du, tol)
            if kb is not None:
                fail('displacement', f'displacement(box_reference={bref!r}) of atom {kb} is {d[kb].tolist() if kb >= 0 else d.shape}, '
                     f'imposed {du[max(kb, 0)].tolist()}{" (atoms of system_1 moved by box vectors)" if wrapped else ""}', kb)
    # the list atomman builds for the cutoff (the one the cutoff= paths use)
    nl = _guard(lambda: am.NeighborList(system=s0, cutoff=cut))
    lists_ok = False
    if isinstance(nl, _Raised):
        fail('nlist:raises', f'NeighborList(cutoff=) raised {nl.text}')
        nl = None
    else:
        got = np.asarray(nl.coord)
        In, Jn = _pairs(nl, n, np)
        o = np.lexsort((Jn, In))
        lists_ok = len(In) == len(I) and np.array_equal(In[o], I) and np.array_equal(Jn[o], J)
    for how in ('cutoff=', 'neighbors='):
        if how == 'neighbors=' and nl is None:
            continue
        if how == 'cutoff=' and s1c is None:
            continue
        sv = _guard(lambda: am.defect.slip_vector(s0, s1c, cutoff=cut) if how == 'cutoff=' else am.defect.slip_vector(s0, s1, neighbors=nl))
        if isinstance(sv, _Raised):
            fail('slip_vector:raises', f'slip_vector({how}) raised {sv.text}')
            continue
        kb = -1 if sv.shape != exp_slip.shape else _bad(sv, exp_slip, tol * 20)
        if kb is not None:
            kk = max(kb, 0)
            fail('slip_vector', f'slip_vector({how}) of atom {kb} is {sv[kb].tolist() if kb >= 0 else sv.shape}, expected {int(across[kk])} '
                 f'neighbours across the plane (exact lattice count) x (own - other half displacement {rel[kk].tolist()}) = '
                 f'{exp_slip[kk].tolist()}; the complete shells hold {int(coordx[kk])} neighbours of this atom'
                 + (f', the list built for the cutoff {int(got[kk])}' if nl is not None else ''), kb)
            break
    # differential displacement of every pair of the cutoff's list
    if s1c is not None:
        dd = _guard(lambda: am.defect.DifferentialDisplacement(s0, s1c, cutoff=cut, reference=0).ddvectors)
        if isinstance(dd, _Raised):
            fail('ddvectors:raises', f'DifferentialDisplacement(cutoff=, reference=0) raised {dd.text}')
        elif len(dd) != len(I):
            fail('ddvectors', f'DifferentialDisplacement(cutoff=, reference=0): {len(dd)} pair vectors, the complete shells hold '
                 f'{len(I)} pairs')
        elif lists_ok:
            e_ = du[Jn] - du[In]
            kb = _bad(dd, e_, tol * 2)
            if kb is not None:
                fail('ddvectors', f'DifferentialDisplacement(cutoff=, reference=0).ddvectors[{kb}] (pair {int(In[kb])}-{int(Jn[kb])}) = '
                     f'{dd[kb].tolist()}, difference of the imposed displacements {e_[kb].tolist()}', pair=kb)
    if variant != 'atoms':
        return
    # many atoms: homogeneous deformation, G = F^-T at EVERY atom, Nye = 0, displacement, dd
    F = _rand_F(rng, rng.choice(['general', 'rotation', 'strain', 'single']))
    s0p = _system(s0, s0.atoms.pos.copy(), pbc=(True, True, True))
    s1h = _deform(s0p, F)
    s1hw = _system(s1h, _wrapshift(rng, s1h, np))          # (for displacement: atoms moved by box vectors of the deformed cell)
    Fq = _fr_mat(F)
    Finv = _inv3(Fq)
    Gf = np.array([[float(Finv[j][i]) for j in range(3)] for i in range(3)])
    base['F'] = F
    st = _guard(lambda: am.defect.Strain(s1h, cutoff=cut, basesystem=s0p))
    G = st if isinstance(st, _Raised) else _guard(lambda: st.G)
    if isinstance(G, _Raised):
        fail('Strain:raises', f'Strain(cutoff=, basesystem=) raised {G.text}')
    else:
        kb = -1 if G.shape != (n, 3, 3) else _bad(G.reshape(n, 9), np.tile(Gf.ravel(), (n, 1)), 2e-9)
        if kb is not None:
            fail('Strain.G', f'Strain(cutoff=).G[{kb}] = {G[kb].tolist() if kb >= 0 else G.shape}, inverse transpose of F = {Gf.tolist()}', kb)
        ny = _guard(lambda: st.nye)
        if isinstance(ny, _Raised):
            fail('Strain:raises', f'Strain(cutoff=).nye raised {ny.text}')
        elif not np.isfinite(ny).all() or np.abs(ny).max() > 1e-8 / a:
            kb = int(np.abs(ny).reshape(n, -1).max(1).argmax())
            fail('Strain.nye', f'Strain(cutoff=).nye[{kb}] = {ny[kb].tolist()} for a homogeneous deformation (expected 0)', kb)
    # (F - I) x taken through the periodic boundaries of the deformed cell (far from the origin it exceeds half a cell)
    exp_h, nh_, dech_ = _mi(s1h.box.vects, (True, True, True), s0p.atoms.pos @ (np.array(F) - np.identity(3)).T, np)
    draw_ = s1hw.atoms.pos - s0p.atoms.pos
    dech_ &= (np.abs(np.rint((exp_h - draw_) @ np.linalg.inv(s1h.box.vects))) <= 1).all(1)      # (within dvect's 27 images)
    d = _guard(lambda: am.displacement(s0p, s1hw))
    kb = -2 if isinstance(d, _Raised) else -1 if d.shape != exp_h.shape else None
    if kb is None and dech_.any():
        kk_ = _bad(d[dech_], exp_h[dech_], tol)
        kb = None if kk_ is None else int(np.where(dech_)[0][kk_])
    if kb is not None:
        fail('displacement', f'displacement under the homogeneous F = {F}: {d.text if kb == -2 else d[kb].tolist() if kb >= 0 else d.shape}, '
             f'imposed (F-I)x through the periodic boundaries = {exp_h[max(kb, 0)].tolist()}', kb)


def search(ctx, broken):
    rng = random.Random(ctx.seed * 7919 + 17)
    mult = 2 if broken else 1
    for it in range(ctx.n(20, 60) * mult):
        _guarded_case(ctx, 'search', _search_slip, rng.getrandbits(48), it)
    for it in range(ctx.n(12, 40) * mult):
        _guarded_case(ctx, 'search', _search_homog, rng.getrandbits(48), it)
    for it in range(ctx.n(12, 60) * mult):
        _guarded_case(ctx, 'search', _search_p_supply, rng.getrandbits(48), it)
    for it in range(ctx.n(20, 80) * mult):
        _guarded_case(ctx, 'search', _strain_sequence, rng.getrandbits(48), it, False)
    for it in range(ctx.n(16, 80) * mult):
        _guarded_case(ctx, 'search', _dd_sequence, rng.getrandbits(48), it, False)
    for it in range(ctx.n(14, 60) * mult):
        _guarded_case(ctx, 'search', _shells, rng.getrandbits(48), it, False)
    for it in range(ctx.n(8, 40) * mult):
        _guarded_case(ctx, 'search', _search_field, rng.getrandbits(48), it)
    for it in range(ctx.n(5, 30) * mult):
        _guarded_case(ctx, 'search', _sources, rng.getrandbits(48), it, False)
    for it in range(ctx.n(3, 12) * mult):
        _guarded_case(ctx, 'search', _search_big, rng.getrandbits(48), it)


def _guarded_case(ctx, phase, f, caseseed, it, *more):
    """an exception escaping a case is an observation (reported with its input), never a crash of the harness."""
    import time
    t0 = time.time()
    try:
        f(ctx, caseseed, it, *more)
        k = 'seconds:' + phase + ':' + f.__name__.lstrip('_')
        ctx.extra[k] = round(ctx.extra.get(k, 0.0) + time.time() - t0, 2)
    except cm.InfraError:
        raise
    except Exception as e:   # noqa
        import traceback
        tb = traceback.format_exc().strip().splitlines()
        op = {'_strain_sequence': 'sobj', '_dd_sequence': 'dobj', '_search_p_supply': 'search-psupply', '_corr_slip': 'corr-slip',
              '_corr_strain': 'corr-strain', '_search_slip': 'search-slip', '_search_homog': 'search-homog',
              '_shells': 'shells', '_sources': 'sources', '_search_field': 'search-field', '_search_big': 'search-big'}.get(f.__name__, f.__name__)
        if op in ('sobj', 'dobj', 'shells', 'sources'):
            op = ('corr-' if more and more[0] else 'search-') + op
        (ctx.disagree if phase == 'corr' else ctx.violate)(
            'exception:' + op, f'{type(e).__name__}: {e} ({" | ".join(t.strip() for t in tb[-3:])})',
            {'op': op, 'caseseed': caseseed, 'it': it})


def replay(ctx, payload):
    """re-run one stored case (cases are regenerated from their own seed) against the current tree."""
    r = payload.get('replay') or {}
    if not r and payload.get('disagreements'):
        r = payload['disagreements'][0] or {}
    op = r.get('op')
    if op == 'search-slip':
        _search_slip(ctx, r['caseseed'], r['it'])
    elif op == 'search-homog':
        _search_homog(ctx, r['caseseed'], r['it'])
    elif op == 'corr-slip':
        _corr_slip(ctx, r['caseseed'], r['it'])
    elif op == 'corr-strain':
        _corr_strain(ctx, r['caseseed'], r['it'])
    elif op == 'corr-match':
        _corr_match(ctx, r['caseseed'], r['index'] + 1)
    elif op in ('corr-sobj', 'search-sobj'):
        _strain_sequence(ctx, r['caseseed'], r['it'], op == 'corr-sobj')
    elif op in ('corr-dobj', 'search-dobj'):
        _dd_sequence(ctx, r['caseseed'], r['it'], op == 'corr-dobj')
    elif op == 'search-psupply':
        _search_p_supply(ctx, r['caseseed'], r['it'])
    elif op in ('corr-shells', 'search-shells'):
        _shells(ctx, r['caseseed'], r['it'], op == 'corr-shells')
    elif op in ('corr-sources', 'search-sources'):
        _sources(ctx, r['caseseed'], r['it'], op == 'corr-sources')
    elif op == 'search-field':
        _search_field(ctx, r['caseseed'], r['it'])
    elif op == 'search-big':
        _search_big(ctx, r['caseseed'], r['it'])
    else:
        correspond(ctx)
        search(ctx, True)
    for f in ctx.violations + ctx.disagreements:
        print('replay:', f.key, '-', f.what)
    if ctx.disagreements and not ctx.violations:
        d = ctx.disagreements[0]
        ctx.violate(d.key, d.what, d.replay)


# ----------------------------------------------------------------------------------------
# translator: the straight-line formulas, comparison operators, branch chains and call arguments of the anchored
# sources -> lean/Atomman/Generated/DeformSource.lean  (checked against the hand model in Proofs/C17_Source.lean)
# ----------------------------------------------------------------------------------------
GENERATED = ['DeformSource']
_XYZ = 'xyz'


def _split_top(s):
    out, d, cur = [], 0, ''
    for ch in s:
        if ch in '([{':
            d += 1
        elif ch in ')]}':
            d -= 1
        if ch == ',' and d == 0:
            out.append(cur)
            cur = ''
        else:
            cur += ch
    if cur.strip():
        out.append(cur)
    return out


def _decython(src, what):
    """Cython -> Python: `cimport` lines dropped, `cdef f(<typed args>)` -> `def f(<names>)`, `cdef <type> x = e` -> `x = e`,
    bare `cdef` declarations dropped.  Everything else (all expressions, tests, loops) is left to `ast`."""
    import ast
    import re
    from ..translate import TranslationError
    lines = src.split('\n')
    out = []
    k = 0
    while k < len(lines):
        ln = lines[k]
        st = ln.strip()
        if re.match(r'(cimport\b|from\s+\S+\s+cimport\b)', st):
            out.append('')
            k += 1
            continue
        m = re.match(r'^(\s*)cp?def\s+(?:inline\s+)?(\w+)\s*\(', ln)
        if m:
            text = ln[m.end():]
            d, buf, kk, rest = 1, '', k, None
            while rest is None:
                for pos, ch in enumerate(text):
                    if ch in '([':
                        d += 1
                    elif ch in ')]':
                        d -= 1
                    if d == 0:
                        buf += text[:pos]
                        rest = text[pos + 1:]
                        break
                if rest is None:
                    buf += text + ' '
                    kk += 1
                    if kk >= len(lines):
                        raise TranslationError(f'{what}: unterminated cdef header at line {k + 1}')
                    text = lines[kk]
            names = []
            for a in _split_top(buf):
                mm = re.search(r'(\w+)\s*(=.*)?$', a.strip())
                if not mm:
                    raise TranslationError(f'{what}: cannot read argument {a!r}')
                names.append(mm.group(1) + (mm.group(2) or ''))
            out.append(f'{m.group(1)}def {m.group(2)}({", ".join(names)}){rest}')
            out.extend([''] * (kk - k))
            k = kk + 1
            continue
        m = re.match(r'^(\s+)cdef\s+(.*)$', ln)
        if m:
            body = m.group(2)
            parts, d = None, 0
            for pos, ch in enumerate(body):
                if ch in '([':
                    d += 1
                elif ch in ')]':
                    d -= 1
                elif ch == '=' and d == 0 and body[pos:pos + 2] != '==':
                    parts = (body[:pos], body[pos + 1:])
                    break
            if parts:
                nm = re.search(r'(\w+)\s*$', parts[0])
                if not nm:
                    raise TranslationError(f'{what}: cannot read declaration {body!r}')
                out.append(f'{m.group(1)}{nm.group(1)} ={parts[1]}')
            else:
                out.append('')
            k += 1
            continue
        out.append(ln)
        k += 1
    try:
        return ast.parse('\n'.join(out))
    except SyntaxError as e:
        raise TranslationError(f'{what}: not parseable after removing the C declarations: {e}')


class _Tr:
    """Python expression / test (ast) -> Lean term over `K`; `atom(node)` maps names, subscripts and calls."""

    def __init__(self, atom):
        self.atom = atom

    def e(self, n):
        import ast
        from ..translate import TranslationError, lit
        r = self.atom(n, self)
        if r is not None:
            return r
        if isinstance(n, ast.Constant) and isinstance(n.value, (int, float)) and not isinstance(n.value, bool):
            return lit(Fraction(n.value))
        if isinstance(n, ast.UnaryOp) and isinstance(n.op, ast.USub):
            return f'(-{self.e(n.operand)})'
        if isinstance(n, ast.BinOp):
            a, b = self.e(n.left), self.e(n.right)
            for cls, sym in ((ast.Add, '+'), (ast.Sub, '-'), (ast.Mult, '*'), (ast.Div, '/')):
                if isinstance(n.op, cls):
                    return f'({a} {sym} {b})'
            if isinstance(n.op, ast.Pow) and isinstance(n.right, ast.Constant) and n.right.value == 2:
                return f'({a} * {a})'
        raise TranslationError(f'expression outside the translated subset: {ast.unparse(n)}')

    def test(self, n):
        import ast
        from ..translate import TranslationError
        if isinstance(n, ast.BoolOp) and isinstance(n.op, ast.And):
            return '(' + ' ∧ '.join(self.test(v) for v in n.values) + ')'
        if isinstance(n, ast.Compare) and len(n.ops) == 1:
            a, b = self.e(n.left), self.e(n.comparators[0])
            for cls, sym in ((ast.Lt, '<'), (ast.Gt, '>'), (ast.LtE, '≤'), (ast.GtE, '≥'), (ast.Eq, '='), (ast.NotEq, '≠')):
                if isinstance(n.ops[0], cls):
                    return f'{a} {sym} {b}'
        raise TranslationError(f'test outside the translated subset: {ast.unparse(n)}')


def _q(s):
    return '"' + s.replace('\\', '\\\\').replace('"', '\\"') + '"'


def translate():
    import warnings
    with warnings.catch_warnings():
        warnings.simplefilter('ignore')          # escape sequences in the docstrings of the sources
        return _translate()


def _translate():
    import ast
    from ..translate import TranslationError, strip_doc

    def fail(msg):
        raise TranslationError(msg)

    def need(cond, msg):
        if not cond:
            raise TranslationError(msg)

    def func(tree, name, cls=None):
        scope = tree.body
        if cls is not None:
            cs = [n for n in tree.body if isinstance(n, ast.ClassDef) and n.name == cls]
            need(len(cs) == 1, f'class {cls} not found once')
            scope = cs[0].body
        fs = [n for n in scope if isinstance(n, ast.FunctionDef) and n.name == name]
        if cls is not None and len(fs) > 1:           # property getter + setter: the getter is the @property one
            fs = [f for f in fs if any(ast.unparse(d) == 'property' for d in f.decorator_list)]
        need(len(fs) == 1, f'function {name} not found once ({len(fs)})')
        return fs[0]

    def body(f):
        return strip_doc(f.body)

    def is_range(n, arg=None):
        ok = isinstance(n, ast.Call) and isinstance(n.func, ast.Name) and n.func.id == 'range' and len(n.args) == 1
        return ok and (arg is None or ast.unparse(n.args[0]) == arg)

    def only(stmts, cls, what):
        hits = [s for s in stmts if isinstance(s, cls)]
        need(len(hits) == 1, f'{what}: expected exactly one {cls.__name__}, found {len(hits)}')
        return hits[0]

    def idx(sub):
        """indices of a subscript as a list of nodes"""
        s = sub.slice
        return list(s.elts) if isinstance(s, ast.Tuple) else [s]

    def const_idx(n):
        need(isinstance(n, ast.Constant) and n.value in (0, 1, 2), f'index is not 0/1/2: {ast.unparse(n)}')
        return n.value

    def base(sub):
        need(isinstance(sub, ast.Subscript) and isinstance(sub.value, ast.Name), f'not a plain subscript: {ast.unparse(sub)}')
        return sub.value.id

    out = ['/- GENERATED by harness/props/c17.py (translate) from atomman/defect/Strain.pyx, slip_vector.pyx, nye_tensor.py,',
           '   DifferentialDisplacement.py, differential_displacement.py, disregistry.py and core/displacement.py — do not edit.',
           '   Every definition is the expression / test / branch chain that stands in the source NOW; Proofs/C17_Source.lean',
           '   proves each equal to the hand model of Atomman/C17.lean (`gen_…_eq_model`) or to the pinned literal. -/',
           'import Atomman.C17',
           'namespace Atomman.C17.Gen',
           'open Atomman Atomman.C17',
           'section',
           'variable {K : Type} [Add K] [Sub K] [Mul K] [Div K] [Neg K] [Zero K] [One K] [IntCast K] [NatCast K]',
           '  [LT K] [DecidableLT K] [LE K] [DecidableLE K] [DecidableEq K]',
           '']
    pins = []                                   # (name, doc, list of strings)

    # ------------------------------------------------------------------ Strain.pyx: tensor formulas
    st = _decython(cm.source('atomman/defect/Strain.pyx'), 'Strain.pyx')

    def sym_entry(fname, lean):
        f = func(st, fname)
        stm = body(f)
        li = only(stm, ast.For, fname)
        need(is_range(li.iter), f'{fname}: outer loop is not a range')
        i = li.target.id
        lj = only(li.body, ast.For, fname)
        need(is_range(lj.iter, '3') and len(li.body) == 1, f'{fname}: second loop is not range(3)')
        lk = only(lj.body, ast.For, fname)
        need(is_range(lk.iter, '3') and len(lj.body) == 1 and len(lk.body) == 1, f'{fname}: third loop is not range(3)')
        j, k = lj.target.id, lk.target.id
        a = lk.body[0]
        need(isinstance(a, ast.Assign) and [ast.unparse(x) for x in idx(a.targets[0])] == [i, j, k],
             f'{fname}: the entry [i,j,k] is not what is assigned')
        # names that stand for np.identity(3)
        ident = set()
        for s in stm:
            if isinstance(s, ast.Assign) and isinstance(s.targets[0], ast.Name):
                v = s.value
                if ast.unparse(v) == 'np.identity(3)' or (isinstance(v, ast.Name) and v.id in ident):
                    ident.add(s.targets[0].id)
        garg = f.args.args[0].arg
        ren = {j: 'j', k: 'k'}

        def atom(n, tr):
            if isinstance(n, ast.Subscript):
                b, ix = base(n), [ast.unparse(x) for x in idx(n)]
                if b in ident and len(ix) == 2 and all(x in ren for x in ix):
                    return f'(I {ren[ix[0]]} {ren[ix[1]]})'
                if b == garg and len(ix) == 3 and ix[0] == i and all(x in ren for x in ix[1:]):
                    return f'(G {ren[ix[1]]} {ren[ix[2]]})'
                fail(f'{fname}: unexpected operand {ast.unparse(n)}')
            return None
        ex = _Tr(atom).e(a.value)
        out.append(f'/-- `{fname}`: `{ast.unparse(a)}` -/')
        out.append(f'def {lean}Entry (I G : Nat → Nat → K) (j k : Nat) : K := {ex}')
        out.append(f'def {lean} (G : M3 K) : M3 K := matOf fun j k => {lean}Entry (ent (M3.one : M3 K)) (ent G) j k')
        out.append('')

    sym_entry('strain_c', 'strain')
    sym_entry('rotation_c', 'rotation')

    def per_atom_scalar(fname, lean, unwrap=None):
        f = func(st, fname)
        li = only(body(f), ast.For, fname)
        need(is_range(li.iter) and len(li.body) == 1 and isinstance(li.body[0], ast.Assign), f'{fname}: loop shape')
        i = li.target.id
        a = li.body[0]
        need([ast.unparse(x) for x in idx(a.targets[0])] == [i], f'{fname}: target')
        arg = f.args.args[0].arg
        v = a.value
        if unwrap is not None:
            need(isinstance(v, ast.Call) and ast.unparse(v.func) == unwrap and len(v.args) == 1, f'{fname}: not {unwrap}(...)')
            v = v.args[0]

        def atom(n, tr):
            if isinstance(n, ast.Subscript):
                ix = idx(n)
                need(base(n) == arg and len(ix) == 3 and ast.unparse(ix[0]) == i, f'{fname}: operand {ast.unparse(n)}')
                return f's.r{const_idx(ix[1])}.{_XYZ[const_idx(ix[2])]}'
            return None
        out.append(f'/-- `{fname}`: `{ast.unparse(a)[:150]}` -/')
        out.append(f'def {lean} (s : M3 K) : K := {_Tr(atom).e(v)}')
        out.append('')

    per_atom_scalar('invariant1_c', 'invariant1')
    per_atom_scalar('invariant2_c', 'invariant2')
    per_atom_scalar('invariant3_c', 'invariant3')
    per_atom_scalar('angularvelocity_c', 'angularVelocitySq', unwrap='sqrt')

    # dG_c
    f = func(st, 'dG_c')
    iarg = f.args.args[-1].arg
    lj = only(body(f), ast.For, 'dG_c')
    lx = only(lj.body, ast.For, 'dG_c')
    ly = only(lx.body, ast.For, 'dG_c')
    need(is_range(lx.iter, '3') and is_range(ly.iter, '3') and len(ly.body) == 1, 'dG_c: loops')
    jn, xn, yn = lj.target.id, lx.target.id, ly.target.id
    a = ly.body[0]
    need(isinstance(a, ast.Assign) and [ast.unparse(t) for t in idx(a.targets[0])] == [jn, xn, yn], 'dG_c: target')
    garg, narg = f.args.args[0].arg, f.args.args[1].arg

    def atom_dg(n, tr):
        if isinstance(n, ast.Subscript):
            ix = idx(n)
            need(base(n) == garg and len(ix) == 3 and [ast.unparse(t) for t in ix[1:]] == [xn, yn], f'dG_c: operand {ast.unparse(n)}')
            who = ast.unparse(ix[0])
            if who == iarg:
                return '(Gi x y)'
            if who == f'{narg}[{iarg}, {jn} + 1]':
                return '(Gn x y)'
            fail(f'dG_c: operand {ast.unparse(n)}')
        return None
    out.append(f'/-- `dG_c`: `{ast.unparse(a)}` (`Gn` = the neighbour\'s tensor, `Gi` = the atom\'s own) -/')
    out.append(f'def dGEntry (Gn Gi : Nat → Nat → K) (x y : Nat) : K := {_Tr(atom_dg).e(a.value)}')
    out.append('def dG (Gn Gi : M3 K) : M3 K := matOf fun x y => dGEntry (ent Gn) (ent Gi) x y')
    out.append('')

    # nye_c
    f = func(st, 'nye_c')
    gname, nname, iname = [a.arg for a in f.args.args]
    ent = {}
    for s in body(f):
        need(isinstance(s, ast.Assign) and base(s.targets[0]) == nname, f'nye_c: statement {ast.unparse(s)}')
        ix = idx(s.targets[0])
        need(len(ix) == 3 and ast.unparse(ix[0]) == iname, 'nye_c: target')

        def atom_ny(n, tr):
            if isinstance(n, ast.Subscript):
                need(base(n) == gname and len(idx(n)) == 3, f'nye_c: operand {ast.unparse(n)}')
                return '(g ' + ' '.join(str(const_idx(t)) for t in idx(n)) + ')'
            return None
        key = (const_idx(ix[1]), const_idx(ix[2]))
        need(key not in ent, 'nye_c: entry assigned twice')
        ent[key] = _Tr(atom_ny).e(s.value)
    need(len(ent) == 9, 'nye_c: not all nine entries assigned')
    out.append('/-- `nye_c`: the nine entries from `gradG[x,y,z]`. -/')
    out.append('def nyeOfGrad (g : Nat → Nat → Nat → K) : M3 K :=\n  ⟨' + ',\n   '.join(
        '⟨' + ', '.join(ent[(r, c)] for c in range(3)) + '⟩' for r in range(3)) + '⟩')
    out.append('')

    # solve_nye: which least-squares problems, and how gradG is filled from their solutions
    f = func(st, 'solve_nye', 'Strain')
    li = [s for s in body(f) if isinstance(s, ast.For)][-1]
    iname = li.target.id
    lx = only(li.body, ast.For, 'solve_nye')
    need(is_range(lx.iter, '3'), 'solve_nye: x loop')
    xn = lx.target.id
    a0 = lx.body[0]
    need(isinstance(a0, ast.Assign), 'solve_nye: lstsq statement')
    call = a0.value
    need(isinstance(call, ast.Subscript) and ast.unparse(call.slice) == '0' and isinstance(call.value, ast.Call)
         and ast.unparse(call.value.func) == 'np.linalg.lstsq', 'solve_nye: not lstsq(...)[0]')
    la, lb = call.value.args[0], call.value.args[1]
    need(isinstance(lb, ast.Subscript) and len(idx(lb)) == 3, 'solve_nye: right-hand side')
    axis = [k for k, t in enumerate(idx(lb)) if ast.unparse(t) == xn]
    need(len(axis) == 1, 'solve_nye: right-hand side axis')
    ly = only(lx.body, ast.For, 'solve_nye')
    lz = only(ly.body, ast.For, 'solve_nye')
    a1 = lz.body[0]
    need(isinstance(a1, ast.Assign) and len(lz.body) == 1, 'solve_nye: gradG statement')
    tix = [ast.unparse(t) for t in idx(a1.targets[0])]
    vix = [ast.unparse(t) for t in idx(a1.value)]
    need(tix == [xn, ly.target.id, lz.target.id] and set(vix) <= {ly.target.id, lz.target.id} and len(vix) == 2,
         'solve_nye: gradG indices')
    ren = {ly.target.id: 'y', lz.target.id: 'z'}
    out.append(f'/-- `solve_nye`: `{ast.unparse(a0)}`; `{ast.unparse(a1)}` (`gG x` = the solution for component `x`) -/')
    out.append(f'def gradOf (gG : Nat → M3 K) (x y z : Nat) : K := ent (gG x) {ren[vix[0]]} {ren[vix[1]]}')
    out.append(f'def lstsqRhsAxis : Nat := {axis[0]}')
    out.append('def nyeOf (g : M3 K × M3 K × M3 K) : M3 K :=')
    out.append('  nyeOfGrad (gradOf fun x => if x = 0 then g.1 else if x = 1 then g.2.1 else g.2.2)')
    out.append('')
    qst = [s for s in li.body if isinstance(s, ast.Assign) and 'dvect' in ast.unparse(s)]
    pins.append(('solveNye', 'solve_nye: the q vectors, the dG call, the least-squares call, the nye_c call',
                 [ast.unparse(s) for s in qst] + [ast.unparse(s) for s in li.body if isinstance(s, ast.Expr)]
                 + [ast.unparse(la), ast.unparse(lb)]))

    # ------------------------------------------------------------------ Strain.pyx: match_pq
    f = func(st, 'match_pq')
    stm = body(f)
    pn, qn = f.args.args[0].arg, f.args.args[1].arg
    inits = {s.targets[0].id: s.value for s in stm if isinstance(s, ast.Assign) and isinstance(s.targets[0], ast.Name)}
    need('r1' in inits, 'match_pq: no initial r1')
    loops = [s for s in stm if isinstance(s, ast.For)]
    need(len(loops) == 4, f'match_pq: {len(loops)} top-level loops instead of 4')
    l1, l2, l3, l4 = loops

    def mag_of(loop, arr, store):
        v = loop.target.id
        a = [s for s in loop.body if isinstance(s, ast.Assign) and ast.unparse(s.targets[0]) == f'{store}[{v}]']
        need(len(a) == 1 and isinstance(a[0].value, ast.Call) and ast.unparse(a[0].value.func) == 'sqrt',
             f'match_pq: {store} is not sqrt(...)')

        def atom(n, tr):
            if isinstance(n, ast.Subscript):
                ix = idx(n)
                need(base(n) == arr and len(ix) == 2 and ast.unparse(ix[0]) == v, f'match_pq: operand {ast.unparse(n)}')
                return f'v.{_XYZ[const_idx(ix[1])]}'
            return None
        return _Tr(atom).e(a[0].value.args[0]), a[0]
    need(is_range(l1.iter, 'qnum') and is_range(l2.iter, 'pnum') and is_range(l3.iter, 'qnum') and is_range(l4.iter, 'qnum'),
         'match_pq: loop ranges')
    need(ast.unparse(inits.get('pnum')) == f'{pn}.shape[0]' and ast.unparse(inits.get('qnum')) == f'{qn}.shape[0]', 'match_pq: pnum/qnum')
    eq, aq = mag_of(l1, qn, 'qmag')
    ep, ap = mag_of(l2, pn, 'pmag')
    need(any(ast.unparse(s) == f'qp_pairs[{l1.target.id}] = -1' for s in l1.body), 'match_pq: qp_pairs not initialised to -1')
    out.append(f'/-- `match_pq`: the arguments of `sqrt` in `{ast.unparse(aq)[:40]}…` and `{ast.unparse(ap)[:40]}…` -/')
    out.append(f'def qmagSq (v : V3 K) : K := {eq}')
    out.append(f'def pmagSq (v : V3 K) : K := {ep}')
    out.append(f'/-- `r1 = {ast.unparse(inits["r1"])}` -/')
    out.append(f'def r1Init : K := {_Tr(lambda n, t: None).e(inits["r1"])}')
    kf = l2.target.id
    iff = only(l2.body, ast.If, 'match_pq r1')
    need(len(iff.body) == 1 and ast.unparse(iff.body[0]) == f'r1 = pmag[{kf}]' and not iff.orelse, 'match_pq: r1 update')

    def atom_r1(n, tr):
        if isinstance(n, ast.Name) and n.id == 'r1':
            return 'r'
        if isinstance(n, ast.Subscript) and ast.unparse(n) == f'pmag[{kf}]':
            return 'm'
        return None
    out.append(f'/-- `{ast.unparse(iff.test)}` → `r1 = pmag[k]` -/')
    out.append(f'def shortestStep (r m : K) : K := if {_Tr(atom_r1).test(iff.test)} then m else r')
    # the best-angle loop
    jn = l3.target.id
    need(len(l3.body) == 3, 'match_pq: pairing loop body is not (init, best loop, conflict block)')
    s0, lk, ifc = l3.body
    need(isinstance(s0, ast.Assign) and ast.unparse(s0.targets[0]) == 'cos_theta_min' and isinstance(s0.value, ast.Name),
         'match_pq: cos_theta_min initialisation')
    need(s0.value.id == f.args.args[2].arg, 'match_pq: cos_theta_min is not initialised with the cos_theta_max argument')
    need(isinstance(lk, ast.For) and is_range(lk.iter, 'pnum') and len(lk.body) == 2, 'match_pq: best loop')
    kn = lk.target.id
    ac, ifb = lk.body
    need(isinstance(ac, ast.Assign) and ast.unparse(ac.targets[0]) == 'cos_theta' and isinstance(ifb, ast.If) and not ifb.orelse,
         'match_pq: best loop body')

    def atom_cos(n, tr):
        if isinstance(n, ast.Subscript):
            u = ast.unparse(n)
            if u == f'qmag[{jn}]':
                return 'mag q'
            if u == f'pmag[{kn}]':
                return 'mag p'
            ix = idx(n)
            if base(n) == qn and len(ix) == 2 and ast.unparse(ix[0]) == jn:
                return f'q.{_XYZ[const_idx(ix[1])]}'
            if base(n) == pn and len(ix) == 2 and ast.unparse(ix[0]) == kn:
                return f'p.{_XYZ[const_idx(ix[1])]}'
            fail(f'match_pq: operand {u}')
        return None
    out.append(f'/-- `{ast.unparse(ac)}` -/')
    out.append(f'def cosTheta (mag : V3 K → K) (q p : V3 K) : K := {_Tr(atom_cos).e(ac.value)}')
    upd = {ast.unparse(s.targets[0]): s.value for s in ifb.body if isinstance(s, ast.Assign)}
    need(set(upd) == {'cos_theta_min', f'qp_pairs[{jn}]'} and len(ifb.body) == 2, 'match_pq: what the best loop updates')
    need(ast.unparse(upd[f'qp_pairs[{jn}]']) == kn, 'match_pq: qp_pairs[j] is not set to k')

    def atom_best(n, tr):
        if isinstance(n, ast.Name):
            if n.id == 'cos_theta':
                return 'cos_theta'
            if n.id == 'cos_theta_min':
                return 'st.1'
        return None
    out.append(f'/-- `if {ast.unparse(ifb.test)}:` `{"; ".join(ast.unparse(s) for s in ifb.body)}` (state: cos_theta_min, qp_pairs[j], k) -/')
    out.append('def bestStep (mag : V3 K → K) (q : V3 K) (st : K × Option Nat × Nat) (p : V3 K) : K × Option Nat × Nat :=')
    out.append('  let cos_theta := cosTheta mag q p')
    out.append(f'  if {_Tr(atom_best).test(ifb.test)} then ({_Tr(atom_best).e(upd["cos_theta_min"])}, some st.2.2, st.2.2 + 1) '
               'else (st.1, st.2.1, st.2.2 + 1)')
    out.append('def bestP (mag : V3 K → K) (cosMax : K) (q : V3 K) (ps : List (V3 K)) : Option Nat :=')
    out.append('  (ps.foldl (bestStep mag q) (cosMax, none, 0)).2.1')
    # the conflict block
    need(isinstance(ifc, ast.If) and not ifc.orelse and len(ifc.body) == 1 and isinstance(ifc.body[0], ast.For), 'match_pq: conflict block')
    lc = ifc.body[0]
    kc = lc.target.id
    need(len(lc.body) == 1 and isinstance(lc.body[0], ast.If) and not lc.body[0].orelse, 'match_pq: conflict loop body')
    ife = lc.body[0]
    need(len(ife.body) == 3, 'match_pq: conflict branch is not (jrad, krad, decision)')
    aj, ak, ifd = ife.body
    need(isinstance(aj, ast.Assign) and isinstance(ak, ast.Assign) and isinstance(ifd, ast.If) and len(ifd.body) == 1
         and len(ifd.orelse) == 1, 'match_pq: conflict branch shape')

    def atom_rad(n, tr):
        if isinstance(n, ast.Name) and n.id == 'r1':
            return 'r1'
        if isinstance(n, ast.Subscript):
            u = ast.unparse(n)
            if u == f'qmag[{jn}]':
                return 'mag qj'
            if u == f'qmag[{kc}]':
                return 'mag e.1'
            if u == f'qp_pairs[{jn}]':
                return 'a'
            if u == f'qp_pairs[{kc}]':
                return 'b'
        if isinstance(n, ast.Call) and ast.unparse(n.func) in ('fabs', 'abs') and len(n.args) == 1:
            return f'absK {tr.e(n.args[0])}'
        if isinstance(n, ast.Name) and n.id in (aj.targets[0].id, ak.targets[0].id):
            return n.id
        return None
    tr = _Tr(atom_rad)

    def reset(s):
        u = ast.unparse(s)
        if u == f'qp_pairs[{kc}] = -1':
            return '(st.1 ++ [(e.1, none)], st.2)'
        if u == f'qp_pairs[{jn}] = -1':
            return '(st.1 ++ [e], none)'
        fail(f'match_pq: conflict decision does {u}')
    out.append(f'/-- `for {kc} in {ast.unparse(lc.iter)}: if {ast.unparse(ife.test)}:` `{ast.unparse(aj)}`; `{ast.unparse(ak)}`; '
               f'`if {ast.unparse(ifd.test)}: {ast.unparse(ifd.body[0])} else: {ast.unparse(ifd.orelse[0])}` -/')
    out.append('def dedupeStep (mag : V3 K → K) (r1 : K) (qj : V3 K)')
    out.append('    (st : List (V3 K × Option Nat) × Option Nat) (e : V3 K × Option Nat) : List (V3 K × Option Nat) × Option Nat :=')
    out.append('  match st.2, e.2 with')
    out.append('  | some a, some b =>')
    out.append(f'    if {tr.test(ife.test)} then')
    out.append(f'      (let {aj.targets[0].id} := {tr.e(aj.value)}')
    out.append(f'       let {ak.targets[0].id} := {tr.e(ak.value)}')
    out.append(f'       if {tr.test(ifd.test)} then {reset(ifd.body[0])} else {reset(ifd.orelse[0])})')
    out.append('    else (st.1 ++ [e], st.2)')
    out.append('  | _, _ => (st.1 ++ [e], st.2)')
    out.append('')
    pins.append(('matchLoops', 'match_pq: guard and range of the conflict loop, the final copy loop, the value returned',
                 [ast.unparse(ifc.test), ast.unparse(lc.iter)] + ast.unparse(l4).split('\n') + [ast.unparse(stm[-1])]))

    # ------------------------------------------------------------------ Strain: theta_max setter, getters, clear, solve_G
    cls = [n for n in st.body if isinstance(n, ast.ClassDef) and n.name == 'Strain'][0]
    setter = [n for n in cls.body if isinstance(n, ast.FunctionDef) and n.name == 'theta_max'
              and any(ast.unparse(d) == 'theta_max.setter' for d in n.decorator_list)]
    need(len(setter) == 1, 'Strain.theta_max setter not found')
    sb = body(setter[0])
    need(len(sb) == 1 and isinstance(sb[0], ast.If) and not sb[0].orelse and len(sb[0].body) == 1
         and ast.unparse(sb[0].body[0]) == 'self.__theta_max = value', 'theta_max setter: shape')
    out.append(f'/-- the `theta_max` setter: `if {ast.unparse(sb[0].test)}:` -/')
    out.append(f'def thetaAccept (value : K) : Bool := decide {_Tr(lambda n, t: "value" if isinstance(n, ast.Name) and n.id == "value" else None).test(sb[0].test)}')
    out.append('')
    rows = []
    for prop in ('G', 'strain', 'invariant1', 'invariant2', 'invariant3', 'rotation', 'angularvelocity', 'nye'):
        g = func(st, prop, 'Strain')
        gb = body(g)
        need(len(gb) == 2 and isinstance(gb[0], ast.If) and ast.unparse(gb[0].test) == f'self.__{prop} is None'
             and ast.unparse(gb[1]) == f'return self.__{prop}' and len(gb[0].body) == 1 and not gb[0].orelse, f'getter {prop}: shape')
        s = gb[0].body[0]
        if isinstance(s, ast.Expr):
            rows.append((prop, ast.unparse(s.value), ''))
        else:
            need(isinstance(s, ast.Assign) and ast.unparse(s.targets[0]) == f'self.__{prop}' and isinstance(s.value, ast.Call)
                 and len(s.value.args) == 1, f'getter {prop}: statement')
            rows.append((prop, ast.unparse(s.value.func), ast.unparse(s.value.args[0])))
    out.append('/-- the property getters: (property, what fills it when nothing is cached, from which other property) -/')
    out.append('def getters : List (String × String × String) :=\n  [' + ',\n   '.join(f'({_q(a)}, {_q(b)}, {_q(c)})' for a, b, c in rows) + ']')
    cp = body(func(st, 'clear_properties', 'Strain'))
    cl = []
    for s in cp:
        need(isinstance(s, ast.Assign) and ast.unparse(s.value) == 'None' and ast.unparse(s.targets[0]).startswith('self.__'),
             f'clear_properties: {ast.unparse(s)}')
        cl.append(ast.unparse(s.targets[0])[7:])
    out.append('/-- `clear_properties`: the attributes reset to None -/')
    out.append('def cleared : List String := [' + ', '.join(_q(c) for c in cl) + ']')
    out.append('')
    sg = body(func(st, 'solve_G', 'Strain'))
    lg = only(sg, ast.For, 'solve_G')
    pins.append(('solveG', 'solve_G: every statement before the loop over atoms, then the loop body',
                 [ast.unparse(s) for s in sg if not isinstance(s, ast.For) and s is not sg[-1]] + ast.unparse(lg).split('\n')
                 + [ast.unparse(sg[-1])]))
    sp = body(func(st, 'set_p_vectors', 'Strain'))
    pins.append(('setP', 'set_p_vectors: the broadcasting rule and the axes transformation', sum((ast.unparse(s).split('\n') for s in sp), [])))
    def p_chain(stmts, lean, where, natoms):
        """the broadcasting chain and the axes step of set_p_vectors / nye_tensor as Lean definitions (second pass)"""
        ch = [s_ for s_ in stmts if isinstance(s_, ast.If) and ast.unparse(s_.test).startswith('len(p_vectors)')]
        need(len(ch) == 1, f'{where}: broadcasting chain not found once')

        def what(bd):
            if len(bd) == 1 and isinstance(bd[0], ast.Assign) and ast.unparse(bd[0].targets[0]) == 'p_vectors' \
                    and isinstance(bd[0].value, ast.Call) and ast.unparse(bd[0].value.func) == 'np.broadcast_to':
                a_ = [ast.unparse(x) for x in bd[0].value.args]
                need(len(a_) == 2 and a_[0] == 'p_vectors', f'{where}: {ast.unparse(bd[0])}')
                if a_[1] == f'({natoms}, len(p_vectors[0]), 3)':
                    return '.single'
                if a_[1] == f'({natoms}, len(p_vectors), 3)':
                    return '.whole'
                fail(f'{where}: broadcast shape {a_[1]}')
            for s_ in bd:                               # entry i for atom i: nothing may be broadcast or re-ordered
                for x in ast.walk(s_):
                    if isinstance(x, ast.Call):
                        need(ast.unparse(x.func) in ('range', 'len', 'np.asarray', 'np.array'), f'{where}: per-atom branch calls {ast.unparse(x.func)}')
            return '.each'

        def tst(t):
            need(isinstance(t, ast.Compare) and len(t.ops) == 1 and ast.unparse(t.left) == 'len(p_vectors)', f'{where}: test {ast.unparse(t)}')
            rhs = {'1': '1', natoms: 'natoms'}.get(ast.unparse(t.comparators[0]))
            op = {ast.Eq: '=', ast.NotEq: '≠'}.get(type(t.ops[0]))
            need(rhs is not None and op is not None, f'{where}: test {ast.unparse(t)}')
            return f'len {op} {rhs}'

        def chain(s_):
            tail = s_.orelse
            if len(tail) == 1 and isinstance(tail[0], ast.If) and ast.unparse(tail[0].test).startswith('len(p_vectors)'):
                rest_ = chain(tail[0])
            else:
                rest_ = what(tail)
            return f'if {tst(s_.test)} then {what(s_.body)} else {rest_}'
        out.append(f'/-- `{where}`: `if {ast.unparse(ch[0].test)}: … elif …` — which broadcasting each branch performs -/')
        out.append(f'def dispatchKind_{lean} (len natoms : Nat) : PKind :=\n  {chain(ch[0])}')
        ax = [s_ for s_ in stmts if isinstance(s_, ast.If) and ast.unparse(s_.test) == 'axes is not None']
        need(len(ax) == 1 and stmts.index(ax[0]) > stmts.index(ch[0]) and len(ax[0].body) == 1 and not ax[0].orelse
             and isinstance(ax[0].body[0], ast.Assign) and ast.unparse(ax[0].body[0].targets[0]) == 'p_vectors', f'{where}: axes step')
        v_ = ax[0].body[0].value
        need(isinstance(v_, ast.Call) and [ast.unparse(x) for x in v_.args] == ['p_vectors', 'axes_check(axes)'] and not v_.keywords
             and ast.unparse(v_.func) in ('np.inner', 'np.dot'), f'{where}: {ast.unparse(v_)}')
        mat = 'T' if ast.unparse(v_.func) == 'np.inner' else '(M3.transpose T)'
        out.append(f'/-- `{where}`: `{ast.unparse(ax[0].body[0])}`, per vector (`T` = the rows `axes_check` returns) -/')
        out.append(f'def axesStep_{lean} (T : M3 K) (p : V3 K) : V3 K := M3.mulVec {mat} p')
        out.append('')
    p_chain(sp, 'setP', 'set_p_vectors', 'system.natoms')
    ini = body(func(st, '__init__', 'Strain'))
    pins.append(('strainInit', 'Strain.__init__: after the neighbour block', sum((ast.unparse(s).split('\n') for s in ini[2:]), [])))
    bp = body(func(st, 'build_p_vectors', 'Strain'))
    pins.append(('buildP', 'build_p_vectors: after the neighbour block', sum((ast.unparse(s).split('\n') for s in bp[1:]), [])))

    # ------------------------------------------------------------------ the neighbour-source chains
    def pick(fnode, lean, where):
        chain = [s for s in body(fnode) if isinstance(s, ast.If) and ast.unparse(s.test) == 'neighbors is not None']
        need(len(chain) == 1, f'{where}: neighbour block not found once')
        systems = set()

        def block(stmts, bound):
            """Lean term of type Except NbrErr L for a statement list; `bound`: python name -> Lean variable holding its value"""
            if not stmts:
                need('neighbors' in bound, f'{where}: a branch ends without a list')
                return f'.ok {bound["neighbors"]}'
            s, rest = stmts[0], stmts[1:]
            if isinstance(s, ast.Assert):
                t = ast.unparse(s.test)
                need(t == 'cutoff is None', f'{where}: assertion {t}')
                return f'(match cutoff with | some _ => .error .assert | none => {block(rest, bound)})'
            if isinstance(s, ast.Raise):
                need(ast.unparse(s.exc).startswith('ValueError('), f'{where}: raises {ast.unparse(s.exc)[:40]}')
                return '.error .value'
            if isinstance(s, ast.Assign):
                tg = ast.unparse(s.targets[-1])
                need(tg in ('neighbors', 'self.__neighbors'), f'{where}: assigns {tg}')
                v = s.value
                if isinstance(v, ast.Name) and v.id == 'neighbors' and 'neighbors' in bound:
                    src = bound['neighbors']
                elif isinstance(v, ast.Call) and ast.unparse(v.func) == 'NeighborList':
                    kw = {k.arg: ast.unparse(k.value) for k in v.keywords}
                    need(set(kw) == {'system', 'cutoff'} and kw['cutoff'] == 'cutoff' and 'cutoff' in bound and not v.args,
                         f'{where}: {ast.unparse(v)}')
                    systems.add(kw['system'])
                    src = bound['cutoff']
                elif isinstance(v, ast.Attribute) and v.attr == 'neighbors' and 'attr' in bound:
                    systems.add(ast.unparse(v.value))
                    src = bound['attr']
                else:
                    fail(f'{where}: {ast.unparse(s)}')
                b2 = dict(bound)
                b2['neighbors'] = src
                return block(rest, b2)
            if isinstance(s, ast.If):
                need(not rest, f'{where}: statements after the chain')
                t = ast.unparse(s.test)
                if t == 'neighbors is not None':
                    var, nm = 'neighbors', 'nb'
                elif t == 'cutoff is not None':
                    var, nm = 'cutoff', 'cu'
                elif isinstance(s.test, ast.Call) and ast.unparse(s.test.func) == 'hasattr' and ast.unparse(s.test.args[1]) == "'neighbors'":
                    systems.add(ast.unparse(s.test.args[0]))
                    var, nm = 'attr', 'av'
                else:
                    fail(f'{where}: test {t}')
                b2 = dict(bound)
                b2[var] = nm
                src = {'neighbors': 'neighbors', 'cutoff': 'cutoff', 'attr': 'attr'}[var]
                return f'(match {src} with | some {nm} => {block(s.body, b2)} | none => {block(s.orelse, {k: v for k, v in bound.items() if k != var})})'
            fail(f'{where}: statement {ast.unparse(s)[:60]}')
        term = block([chain[0]], {})
        need(len(systems) == 1, f'{where}: the list is built / read from several systems: {sorted(systems)}')
        out.append(f'/-- `{where}`: the neighbour block -/')
        out.append(f'def pick_{lean} {{L : Type}} (neighbors cutoff attr : Option L) : Except NbrErr L :=\n  {term}')
        out.append(f'def pickSystem_{lean} : String := {_q(sorted(systems)[0])}')
        out.append('')

    sv = _decython(cm.source('atomman/defect/slip_vector.pyx'), 'slip_vector.pyx')
    nt = ast.parse(cm.source('atomman/defect/nye_tensor.py'))
    ddf = ast.parse(cm.source('atomman/defect/differential_displacement.py'))
    pick(func(sv, 'slip_vector'), 'slipVector', 'slip_vector')
    pick(func(st, '__init__', 'Strain'), 'strainInit', 'Strain.__init__')
    pick(func(st, 'build_p_vectors', 'Strain'), 'buildP', 'Strain.build_p_vectors')
    pick(func(nt, 'nye_tensor'), 'nyeTensor', 'nye_tensor')
    pick(func(ddf, 'differential_displacement'), 'ddFunction', 'differential_displacement')

    # slip_vector: the atom-count refusal and where it stands relative to the neighbour block
    f = func(sv, 'slip_vector')
    bs = body(f)
    cnt = [k for k, s_ in enumerate(bs) if isinstance(s_, ast.If) and ast.unparse(s_.test) == 'system_0.natoms != system_1.natoms']
    blk = [k for k, s_ in enumerate(bs) if isinstance(s_, ast.If) and ast.unparse(s_.test) == 'neighbors is not None']
    need(len(cnt) == 1 and len(blk) == 1 and len(bs[cnt[0]].body) == 1 and isinstance(bs[cnt[0]].body[0], ast.Raise)
         and ast.unparse(bs[cnt[0]].body[0].exc).startswith('ValueError(') and not bs[cnt[0]].orelse, 'slip_vector: atom-count refusal')
    out.append('/-- `slip_vector`: `if system_0.natoms != system_1.natoms: raise ValueError` and the neighbour block, in source order -/')
    out.append('def slipVectorRefusals {L : Type} (n0 n1 : Nat) (neighbors cutoff attr : Option L) : Except NbrErr L :=')
    if cnt[0] < blk[0]:
        out.append('  if n0 ≠ n1 then .error .value else pick_slipVector neighbors cutoff attr')
    else:
        out.append('  match pick_slipVector neighbors cutoff attr with\n  | .error e => .error e\n  | .ok l => if n0 ≠ n1 then .error .value else .ok l')
    out.append('')

    # Strain.asdict / save_to_system: the accepted and the default keys, the loop
    for meth, lean in (('asdict', 'asdict'), ('save_to_system', 'save')):
        mb = body(func(st, meth, 'Strain'))
        lists = {}
        for s_ in mb:
            if isinstance(s_, ast.Assign) and isinstance(s_.targets[0], ast.Name) and s_.targets[0].id in ('defaultkeys', 'allkeys'):
                v = s_.value
                if isinstance(v, ast.BinOp) and isinstance(v.op, ast.Add) and isinstance(v.right, ast.Name) and v.right.id in lists:
                    lists[s_.targets[0].id] = list(ast.literal_eval(v.left)) + lists[v.right.id]
                else:
                    lists[s_.targets[0].id] = list(ast.literal_eval(v))
        need(set(lists) == {'defaultkeys', 'allkeys'} and all(isinstance(x, str) for l_ in lists.values() for x in l_), f'{meth}: key lists')
        out.append(f'/-- `Strain.{meth}`: `defaultkeys`, `allkeys` -/')
        out.append(f'def {lean}Default : List String := [' + ', '.join(_q(x) for x in lists['defaultkeys']) + ']')
        out.append(f'def {lean}All : List String := [' + ', '.join(_q(x) for x in lists['allkeys']) + ']')
        rest = [s_ for s_ in mb if not (isinstance(s_, ast.Assign) and isinstance(s_.targets[0], ast.Name)
                                        and s_.targets[0].id in ('defaultkeys', 'allkeys', 'results'))]
        pins.append((lean + 'Loop', f'Strain.{meth}: default handling and the loop over the keys', [ast.unparse(s_) for s_ in rest]))
    out.append('')

    # ------------------------------------------------------------------ slip_vector.pyx
    f = func(sv, 'slip_vector_c')
    stm = body(f)
    li = [s for s in stm if isinstance(s, ast.For)][-1]
    iname = li.target.id
    fill = [s for s in li.body if isinstance(s, ast.For)]
    need(len(fill) == 2, 'slip_vector_c: fill loop and accumulation loop')
    bufs = {}
    ni = {}
    for s in ast.walk(fill[0]):
        if isinstance(s, ast.Assign) and isinstance(s.targets[0], ast.Name):
            ni[s.targets[0].id] = ast.unparse(s.value)
        elif isinstance(s, ast.Assign):
            tgt, val = s.targets[0], s.value
            need(isinstance(val, ast.Subscript) and len(idx(val)) == 2, f'slip_vector_c: {ast.unparse(s)}')
            who = ast.unparse(idx(val)[0])
            bufs[base(tgt)] = (base(val), who)
    nvar = fill[0].target.id
    need(is_range(fill[0].iter, 'coord') and is_range(fill[1].iter, 'coord'), 'slip_vector_c: loops over coord')
    coord = [s for s in li.body if isinstance(s, ast.Assign) and ast.unparse(s.targets[0]) == 'coord']
    need(len(coord) == 1 and ast.unparse(coord[0].value) == f'nlist[{iname}, 0]', 'slip_vector_c: coord')
    dv = {}
    for s in li.body:
        if isinstance(s, ast.Assign) and isinstance(s.value, ast.Call) and ast.unparse(s.value.func) == 'dvect_c':
            args = [ast.unparse(a) for a in s.value.args]
            need(len(args) == 6 and args[2:] == [f.args.args[2].arg] + [a.arg for a in f.args.args[4:7]],
                 f'slip_vector_c: dvect_c called with {args[2:]}')
            (pu, wu), (pv, wv) = bufs[args[0]], bufs[args[1]]
            need(wu == iname and ni.get(wv) == f'nlist[{iname}, {nvar} + 1]', f'slip_vector_c: buffers of {ast.unparse(s)}')
            dv[s.targets[0].id] = f'c.dv ({pu} i) ({pv} j)'
    acc = [s for s in ast.walk(fill[1]) if isinstance(s, ast.AugAssign)]
    need(len(acc) == 1 and isinstance(acc[0].op, (ast.Sub, ast.Add)), 'slip_vector_c: accumulation')
    p0, p1 = f.args.args[0].arg, f.args.args[1].arg

    def atom_sl(n, tr):
        if isinstance(n, ast.Subscript) and base(n) in dv:
            return dv[base(n)]
        return None
    out.append(f'/-- `slip_vector_c`: `{ast.unparse(acc[0])}` with `d_k = dvect_c(<buffers>, bvects, pbc_a, pbc_b, pbc_c)` -/')
    out.append(f'def slipStep (c : Cell K) ({p0} {p1} : Nat → V3 K) (i : Nat) (acc : V3 K) (j : Nat) : V3 K :=')
    out.append(f'  acc {"-" if isinstance(acc[0].op, ast.Sub) else "+"} {_Tr(atom_sl).e(acc[0].value)}')
    f = func(sv, 'slip_vector')
    names = {s.targets[0].id: ast.unparse(s.value) for s in body(f) if isinstance(s, ast.Assign) and isinstance(s.targets[0], ast.Name)}
    ret = [s for s in body(f) if isinstance(s, ast.Return)]
    need(len(ret) == 1 and isinstance(ret[0].value, ast.Call) and ast.unparse(ret[0].value.func) == 'slip_vector_c', 'slip_vector: return')
    pins.append(('slipCall', 'slip_vector: the arguments handed to slip_vector_c, names resolved',
                 [names.get(ast.unparse(a), ast.unparse(a)) for a in ret[0].value.args]))
    out.append('')

    # ------------------------------------------------------------------ displacement.py
    dt = ast.parse(cm.source('atomman/core/displacement.py'))
    f = func(dt, 'displacement')
    need([a.arg for a in f.args.args] == ['system_0', 'system_1', 'box_reference'] and ast.unparse(f.args.defaults[0]) == "'final'",
         'displacement: signature')
    stm = body(f)
    need(len(stm) == 3 and isinstance(stm[0], ast.If) and isinstance(stm[1], ast.If) and ast.unparse(stm[2]) == 'return disp', 'displacement: shape')
    need(ast.unparse(stm[0].test) == 'system_0.natoms != system_1.natoms' and ast.unparse(stm[0].body[0]).startswith('raise ValueError('),
         'displacement: atom-count test')
    cellof = {'system_0': 'c0', 'system_1': 'c1'}

    def dbranch(stmts):
        need(len(stmts) == 1, 'displacement: branch body')
        s = stmts[0]
        if isinstance(s, ast.Raise):
            need(ast.unparse(s.exc).startswith('ValueError('), 'displacement: raises')
            return '.error .value'
        if isinstance(s, ast.If):
            t = s.test
            if isinstance(t, ast.Compare) and isinstance(t.ops[0], ast.Eq) and ast.unparse(t.left) == 'box_reference':
                c = {"'final'": '.final', "'initial'": '.initial'}.get(ast.unparse(t.comparators[0]))
                need(c is not None, f'displacement: test {ast.unparse(t)}')
            elif ast.unparse(t) == 'box_reference is None':
                c = '.none'
            else:
                fail(f'displacement: test {ast.unparse(t)}')
            return f'if ref = {c} then {dbranch(s.body)} else {dbranch(s.orelse)}'
        need(isinstance(s, ast.Assign) and ast.unparse(s.targets[0]) == 'disp', f'displacement: {ast.unparse(s)}')
        v = s.value
        if isinstance(v, ast.Call) and ast.unparse(v.func) == 'dvect':
            a = [ast.unparse(x) for x in v.args]
            need(len(a) == 4 and a[:2] == ['system_0.atoms.pos', 'system_1.atoms.pos'] and a[2].endswith('.box') and a[3].endswith('.pbc'),
                 f'displacement: {ast.unparse(v)}')
            cb, cp = cellof[a[2][:-4]], cellof[a[3][:-4]]
            return f'.ok (fun i => (Cell.mk {cb}.vects {cp}.px {cp}.py {cp}.pz).dv (pos0 i) (pos1 i))'
        if isinstance(v, ast.BinOp) and isinstance(v.op, ast.Sub):
            m = {'system_0.atoms.pos': 'pos0 i', 'system_1.atoms.pos': 'pos1 i'}
            need(ast.unparse(v.left) in m and ast.unparse(v.right) in m, f'displacement: {ast.unparse(v)}')
            return f'.ok (fun i => {m[ast.unparse(v.left)]} - {m[ast.unparse(v.right)]})'
        fail(f'displacement: {ast.unparse(s)}')
    out.append('/-- `displacement(system_0, system_1, box_reference)`: the refusals and the branch chain, in source order -/')
    out.append('def displacementCall (n0 n1 : Nat) (c0 c1 : Cell K) (ref : BoxRef) (pos0 pos1 : Nat → V3 K) : Except NbrErr (Nat → V3 K) :=')
    out.append(f'  if n0 ≠ n1 then .error .value else {dbranch([stm[1]])}')
    out.append('')

    # ------------------------------------------------------------------ DifferentialDisplacement.solve
    ddc = ast.parse(cm.source('atomman/defect/DifferentialDisplacement.py'))
    f = func(ddc, 'solve', 'DifferentialDisplacement')
    stm = body(f)
    lp = only(stm, ast.For, 'DifferentialDisplacement.solve')
    iname = lp.target.id
    dvs = {}
    for s in lp.body:
        if isinstance(s, ast.Assign) and isinstance(s.value, ast.Call) and ast.unparse(s.value.func) in ('system0.dvect', 'system1.dvect'):
            a = [ast.unparse(x) for x in s.value.args]
            need(a == [f'int({iname})', 'neighs'], f'solve: {ast.unparse(s)}')
            k = ast.unparse(s.value.func)[6]
            dvs[s.targets[0].id] = f'c{k}.dv (pos{k} i) (pos{k} j)'
    dd = [s for s in lp.body if isinstance(s, ast.Assign) and ast.unparse(s.targets[0]) == 'ddvectors']
    need(len(dd) == 1 and len(dvs) == 2, 'solve: ddvectors')
    out.append(f'/-- `DifferentialDisplacement.solve`: `{ast.unparse(dd[0])}` -/')
    out.append('def ddvector (c0 c1 : Cell K) (pos0 pos1 : Nat → V3 K) (i j : Nat) : V3 K :=')
    out.append('  ' + _Tr(lambda n, t: dvs.get(n.id) if isinstance(n, ast.Name) else None).e(dd[0].value))
    pre = stm[:stm.index(lp)]
    pins.append(('ddSolve', 'DifferentialDisplacement.solve: argument handling before the loop; neighbours of an atom; the skip; what is stored',
                 sum((ast.unparse(s).split('\n') for s in pre if not (isinstance(s, ast.Assign) and ast.unparse(s.value) == '[]')), [])
                 + [ast.unparse(lp.iter)] + [ast.unparse(s) for s in lp.body[:2]]
                 + [ast.unparse(s) for s in stm[stm.index(lp) + 1:] if 'ddvectors' in ast.unparse(s)]))
    di = body(func(ddc, '__init__', 'DifferentialDisplacement'))
    pins.append(('ddInit', 'DifferentialDisplacement.__init__', sum((ast.unparse(s).split('\n') for s in di), [])))
    rs = [n for n in [c for c in ddc.body if isinstance(c, ast.ClassDef)][0].body if isinstance(n, ast.FunctionDef) and n.name == 'reference'
          and any(ast.unparse(d) == 'reference.setter' for d in n.decorator_list)]
    need(len(rs) == 1, 'reference setter')
    pins.append(('ddReference', 'the reference setter', [ast.unparse(s) for s in body(rs[0])]))
    out.append('')

    # DifferentialDisplacement.solve: the argument handling EXECUTED symbolically into a Lean function of the object's
    # stored state and the five optional arguments (second pass; the statement pin `ddSolve` stays beside it)
    ddcls = [c for c in ddc.body if isinstance(c, ast.ClassDef) and c.name == 'DifferentialDisplacement']
    need(len(ddcls) == 1, 'class DifferentialDisplacement')
    for attr in ('system0', 'system1', 'neighbors', 'reference'):
        gb = body(func(ddc, attr, 'DifferentialDisplacement'))
        need(len(gb) == 1 and ast.unparse(gb[0]) == f'return self.__{attr}', f'DifferentialDisplacement.{attr} getter: {ast.unparse(gb[0])}')
    need([a.arg for a in f.args.args] == ['self', 'system0', 'system1', 'neighbors', 'cutoff', 'reference']
         and [ast.unparse(d) for d in f.args.defaults] == ['None'] * 5, 'DifferentialDisplacement.solve: signature')
    setter_body = body(rs[0])
    need(len(rs[0].args.args) == 2 and rs[0].args.args[1].arg == 'value', 'reference setter: argument name')
    fresh_n = [0]
    phis = {}

    def fresh(pfx):
        fresh_n[0] += 1
        return f'{pfx}{fresh_n[0]}'

    def st_tuple(state):
        nl = state['neighbors']
        return (f"({state['system0'][1]}, {state['system1'][1]}, {state['reference'][1]}, "
                f"{nl[1] if nl[0] == 'opt' else '(some ' + nl[1] + ')'})")

    def dd_val(n, env, state):
        u = ast.unparse(n)
        if isinstance(n, ast.Name):
            need(n.id in env, f'solve: name {n.id} read before it is bound')
            return env[n.id]
        if isinstance(n, ast.Constant) and isinstance(n.value, int) and not isinstance(n.value, bool):
            return ('val', str(n.value))
        if isinstance(n, ast.Attribute) and u.startswith('self.') and not u.startswith('self.__') and n.attr in state:
            return state[n.attr]
        if isinstance(n, ast.Attribute) and n.attr == 'natoms':
            w = dd_val(n.value, env, state)
            need(w[0] == 'val', f'solve: {u}')
            return ('val', f'natoms {w[1]}')
        if isinstance(n, ast.Call) and isinstance(n.func, ast.Attribute) and n.func.attr == 'neighborlist':
            need(not n.args and [(k.arg, ast.unparse(k.value)) for k in n.keywords] == [('cutoff', 'cutoff')]
                 and env.get('cutoff', ('opt',))[0] == 'val', f'solve: {u}')
            cu = env['cutoff'][1]

            def sel(w):
                if w == env['system0']:
                    return f'{cu}.1'
                if w == env['system1']:
                    return f'{cu}.2'
                if w[1] in phis:
                    c_, a_, b_ = phis[w[1]]
                    return f'(if {c_} then {sel(a_)} else {sel(b_)})'
                fail(f'solve: list built from {w[1]}')
            return ('val', sel(dd_val(n.func.value, env, state)))
        fail(f'solve: expression {u}')

    def dd_test(n, env, state):
        """('opt', name, positive, key, where) for `x is (not) None`, else ('bool', lean)"""
        if isinstance(n, ast.Compare) and len(n.ops) == 1 and isinstance(n.ops[0], (ast.Is, ast.IsNot)) \
                and ast.unparse(n.comparators[0]) == 'None':
            w = dd_val(n.left, env, state)
            need(w[0] == 'opt', f'solve: None-test of {ast.unparse(n.left)}, which is not optional here')
            if isinstance(n.left, ast.Name):
                return ('opt', w[1], isinstance(n.ops[0], ast.IsNot), n.left.id, 'env')
            return ('opt', w[1], isinstance(n.ops[0], ast.IsNot), n.left.attr, 'state')
        if isinstance(n, ast.BoolOp) and isinstance(n.op, ast.Or):
            return ('bool', '(' + ' ∨ '.join(dd_test(v, env, state)[1] for v in n.values) + ')')
        if isinstance(n, ast.Compare) and len(n.ops) == 1 and isinstance(n.ops[0], ast.Eq):
            a_, b_ = dd_val(n.left, env, state), dd_val(n.comparators[0], env, state)
            need(a_[0] == 'val' and b_[0] == 'val', f'solve: test {ast.unparse(n)}')
            return ('bool', f'{a_[1]} = {b_[1]}')
        fail(f'solve: test {ast.unparse(n)}')

    def may_refuse(stmts):
        return any(isinstance(x, (ast.Raise, ast.Assert)) or (isinstance(x, ast.Assign) and any(
            ast.unparse(t) == 'self.reference' for t in x.targets)) for s_ in stmts for x in ast.walk(s_))

    def dd_assign(s, env, state):
        v = dd_val(s.value, env, state)
        env, state = dict(env), dict(state)
        for t in s.targets:
            tu = ast.unparse(t)
            if isinstance(t, ast.Name):
                env[t.id] = v
            elif tu.startswith('self.__') and tu[7:] in state:
                need(v[0] == 'val', f'solve: {ast.unparse(s)} stores an optional')
                state[tu[7:]] = v
            else:
                fail(f'solve: assignment to {tu}')
        return env, state

    def branches(s, env, state):
        """[(pattern-or-condition text, env, state, statements)] of an If, `some` / then branch first"""
        t = dd_test(s.test, env, state)
        if t[0] == 'bool':
            return ('if', t[1]), [(env, state, s.body), (env, state, s.orelse)]
        _, nm, positive, key, where = t
        v = fresh('v')
        e2, s2 = dict(env), dict(state)
        (e2 if where == 'env' else s2)[key] = ('val', v)
        some_b, none_b = (s.body, s.orelse) if positive else (s.orelse, s.body)
        return ('match', nm, v), [(e2, s2, some_b), (env, state, none_b)]

    def straight(stmts, env, state):
        for s in stmts:
            need(isinstance(s, ast.Assign), f'solve: {ast.unparse(s)[:50]} inside a branch that is merged')
            env, state = dd_assign(s, env, state)
        return env, state

    def join(head, a_, b_):
        if head[0] == 'if':
            return f'(if {head[1]} then {a_} else {b_})'
        return f'(match {head[1]} with | some {head[2]} => {a_} | none => {b_})'

    def run(stmts, env, state):
        if not stmts:
            nb = env['neighbors']
            need(nb[0] == 'val', 'solve: the loop is reached without a neighbour list')
            return f'({st_tuple(state)}, .ok {nb[1]})'
        s, rest = stmts[0], stmts[1:]
        if isinstance(s, ast.Assert):
            t = dd_test(s.test, env, state)
            need(t[0] == 'bool', 'solve: assertion')
            return f'(if {t[1]} then {run(rest, env, state)} else ({st_tuple(state)}, .error .assert))'
        if isinstance(s, ast.Raise):
            need(ast.unparse(s.exc).startswith('ValueError('), f'solve: raises {ast.unparse(s.exc)[:40]}')
            return f'({st_tuple(state)}, .error .value)'
        if isinstance(s, ast.Assign) and [ast.unparse(t) for t in s.targets] == ['self.reference']:
            e2 = dict(env)                       # the property setter, inlined with `value` bound to the right-hand side
            e2['value'] = dd_val(s.value, env, state)
            return run(list(setter_body) + rest, e2, state)
        if isinstance(s, ast.Assign):
            env, state = dd_assign(s, env, state)
            return run(rest, env, state)
        if isinstance(s, ast.If):
            head, (b1, b2) = branches(s, env, state)
            if may_refuse([s]):
                return join(head, run(list(b1[2]) + rest, b1[0], b1[1]), run(list(b2[2]) + rest, b2[0], b2[1]))
            (ea, sa), (eb, sb) = straight(b1[2], b1[0], b1[1]), straight(b2[2], b2[0], b2[1])
            env, state = dict(env), dict(state)
            for d_, da, db in ((env, ea, eb), (state, sa, sb)):
                for k in set(da) | set(db):
                    if k in da and k in db and da[k] != db[k]:
                        need(da[k][0] == 'val' and db[k][0] == 'val', f'solve: {k} is optional after a merged branch')
                        m_ = join(head, da[k][1], db[k][1])
                        if head[0] == 'if':
                            phis[m_] = (head[1], da[k], db[k])
                        d_[k] = ('val', m_)
                    elif k in da and k in db:
                        d_[k] = da[k]
                    else:
                        d_.pop(k, None)       # bound on one path only: unusable afterwards
            return run(rest, env, state)
        fail(f'solve: statement {ast.unparse(s)[:60]}')
    args_stmts = [s for s in pre if not (isinstance(s, ast.Assign) and ast.unparse(s.value) == '[]')]
    env0 = {k: ('opt', k) for k in ('system0', 'system1', 'neighbors', 'reference')}
    env0['cutoff'] = ('opt', 'cutoff')
    state0 = {'system0': ('val', 'o0'), 'system1': ('val', 'o1'), 'reference': ('val', 'oref'), 'neighbors': ('opt', 'onl')}
    # `cutoff` is only tested and handed on: inside its `some` branch it is the pair of lists the two systems get for it
    term = run(args_stmts, env0, state0)
    out.append('/-- `DifferentialDisplacement.solve`: everything before the loop over atoms, executed on the stored state')
    out.append('    `(o0, o1, oref, onl)` = (`__system0`, `__system1`, `__reference`, `__neighbors`) and the five optional arguments;')
    out.append('    `cutoff` carries the lists (`system0`, `system1`) would get from `neighborlist(cutoff=)`.  Result: the stored state')
    out.append('    afterwards and the list the loop uses, or the refusal (assert = AssertionError, value = ValueError). -/')
    out.append('def ddSolveArgs {S L : Type} (natoms : S → Nat) (o0 o1 : S) (oref : Nat) (onl : Option L)')
    out.append('    (system0 system1 : Option S) (neighbors : Option L) (cutoff : Option (L × L)) (reference : Option Nat) :')
    out.append('    (S × S × Nat × Option L) × Except DErr L :=')
    out.append('  ' + term)
    need(isinstance(di[0], ast.If) and len(di) == 1, 'DifferentialDisplacement.__init__: shape')
    tt = di[0].test
    need(isinstance(tt, ast.BoolOp) and isinstance(tt.op, ast.Or) and all(
        ast.unparse(v) in ('neighbors is not None', 'cutoff is not None') for v in tt.values) and len(tt.values) == 2
        and len({ast.unparse(v) for v in tt.values}) == 2, f'DifferentialDisplacement.__init__: test {ast.unparse(tt)}')
    call = di[0].body[0]
    need(len(di[0].body) == 1 and isinstance(call, ast.Expr) and ast.unparse(call.value) ==
         'self.solve(system0, system1, neighbors=neighbors, cutoff=cutoff, reference=reference)', 'DifferentialDisplacement.__init__: solve call')
    out.append(f'/-- `DifferentialDisplacement.__init__`: `if {ast.unparse(tt)}:` → `solve` with all five arguments -/')
    out.append('def ddInitSolves {L C : Type} (neighbors : Option L) (cutoff : Option C) : Bool :=')
    out.append('  ' + ' || '.join({'neighbors is not None': 'neighbors.isSome', 'cutoff is not None': 'cutoff.isSome'}[ast.unparse(v)] for v in tt.values))
    out.append('')

    # ------------------------------------------------------------------ nye_tensor.py: Levi-Civita table and contraction
    f = func(nt, 'nye_tensor')
    stm = body(f)
    epsd = [s for s in stm if isinstance(s, ast.Assign) and ast.unparse(s.targets[0]) == 'eps']
    need(len(epsd) == 1 and ast.unparse(epsd[0].value.func) == 'np.array', 'nye_tensor: eps')
    tab = ast.literal_eval(epsd[0].value.args[0])
    need(len(tab) == 3 and all(len(r) == 3 and all(len(c) == 3 and all(isinstance(x, int) for x in c) for c in r) for r in tab), 'eps shape')
    out.append('/-- `nye_tensor`: the table `eps` -/')
    out.append('def eps (i j m : Nat) : Int := (([' + ', '.join('[' + ', '.join('[' + ', '.join(str(x) for x in c) + ']' for c in r) + ']' for r in tab)
               + '] : List (List (List Int))).getD i []).getD j [] |>.getD m 0')
    lp2 = [s for s in stm if isinstance(s, ast.For)][-1]
    ein = [s for s in lp2.body if isinstance(s, ast.Assign) and 'einsum' in ast.unparse(s)]
    need(len(ein) == 1, 'nye_tensor: einsum')
    v = ein[0].value
    need(isinstance(v, ast.BinOp) and isinstance(v.op, ast.Mult) and ast.unparse(v.left) == '-1' and isinstance(v.right, ast.Call)
         and ast.unparse(v.right.func) == 'np.einsum' and [ast.unparse(a) for a in v.right.args[1:]] == ['eps', 'gradG'], 'nye_tensor: contraction')
    spec = ast.literal_eval(v.right.args[0])
    ins, outs = spec.split('->')
    ia, ib = ins.split(',')
    need(len(ia) == 3 and len(ib) == 3 and len(outs) == 2 and set(outs) <= set(ia + ib), f'einsum {spec}')
    summed = sorted(set(ia + ib) - set(outs))

    def ein_entry(r, c):
        env = {outs[0]: r, outs[1]: c}
        terms = []
        import itertools
        for vals in itertools.product(range(3), repeat=len(summed)):
            e2 = dict(env)
            e2.update(dict(zip(summed, vals)))
            ev = tab[e2[ia[0]]][e2[ia[1]]][e2[ia[2]]]
            terms.append(f'((eps {e2[ia[0]]} {e2[ia[1]]} {e2[ia[2]]} : Int) : K) * g {e2[ib[0]]} {e2[ib[1]]} {e2[ib[2]]}')
        return '-(' + ' + '.join(terms) + ')'
    out.append(f'/-- `{ast.unparse(ein[0])}`, the sum written out -/')
    out.append('def nyeEinsum (g : Nat → Nat → Nat → K) : M3 K :=\n  matOf fun j k => match j, k with\n' + '\n'.join(
        f'    | {r}, {c} => {ein_entry(r, c)}' for r in range(3) for c in range(3)) + '\n    | _, _ => 0')
    gl = [s for s in ast.walk(lp2) if isinstance(s, ast.Assign) and ast.unparse(s.targets[0]).startswith('gradG[')]
    pins.append(('nyeTensorLoop', 'nye_tensor: pairing decisions, conflict loop, G, strain measures, gradG',
                 sum((ast.unparse(s).split('\n') for s in stm if isinstance(s, ast.For)), [])))
    p_chain(stm, 'nyeTensor', 'nye_tensor', 'system.natoms')
    pins.append(('nyeTensorPre', 'nye_tensor: p-vector broadcasting, axes, cos', sum((ast.unparse(s).split('\n') for s in stm[1:stm.index(epsd[0])]), [])))
    need(len(gl) == 1, 'nye_tensor: gradG')
    out.append('')

    # ------------------------------------------------------------------ disregistry.py, differential_displacement.py: statement pins
    dr = ast.parse(cm.source('atomman/defect/disregistry.py'))
    f = func(dr, 'disregistry')
    pins.append(('disregistry', 'disregistry: every statement (numpy calls: unique, isclose, interp, union1d, mean)',
                 [ast.unparse(f.args)] + sum((ast.unparse(s).split('\n') for s in body(f)), [])))
    # disregistry: what the profile is computed from, as a Lean definition (second pass)
    need([a.arg for a in f.args.args] == ['basesystem', 'dislsystem', 'm', 'n', 'planepos'], 'disregistry: signature')
    asg = {}
    for s_ in body(f):
        if isinstance(s_, ast.Assign) and isinstance(s_.targets[0], ast.Name) and len(s_.targets) == 1:
            asg.setdefault(s_.targets[0].id, []).append(s_.value)
    for k_ in ('m', 'n', 'planepos'):
        need(len(asg.get(k_, [])) == 1 and ast.unparse(asg[k_][0]) == f'np.asarray({k_}, dtype=float)', f'disregistry: conversion of {k_}')
    for k_ in ('basepos', 'disp', 'allx', 'ally', 'midy'):
        need(len(asg.get(k_, [])) == 1, f'disregistry: {k_} assigned {len(asg.get(k_, []))} times')
    sysof = {'basesystem': '0', 'dislsystem': '1'}
    bp_ = ast.unparse(asg['basepos'][0])
    need(bp_.endswith('.atoms.pos') and bp_[:-10] in sysof, f'disregistry: basepos = {bp_}')
    posname = {'basepos': f'pos{sysof[bp_[:-10]]} i'}
    dc = asg['disp'][0]
    need(isinstance(dc, ast.Call) and ast.unparse(dc.func) == 'displacement' and not dc.keywords and len(dc.args) == 2
         and all(ast.unparse(a_) in sysof for a_ in dc.args), f'disregistry: {ast.unparse(dc)}')
    k0, k1 = (sysof[ast.unparse(a_)] for a_ in dc.args)

    def dotof(v_, per_atom):
        need(isinstance(v_, ast.Call) and ast.unparse(v_.func) == 'np.dot' and len(v_.args) == 2 and not v_.keywords, f'disregistry: {ast.unparse(v_)}')
        a_, b_ = (ast.unparse(x) for x in v_.args)
        need(b_ in ('m', 'n') and (a_ in posname if per_atom else a_ == 'planepos'), f'disregistry: {ast.unparse(v_)}')
        return f'V3.dot ({posname[a_]}) {b_}' if per_atom else f'V3.dot planepos {b_}'
    out.append('/-- `disregistry`: `disp = displacement(…)` (default box_reference), `allx`, `ally`, `midy` -/')
    out.append('def disregistryInputs (n0 n1 : Nat) (c0 c1 : Cell K) (pos0 pos1 : Nat → V3 K) (m n planepos : V3 K) :')
    out.append('    Except NbrErr (List (K × K × V3 K) × K) :=')
    out.append(f'  match displacementCall n{k0} n{k1} c{k0} c{k1} .final pos{k0} pos{k1} with')
    out.append('  | .error e => .error e')
    out.append(f'  | .ok disp => .ok ((List.range n{sysof[bp_[:-10]]}).map (fun i => ({dotof(asg["allx"][0], True)}, {dotof(asg["ally"][0], True)}, disp i)), '
               f'{dotof(asg["midy"][0], False)})')
    out.append('')
    f = func(ddf, 'differential_displacement')
    keep = [ast.unparse(s) for s in ast.walk(f) if isinstance(s, ast.Assign)
            and ast.unparse(s.targets[0]) in ('T', 'dvectors_0', 'dvectors_1', 'dd_vectors')]
    pins.append(('ddFunctionBody', 'differential_displacement: the plotting frame T, the two separations in that frame, their difference', keep))

    for name, doc, lines in pins:
        out.append(f'/-- pin — {doc} -/')
        lines = sum((x.split('\n') for x in lines), [])
        out.append(f'def pin_{name} : List String :=\n  [' + ',\n   '.join(_q(x) for x in lines) + ']')
        out.append('')
    out.append('end')
    out.append('end Atomman.C17.Gen')
    return {'DeformSource': '\n'.join(out) + '\n'}


MANIFEST = {
    'text': 'Lean model of displacement, slip_vector_c, DifferentialDisplacement.solve, disregistry (plane selection, '
            'column means, np.interp), match_pq (best-angle loop and conflict loop), lstsq as the normal equations, '
            'strain/rotation/invariants and the Nye tensor. Proved for every linearly ordered field: if no periodic image '
            'flips (candidate s stays the strict minimum by a gap dominating the relative displacement: image_stable) the '
            'separation of a displaced pair is the old one plus u_j - u_i; hence displacement is the imposed one, a '
            'two-valued rigid slip gives slip_i = (#neighbours across) x (own - other half displacement) and 0 away from '
            'the plane, every dd vector is u_j - u_i, the disregistry profile is the slip at every coordinate; q = F p '
            'on the matched pairs with full rank gives G = F^-T (= F for a rotation), through the real pairing loop '
            'under its hypothesis (each q has a best p inside theta_max, distinct q distinct p); strain/rotation are '
            'the symmetric/antisymmetric parts of I - G, the invariants the characteristic-polynomial coefficients; '
            'constant G gives a zero Nye tensor; all per-atom results are unchanged by a joint translation and carried '
            'along by a consistent renumbering. p vectors handed over in a rotated frame with axes=T are stored as T p '
            '(shared set broadcast to every atom, per-atom sets atom by atom). Object level: a Strain object is modelled with '
            'its eight cached quantities; after solve_G (with or without theta_max) on an object in ANY state every read '
            'returns the value determined by the current inputs alone, i.e. what a fresh object returns (solve_coherent, '
            'read_coherent, reads_after_solve); a DifferentialDisplacement object stores after a successful solve exactly '
            'the vectors of its current systems and list, whatever it held before. The pairing loop is proved for any number of '
            'competing vectors: no reference vector is paired twice and the winner is the competitor closest to the first-shell '
            'radius, hence G = F^-T also when the current list holds more shells than the reference set. The source of the '
            'neighbour list (neighbors=, cutoff=, attribute, refusal) is part of the model. displacement(), slip_vector() and '
            'Strain.asdict() are modelled as whole calls (atom-count and box_reference refusals, default keys, unknown keys) with '
            'refusal theorems (exactly when), and end-to-end theorems state the clauses at the level of the public entry points '
            '(SObj.api_homogeneous, DObj.api_differences, slipVectorCall_rigid, displacementCall_is_imposed); disregistry is '
            'invariant under renumbering (no hypothesis) and translation covariant for rtol = 0. Source tie: translate() regenerates '
            'from the current sources (ast; the .pyx files after removal of the C declarations) the tensor formulas, the nye_c table and '
            'the Levi-Civita contraction of nye_tensor.py, the comparison operators and tie rules of match_pq, the slip accumulation, the '
            'branch chains of displacement() and of the five neighbour blocks, the getter / clear tables and the key lists as Lean '
            'definitions (Generated/DeformSource.lean), each proved equal to the hand model (39 gen_..._eq_model theorems), plus 16 '
            'statement pins for sequencing code; the argument handling of DifferentialDisplacement.solve is executed symbolically from '
            'its statements into one Lean function and DObj.solve is proved to be exactly that followed by the loop '
            '(gen_ddSolveArgs_eq_model), the broadcasting chain and axes step of set_p_vectors / nye_tensor and the inputs of disregistry '
            '(projections, displacement call) are generated definitions too; disregistry is modelled from the two systems '
            '(disregistryCall_rigid end to end, disregistryCall_refuses_iff), solve refuses exactly when DObj.solve_refuses_iff says. The model is also tied to the compiled/pure-python code by a differential '
            'run (exact on dyadic inputs) and the clauses are searched on the real code with an exact oracle.',
    'note': 'Partial: that a small deformation of a perfect crystal satisfies the pairing hypothesis of match_pq, and '
            'that numpy lstsq solves the normal equations, are checked on the implementation, not proved. Trusted: Lean '
            'kernel + propext/Classical.choice/Quot.sound; the correspondence harness; numpy (lstsq, unique, interp, '
            'isclose); NeighborList/supersize/rotate as generators. Floating-point rounding is bounded, not verified.',
    'technique': 'Lean 4 theorems over an executable model + translator (ast -> generated Lean definitions proved equal to the model, '
                 'statement pins) + differential correspondence + exact oracle search',
}
