"""C18 — gamma surface (periodic, interpolating, coordinate conversions, data-model round trip) and the
semidiscrete variational Peierls-Nabarro energies (SDVPN), arctangent profiles.

Tie: correspondence only (hand-written model lean/Atomman/C18.lean).  The real scipy `Rbf` objects of a
GammaSurface are wrapped by a recorder: the arguments the implementation queries them with are compared
with the model's wrapped coordinates / tile offsets, and the returned values are handed to the model as
the table of the interpolant `f` (a parameter of the model).  `log`, `arctan`, `pi`, vector norms are
computed by the harness in float and passed in as exact rationals; scipy's `minimize` is replaced by a
stub returning an arbitrary vector when the `solve` embedding is compared.
"""
from __future__ import annotations

import math
import random
import sys
import time
from fractions import Fraction

from .. import common as cm

PROP = 'C18'
THEOREMS = [
    'C18.E_periodic', 'C18.E_interpolates', 'C18.E_interpolates_edge', 'C18.hgrid_of_uniform', 'C18.wrap_loop_spec',
    'C18.delta_interpolates', 'C18.delta_periodic_offlattice',
    'C18.a12_pos_inverse', 'C18.a12_pos_inverse_many', 'C18.pos_xy_inverse', 'C18.pos_xy_inverse_many',
    'C18.planeNormal_perp', 'C18.model_roundtrip',
    'C18.total_is_sum', 'C18.elastic_symmetric_quadratic', 'C18.elastic_polarization', 'C18.elastic_scaling',
    'C18.density_shift_invariant', 'C18.elastic_shift_invariant',
    'C18.solve_ends_fixed', 'C18.solve_interior', 'C18.recompose_decompose',
]
PARTIAL = {}
RULE = ''
ASSUMPTIONS = []
TRUSTED = []


def _np():
    import numpy as np
    return np


F = Fraction


# ----------------------------------------------------------------------------------------
# generators
# ----------------------------------------------------------------------------------------
GRIDS_DYADIC = [(4, 4), (4, 8), (8, 4), (2, 8), (8, 8), (4, 16)]
GRIDS_GENERIC = [(3, 3), (3, 7), (5, 4), (6, 5), (5, 10), (3, 8), (7, 3), (10, 4), (6, 6), (4, 9), (9, 2)]
VECTS = [
    # (a1vect, a2vect, box-vects or None, tag)
    ([1.0, 0.0, 0.0], [0.0, 1.0, 0.0], None, 'rect'),
    ([2.5, 0.0, 0.0], [0.0, 0.0, 4.0], None, 'rect-xz'),
    ([1.0, 0.0, 0.0], [0.5, 1.0, 0.0], None, 'oblique'),
    ([1.0, 0.25, -0.5], [-0.75, 1.5, 0.5], None, 'oblique3d'),
    ([1.0, 0.0, 0.0], [0.0, 1.0, 0.0], [[3.0, 0.0, 0.0], [1.0, 2.5, 0.0], [0.5, -0.75, 4.0]], 'tri-box'),
    ([1.0, 1.0, 0.0], [0.5, -1.0, 1.0], [[3.0, 0.0, 0.0], [-0.5, 4.0, 0.0], [1.0, 0.5, 5.0]], 'tri-box-oblique'),
    ([0.5, 0.0, -0.5], [0.5, -1.0, 0.5], [[4.0, 0.0, 0.0], [0.0, 4.0, 0.0], [0.0, 0.0, 4.0]], 'fcc111'),
]


def gen_gamma_spec(rng, regime=None, vects=None, grid=None, dup=None, delta=None, sinus=None):
    """A gamma-surface data set.  regime 'dyadic': grid coordinates and energies exactly representable, so
    that wrap/blend decisions of the implementation are exact; 'generic': k/n floats."""
    if regime is None:
        regime = rng.choice(['dyadic', 'generic'])
    n1, n2 = grid if grid else rng.choice(GRIDS_DYADIC if regime == 'dyadic' else GRIDS_GENERIC)
    dup = rng.random() < 0.35 if dup is None else dup
    if dup:
        u1 = [i / n1 for i in range(n1 + 1)]
        u2 = [j / n2 for j in range(n2 + 1)]
    else:
        u1 = [i / n1 for i in range(n1)]
        u2 = [j / n2 for j in range(n2)]
    a1vect, a2vect, box, tag = vects if vects else rng.choice(VECTS)
    ph = [rng.uniform(0, 1) for _ in range(4)]
    amp = [cm.dyadic(rng, 0.0, 2.0, 3) for _ in range(4)]
    noise = 0.0 if sinus else rng.choice([0.0, 0.0, 0.25])

    def e(p, q):
        p, q = p % 1.0, q % 1.0
        if sinus is not None:
            return sinus / 2 * (1 - math.cos(2 * math.pi * p))
        v = amp[0] * (1 - math.cos(2 * math.pi * (p + 0 * ph[0]))) + amp[1] * math.sin(math.pi * q) ** 2 \
            + amp[2] * math.cos(2 * math.pi * (p + q + ph[2])) + amp[3] * math.sin(2 * math.pi * (2 * p - q + ph[3]))
        return v
    a1, a2, E, D = [], [], [], []
    cache = {}
    for p in u1:
        for q in u2:
            key = (round(p % 1.0, 12) % 1.0, round(q % 1.0, 12) % 1.0)
            if key not in cache:
                v = e(p, q) + noise * rng.uniform(-1, 1)
                if regime == 'dyadic':
                    v = round(v * 64) / 64
                cache[key] = (v, cm.dyadic(rng, -0.5, 0.5, 4))
            a1.append(p)
            a2.append(q)
            E.append(cache[key][0])
            D.append(cache[key][1])
    use_delta = rng.random() < 0.4 if delta is None else delta
    return {'regime': regime, 'n1': n1, 'n2': n2, 'dup': dup, 'a1vect': list(a1vect), 'a2vect': list(a2vect),
            'box': box, 'tag': tag, 'a1': a1, 'a2': a2, 'E': E, 'delta': D if use_delta else None}


def mk_gamma(spec):
    import atomman as am
    np = _np()
    box = None
    if spec['box'] is not None:
        b = spec['box']
        box = am.Box(avect=b[0], bvect=b[1], cvect=b[2])
    return am.defect.GammaSurface(a1vect=spec['a1vect'], a2vect=spec['a2vect'], a1=np.array(spec['a1']),
                                  a2=np.array(spec['a2']), E_gsf=np.array(spec['E']), box=box,
                                  delta=None if spec['delta'] is None else np.array(spec['delta']))


def cart_vects(spec):
    np = _np()
    B = np.eye(3) if spec['box'] is None else np.array(spec['box'], dtype=float)
    return np.dot(np.array(spec['a1vect'], dtype=float), B), np.dot(np.array(spec['a2vect'], dtype=float), B), B


class Rec:
    """records the calls made to a scipy interpolant."""

    def __init__(self, f):
        self.f = f
        self.calls = []

    def __call__(self, *a):
        np = _np()
        r = self.f(*a)
        self.calls.append(([np.array(x, dtype=float).copy() for x in a], np.array(r, dtype=float).copy()))
        return r

    def __getattr__(self, k):
        return getattr(self.f, k)


def spy(g):
    """wrap the fitted interpolants of a GammaSurface; returns (E recorder, delta recorder or None)."""
    re_ = Rec(g._GammaSurface__E_gsf_fit)
    g._GammaSurface__E_gsf_fit = re_
    rd = None
    if hasattr(g, '_GammaSurface__delta_fit'):
        rd = Rec(g._GammaSurface__delta_fit)
        g._GammaSurface__delta_fit = rd
    return re_, rd


def gen_queries(rng, spec, m, c1=None, c2=None):
    """query points: generic, sampled nodes shifted by integers, the blend strip and its edges."""
    q = []
    dy = spec['regime'] == 'dyadic'
    for _ in range(m):
        k = rng.random()
        if k < 0.3:
            i = rng.randrange(len(spec['a1']))
            p = (spec['a1'][i] + rng.randint(-2, 2), spec['a2'][i] + rng.randint(-2, 2))
        elif k < 0.55 and c1 is not None:
            def strip(c):
                c = float(c)
                base = rng.choice([-c, c, 1 - c, 0.0, 1.0, -c / 2, c / 2, 1 - c / 2])
                return base + rng.randint(-2, 2)
            p = (strip(c1), strip(c2)) if rng.random() < 0.5 else (strip(c1), cm.dyadic(rng, -2, 2, 5))
        elif dy:
            p = (cm.dyadic(rng, -3, 3, 5), cm.dyadic(rng, -3, 3, 5))
        else:
            p = (rng.uniform(-3, 3), rng.uniform(-3, 3))
        q.append(p)
    return q


# ----------------------------------------------------------------------------------------
# correspondence
# ----------------------------------------------------------------------------------------
RULE = ('gamma surfaces: grids n1 x n2 in {2..16} (dyadic grids: coordinates/energies exact in double, wrap and '
        'blend decisions compared exactly; generic k/n grids: compared within 1e-9 with points the model places '
        'within 1e-9 of the wrap boundary exempt), with/without duplicated a=1 edge, with/without delta, 7 '
        'shift-vector/box settings (rectangular, oblique, triclinic box, fcc (111)); queries: generic, sampled '
        'nodes plus integer periods, blend-strip edges; SDVPN: isotropic and Stroh (cubic anisotropic) Volterra '
        'solutions in several orientations, random disregistry profiles on uniform grids, random tau/alpha/beta/'
        'cutoff and finite-difference flags; distinct = distinct canonical driver line; non-trivial = non-error '
        'reply with at least one non-zero input')


def _ask(ctx, line, key, info):
    out = ctx.driver.ask(line)
    if out.startswith('err:'):
        return None, out
    return cm.unfrs(out), out


def _fit_case(ctx, spec, g, which='E'):
    """model fit nodes vs the nodes the implementation handed to Rbf.  Returns (c1, c2) wire strings."""
    np = _np()
    vals = spec['E'] if which == 'E' else spec['delta']
    n = len(vals)
    line = f'fit {n} ' + cm.frs(spec['a1']) + ' ' + cm.frs(spec['a2']) + ' ' + cm.frs(vals)
    out = ctx.driver.ask(line)
    ctx.stats.case('fit', line, sample={'op': 'fit', 'grid': [spec['n1'], spec['n2']], 'dup': spec['dup'],
                                        'vects': spec['tag'], 'field': which})
    rep = {'op': 'fit', 'spec': spec, 'field': which}
    if out.startswith('err:'):
        ctx.disagree('fit:driver-error', f'model refused a fit the implementation accepted: {out}', rep)
        return None
    toks = out.split()
    c1, c2, N = toks[0], toks[1], int(toks[2])
    body = [Fraction(t) for t in toks[3:]]
    m1, m2, me = body[:N], body[N:2 * N], body[2 * N:]
    fit = g._GammaSurface__E_gsf_fit if which == 'E' else g._GammaSurface__delta_fit
    xi, di = np.asarray(fit.xi), np.asarray(fit.di)
    nearest = g._GammaSurface__E_gsf_nearest if which == 'E' else g._GammaSurface__delta_nearest
    ok = xi.shape == (2, N) and cm.allclose(xi[0], m1, 0, 1e-12) and cm.allclose(xi[1], m2, 0, 1e-12) \
        and all(F(float(a)) == b for a, b in zip(di, me))
    ok = ok and np.asarray(nearest.points).shape == (N, 2) and np.array_equal(np.asarray(nearest.points).T, xi) \
        and np.array_equal(np.asarray(nearest.values).ravel(), di)
    if not ok:
        ctx.disagree('fit', f'fit nodes differ: implementation {xi.shape[1]} nodes, model {N} '
                     f'(grid {spec["n1"]}x{spec["n2"]}, dup={spec["dup"]})', rep)
        return None
    return c1, c2


def _wrap_exempt(spec, q, c):
    """generic regime: the model's a + c within 1e-9 of an integer -> float may wrap the other way."""
    if spec['regime'] == 'dyadic':
        return False
    t = F(q) + F(c)
    return abs(t - round(t)) < F(1, 10 ** 9)


def _egsf_case(ctx, spec, g, rec, cs, queries, via='a12'):
    np = _np()
    c1, c2 = cs
    q1 = np.array([p[0] for p in queries], dtype=float)
    q2 = np.array([p[1] for p in queries], dtype=float)
    rec.calls.clear()
    impl = np.asarray(g.E_gsf(a1=q1.copy(), a2=q2.copy()), dtype=float)
    rep = {'op': 'egsf', 'spec': spec, 'queries': [list(p) for p in queries]}
    if len(rec.calls) != 4:
        ctx.disagree('egsf:calls', f'E_gsf made {len(rec.calls)} interpolant calls, model has 4 blend nodes', rep)
        return
    (a1w, a2w), f00 = rec.calls[0]
    offs = [(0, 0), (0, 1), (1, 0), (1, 1)]
    for k, (o1, o2) in enumerate(offs):
        (b1, b2), _ = rec.calls[k]
        if not (np.array_equal(b1, a1w + o1) and np.array_equal(b2, a2w + o2)):
            ctx.disagree('egsf:offset', f'interpolant call {k} is not at the wrapped point + {(o1, o2)}', rep)
            return
    scale = max(1.0, max(abs(v) for v in spec['E']))
    m = len(queries)
    rows = []
    for i in range(m):
        rows += [q1[i], q2[i]] + [rec.calls[k][1][i] for k in range(4)]
    line = f'egsf {c1} {c2} {m} ' + cm.frs(rows)
    out = ctx.driver.ask(line)
    if out.startswith('err:'):
        ctx.disagree('egsf:driver-error', f'model refused: {out}', rep)
        return
    vals = cm.unfrs(out)
    exact = spec['regime'] == 'dyadic'
    for i in range(m):
        w1, w2, x, y, e = vals[5 * i:5 * i + 5]
        ex = _wrap_exempt(spec, q1[i], c1) or _wrap_exempt(spec, q2[i], c2)
        ctx.stats.case('egsf', (line[:40], i, float(q1[i]), float(q2[i]), spec['tag'], spec['n1'], spec['n2'], spec['dup']),
                       nontrivial=not ex,
                       sample={'op': 'E_gsf', 'a1': float(q1[i]), 'a2': float(q2[i]), 'grid': [spec['n1'], spec['n2']],
                               'wrapped': [float(w1), float(w2)], 'weights': [float(x), float(y)]})
        if ex:
            continue
        if exact:
            okw = F(float(a1w[i])) == w1 and F(float(a2w[i])) == w2
        else:
            okw = cm.close(a1w[i], w1, 0, 1e-9) and cm.close(a2w[i], w2, 0, 1e-9)
        if not okw:
            ctx.disagree('egsf:wrap', f'wrapped query differs at ({q1[i]!r}, {q2[i]!r}): implementation '
                         f'({a1w[i]!r}, {a2w[i]!r}), model ({float(w1)!r}, {float(w2)!r})',
                         dict(rep, index=i))
            continue
        if not cm.close(impl[i], e, 1e-9, 1e-10 * scale):
            ctx.disagree('egsf:value', f'E_gsf({q1[i]!r}, {q2[i]!r}) = {impl[i]!r}, model blend of the same '
                         f'interpolant values = {float(e)!r} (weights {float(x)}, {float(y)})', dict(rep, index=i))


def _delta_case(ctx, spec, g, recd, queries):
    np = _np()
    q1 = np.array([p[0] for p in queries], dtype=float)
    q2 = np.array([p[1] for p in queries], dtype=float)
    recd.calls.clear()
    impl = np.asarray(g.delta(a1=q1.copy(), a2=q2.copy()), dtype=float)
    rep = {'op': 'delta', 'spec': spec, 'queries': [list(p) for p in queries]}
    if len(recd.calls) != 1:
        ctx.disagree('delta:calls', f'delta made {len(recd.calls)} interpolant calls, model 1', rep)
        return
    (a1w, a2w), fv = recd.calls[0]
    rows = []
    for i in range(len(queries)):
        rows += [q1[i], q2[i]]
    out = ctx.driver.ask(f'delta {len(queries)} ' + cm.frs(rows))
    vals = cm.unfrs(out)
    exact = spec['regime'] == 'dyadic'
    for i in range(len(queries)):
        w1, w2 = vals[2 * i], vals[2 * i + 1]
        near = (not exact) and any(abs(F(q) - round(F(q))) < F(1, 10 ** 9) for q in (q1[i], q2[i]))
        ctx.stats.case('delta', ('delta', i, float(q1[i]), float(q2[i]), spec['tag'], spec['n1'], spec['n2']), nontrivial=not near)
        if near:
            continue
        ok = (F(float(a1w[i])) == w1 and F(float(a2w[i])) == w2) if exact else \
            (cm.close(a1w[i], w1, 0, 1e-9) and cm.close(a2w[i], w2, 0, 1e-9))
        if not ok or impl[i] != fv[i]:
            ctx.disagree('delta:wrap', f'delta wrap differs at ({q1[i]!r}, {q2[i]!r}): implementation '
                         f'({a1w[i]!r}, {a2w[i]!r}), model ({float(w1)!r}, {float(w2)!r})', dict(rep, index=i))


def _norms(g, X):
    np = _np()
    yv = np.cross(g.planenormal, X)
    tr = np.array([X, yv, g.planenormal])
    return np.linalg.norm(tr, axis=1)


def _conv_case(ctx, spec, g, rng):
    """coordinate conversions: model vs implementation on the same exact inputs."""
    np = _np()
    A1, A2, B = cart_vects(spec)
    rep = {'op': 'conv', 'spec': {k: spec[k] for k in ('a1vect', 'a2vect', 'box', 'tag')}}
    # cart
    for v in (spec['a1vect'], spec['a2vect']):
        out = ctx.driver.ask('cart ' + cm.frs(v) + ' ' + cm.frs(B))
        impl = np.dot(np.array(v, dtype=float), g.box.vects)
        ctx.stats.case('cart', (tuple(v), spec['tag']))
        if not cm.allclose(impl, cm.unfrs(out), 1e-12, 1e-12):
            ctx.disagree('cart', f'crystal->Cartesian vector differs for {v}', rep)
    head = cm.frs(A1) + ' ' + cm.frs(A2)
    m = rng.choice([1, 1, 2, 5, 9])
    dy = spec['regime'] == 'dyadic'
    pts = [(cm.dyadic(rng, -3, 3, 4), cm.dyadic(rng, -3, 3, 4)) if dy else (rng.uniform(-3, 3), rng.uniform(-3, 3))
           for _ in range(m)]
    q1 = np.array([p[0] for p in pts])
    q2 = np.array([p[1] for p in pts])
    scale = max(1.0, float(np.abs(A1).max()), float(np.abs(A2).max())) * 4
    # a12 -> pos
    single = (m == 1 and rng.random() < 0.5)
    pos = g.a12_to_pos(q1[0], q2[0]) if single else g.a12_to_pos(q1, q2)
    out = ctx.driver.ask(f'a2p {head} {m} ' + cm.frs([v for p in pts for v in p]))
    ctx.stats.case('a2p', (spec['tag'], tuple(pts)), sample={'op': 'a12_to_pos', 'vects': spec['tag'], 'points': m})
    if pos.shape != (m, 3) or not cm.allclose(pos.ravel(), cm.unfrs(out), 1e-12, 1e-12 * scale):
        ctx.disagree('a12_to_pos', f'a12_to_pos differs ({spec["tag"]}, {m} points)', dict(rep, pts=pts))
        return
    # pos -> a12 on those and on arbitrary in-plane points; out-of-plane point must be refused
    variants = [('many', pos)] + ([('one', pos[0])] if m >= 1 else [])
    for name, P in variants:
        try:
            b1, b2 = g.pos_to_a12(P)
            impl = np.array([np.ravel(b1), np.ravel(b2)]).T.ravel()
        except AssertionError:
            impl = 'err:assert'
        except Exception as e:  # noqa
            impl = f'raised {type(e).__name__}: {e}'
        PP = np.atleast_2d(P)
        out = ctx.driver.ask(f'p2a {head} {len(PP)} ' + cm.frs(PP))
        ctx.stats.case('p2a', (spec['tag'], name, tuple(pts)), sample={'op': 'pos_to_a12', 'vects': spec['tag'], 'shape': list(np.shape(P))})
        if isinstance(impl, str) or out.startswith('err:'):
            if impl != out:
                ctx.disagree('pos_to_a12', f'pos_to_a12 ({name}) implementation {impl}, model {out}', dict(rep, pos=PP.tolist()))
        elif not cm.allclose(impl, cm.unfrs(out), 1e-9, 1e-10):
            ctx.disagree('pos_to_a12', f'pos_to_a12 ({name}) differs ({spec["tag"]})', dict(rep, pos=PP.tolist()))
    off = pos[0] + np.cross(A1, A2) * rng.choice([0.5, -1.0, 1e-3])
    try:
        g.pos_to_a12(off)
        impl = 'ok'
    except AssertionError:
        impl = 'err:assert'
    out = ctx.driver.ask(f'p2a {head} 1 ' + cm.frs(off))
    ctx.stats.case('p2a:offplane', (spec['tag'], tuple(off)))
    if (impl == 'err:assert') != (out == 'err:assert'):
        ctx.disagree('pos_to_a12:assert', f'out-of-plane position: implementation {impl}, model {out}', dict(rep, pos=off.tolist()))
    # xy conversions with the default and with alternative in-plane x axes
    nn = float(np.linalg.norm(np.cross(A1, A2)))
    for xname, X in (('default', None), ('a2', A2.copy()), ('mix', A1 * 0.5 - A2 * 1.5), ('offplane', A1 + np.cross(A1, A2))):
        Xv = A1 if X is None else X
        nx, ny, nz = _norms(g, Xv)
        hd = cm.frs(Xv) + ' ' + head + ' ' + cm.frs([nn, nx, ny, nz])
        try:
            x, y = g.pos_to_xy(pos, xvect=X)
            impl = np.array([np.ravel(x), np.ravel(y)]).T.ravel()
        except ValueError:
            impl = 'err:value'
        out = ctx.driver.ask(f'p2xy {hd} {m} ' + cm.frs(pos))
        ctx.stats.case('p2xy', (spec['tag'], xname, tuple(pts)), sample={'op': 'pos_to_xy', 'vects': spec['tag'], 'xvect': xname})
        if isinstance(impl, str) or out.startswith('err:'):
            if impl != out:
                ctx.disagree('pos_to_xy', f'pos_to_xy xvect={xname}: implementation {impl}, model {out}', rep)
            continue
        if not cm.allclose(impl, cm.unfrs(out), 1e-9, 1e-10 * scale):
            ctx.disagree('pos_to_xy', f'pos_to_xy differs ({spec["tag"]}, xvect={xname})', dict(rep, pts=pts))
            continue
        xs = [cm.dyadic(rng, -4, 4, 3) for _ in range(m)]
        ys = [cm.dyadic(rng, -4, 4, 3) for _ in range(m)]
        P2 = g.xy_to_pos(np.array(xs), np.array(ys), xvect=X)
        out = ctx.driver.ask(f'xy2p {hd} {m} ' + cm.frs([v for p in zip(xs, ys) for v in p]))
        ctx.stats.case('xy2p', (spec['tag'], xname, tuple(xs), tuple(ys)))
        if out.startswith('err:') or not cm.allclose(np.ravel(P2), cm.unfrs(out), 1e-9, 1e-10 * scale):
            ctx.disagree('xy_to_pos', f'xy_to_pos differs ({spec["tag"]}, xvect={xname}): model {out[:60]}',
                         dict(rep, xy=[xs, ys]))


# -- SDVPN ---------------------------------------------------------------------------------

SYSTEMS = ['iso-edge', 'iso-screw', 'iso-mixed-rot', 'cubic-edge', 'cubic-mixed-fcc', 'cubic-yz']


def mk_system(name, rng=None, sinus=0.05, grid=(8, 3)):
    """(volterra, gamma spec) for a named configuration."""
    import atomman as am
    np = _np()
    if name.startswith('iso'):
        C = am.ElasticConstants(E=1.2, nu=0.3)
    else:
        C = am.ElasticConstants(C11=1.6, C12=1.0, C44=0.7)
    rngl = rng or random.Random(0)
    if name == 'iso-edge' or name == 'cubic-edge':
        v = am.defect.solve_volterra_dislocation(C, burgers=[2.5, 0, 0], transform=np.eye(3))
        vects = ([2.5, 0.0, 0.0], [0.0, 0.0, 4.0], None, 'rect-xz')
    elif name == 'iso-screw':
        v = am.defect.solve_volterra_dislocation(C, burgers=[0, 0, 3.0], transform=np.eye(3))
        vects = ([0.0, 0.0, 3.0], [2.0, 0.0, 0.0], None, 'rect-zx')
    elif name == 'iso-mixed-rot':
        # dislocation frame rotated about y by a 3-4-5 angle
        T = np.array([[0.8, 0.0, 0.6], [0.0, 1.0, 0.0], [-0.6, 0.0, 0.8]])
        v = am.defect.solve_volterra_dislocation(C, burgers=[2.0, 0, 0], transform=T)
        vects = ([2.0, 0.0, 0.0], [0.5, 0.0, 3.0], None, 'oblique-xz')
    elif name == 'cubic-mixed-fcc':
        box = am.Box.cubic(a=4.0)
        v = am.defect.solve_volterra_dislocation(C, burgers=[0.5, 0.0, -0.5], ξ_uvw=[1, -1, 0], slip_hkl=[1, 1, 1], box=box)
        vects = ([0.5, 0.0, -0.5], [0.5, -1.0, 0.5], [[4.0, 0.0, 0.0], [0.0, 4.0, 0.0], [0.0, 0.0, 4.0]], 'fcc111')
    elif name == 'cubic-yz':
        # m = y, n = z, line along x
        v = am.defect.solve_volterra_dislocation(C, burgers=[0, 2.0, 0], transform=np.eye(3), m=[0, 1, 0], n=[0, 0, 1])
        vects = ([0.0, 2.0, 0.0], [1.5, 0.5, 0.0], None, 'oblique-xy')
    else:
        raise ValueError(name)
    spec = gen_gamma_spec(rngl, regime='generic', vects=vects, grid=grid, dup=False, delta=False, sinus=sinus)
    return v, spec


def gen_profile(rng, pn, n=None, dyadic=False):
    """uniform grid and a random disregistry (y component zero)."""
    np = _np()
    n = n or rng.randint(5, 12)
    dx = rng.choice([0.25, 0.5, 0.125]) if dyadic else rng.choice([0.2, 0.3, 0.45, 0.1])
    x0 = -dx * (n - 1) / 2 + (rng.choice([0.0, 0.5, -1.25]) if rng.random() < 0.4 else 0.0)
    x = np.array([x0 + i * dx for i in range(n)]) if dyadic else np.linspace(x0, x0 + dx * (n - 1), n)
    b = pn.burgers
    t = np.linspace(0, 1, n)
    d = np.outer(t ** rng.choice([1, 2]), b)
    for i in range(n):
        d[i, 0] += cm.dyadic(rng, -0.5, 0.5, 4) if dyadic else rng.uniform(-0.4, 0.4)
        d[i, 2] += cm.dyadic(rng, -0.5, 0.5, 4) if dyadic else rng.uniform(-0.4, 0.4)
    d[:, 1] = 0.0
    return x, d


def gen_settings(rng, pn, symmetric_beta=False):
    np = _np()
    tau = np.array([[cm.dyadic(rng, -1, 1, 5) * 0.05 for _ in range(3)] for _ in range(3)])
    tau = (tau + tau.T) / 2
    beta = np.array([[cm.dyadic(rng, -1, 1, 4) * 0.3 for _ in range(3)] for _ in range(3)])
    if symmetric_beta:
        beta = (beta + beta.T) / 2
    k = rng.choice([1, 1, 2, 3])
    alpha = [cm.dyadic(rng, -1, 1, 4) * 0.2 for _ in range(k)]
    pn.tau = tau
    pn.beta = beta
    pn.alpha = alpha if rng.random() < 0.8 else alpha[0]
    pn.cutofflongrange = rng.choice([1000.0, 50.0, 2.5, 1.0, 0.5])
    pn.fullstress = rng.random() < 0.6
    pn.cdiffelastic = rng.random() < 0.5
    pn.cdiffsurface = rng.random() < 0.5
    pn.cdiffstress = rng.random() < 0.5
    return {'tau': tau.tolist(), 'beta': beta.tolist(), 'alpha': list(pn.alpha), 'cutoff': pn.cutofflongrange,
            'fullstress': pn.fullstress, 'cdiffelastic': pn.cdiffelastic, 'cdiffsurface': pn.cdiffsurface,
            'cdiffstress': pn.cdiffstress}


def _b(v):
    return '1' if v else '0'


def fcross(a, b):
    return [a[1] * b[2] - a[2] * b[1], a[2] * b[0] - a[0] * b[2], a[0] * b[1] - a[1] * b[0]]


def fdot(a, b):
    return sum(x * y for x, y in zip(a, b))


def exact_a12(A1, A2, pos):
    """exact (Fraction) solution of pos = a1 A1 + a2 A2 + a3 (A1 x A2)."""
    A1 = [F(float(v)) for v in A1]
    A2 = [F(float(v)) for v in A2]
    p = [F(v) if isinstance(v, Fraction) else F(float(v)) for v in pos]
    A3 = fcross(A1, A2)
    det = fdot(A1, fcross(A2, A3))
    return (fdot(p, fcross(A2, A3)) / det, fdot(p, fcross(A3, A1)) / det, fdot(p, fcross(A1, A2)) / det)


def misfit_exempt(pn, spec, cs, d):
    """a row of the profile maps within 1e-9 of the wrap boundary (float and exact wrap may differ by 1)."""
    A1, A2, _ = cart_vects(spec)
    T = [[F(float(v)) for v in row] for row in pn.transform]
    for row in d:
        dr = [F(float(row[0])), F(0), F(float(row[2]))]
        pos = [sum(dr[l] * T[l][k] for l in range(3)) for k in range(3)]
        a = exact_a12(A1, A2, pos)
        for q, c in ((a[0], cs[0]), (a[1], cs[1])):
            t = q + F(c)
            if abs(t - round(t)) < F(1, 10 ** 9):
                return True
    return False


def model_terms(ctx, pn, rec, cs, spec, x, d):
    """ask the driver for every energy term of the current settings.  Returns dict name -> Fraction | 'err:..'."""
    np = _np()
    n = len(x)
    xs, ds = cm.frs(x), cm.frs(d)
    pi = cm.fr(np.pi)
    Kt = cm.frs(pn.K_tensor)
    dx = x[1] - x[0]
    res = {}
    nrho = n - (2 if pn.cdiffelastic else 1)
    logs = [float(np.log(np.abs(k) * dx)) for k in range(1, nrho + 1)]
    lines = {
        'elastic': f'elastic {_b(pn.cdiffelastic)} {pi} {n} {xs} {ds} {Kt} ' + cm.frs(logs),
        'longrange': f'long {pi} {cm.fr(float(np.log(pn.cutofflongrange)))} {cm.frs(pn.burgers)} {Kt}',
        'stress': f'stress {_b(pn.fullstress)} {_b(pn.cdiffstress)} {n} {xs} {ds} ' + cm.frs(pn.tau[1, :]),
        'surface': f'surface {_b(pn.cdiffsurface)} {n} {xs} {ds} ' + cm.frs(pn.beta),
        'nonlocal': f'nonlocal {n} {xs} {ds} {len(pn.alpha)} ' + cm.frs(list(pn.alpha)),
    }
    # misfit: the interpolant values the implementation used are the table of f
    rec.calls.clear()
    impl_misfit = float(pn.misfit_energy(x, d))
    A1, A2, _ = cart_vects(spec)
    if len(rec.calls) == 4:
        rows = []
        for i in range(n):
            rows += [d[i, 0], d[i, 2]] + [rec.calls[k][1][i] for k in range(4)]
        lines['misfit'] = (f'misfit {cm.frs(pn.transform)} {cm.frs(A1)} {cm.frs(A2)} {cs[0]} {cs[1]} {n} {xs} '
                           + cm.frs(rows))
    names = list(lines)
    outs = ctx.driver.ask_many([lines[k] for k in names])
    for k, o in zip(names, outs):
        res[k] = o if o.startswith('err:') else Fraction(o)
    return res, impl_misfit, lines


def _sdvpn_case(ctx, name, pn, rec, cs, spec, rng, dyadic):
    np = _np()
    x, d = gen_profile(rng, pn, dyadic=dyadic)
    st = gen_settings(rng, pn)
    rep = {'op': 'sdvpn', 'system': name, 'x': x.tolist(), 'disregistry': d.tolist(), 'settings': st}
    n = len(x)
    # dislocation density
    for cd in (False, True):
        impl = pn.disldensity(x, d, cdiff=cd)[1]
        out = ctx.driver.ask(f'dens {_b(cd)} {n} {cm.frs(x)} {cm.frs(d)}')
        ctx.stats.case('disldensity', (name, cd, tuple(x), tuple(d.ravel())))
        if out.startswith('err:') or not cm.allclose(impl.ravel(), cm.unfrs(out), 1e-11, 1e-12):
            ctx.disagree('disldensity', f'disldensity(cdiff={cd}) differs ({name}, n={n})', rep)
    terms, impl_misfit, lines = model_terms(ctx, pn, rec, cs, spec, x, d)
    rho_scale = float(np.abs(pn.disldensity(x, d)[1]).max()) + 1e-30
    kmax = float(np.abs(pn.K_tensor).max())
    dx = x[1] - x[0]
    lscale = max(abs(math.log(dx)), abs(math.log(n * dx)), 1.5)
    tol = {'elastic': 1e-9 * n * n * dx * dx * lscale * kmax * rho_scale ** 2 * n,
           'longrange': 1e-12, 'stress': 1e-10, 'surface': 1e-10, 'nonlocal': 1e-10,
           'misfit': 1e-9 * max(1.0, max(abs(v) for v in spec['E'])) * n * abs(dx)}
    impl = {'elastic': pn.elastic_energy(x, d), 'longrange': pn.longrange_energy(),
            'stress': pn.stress_energy(x, d), 'surface': pn.surface_energy(x, d),
            'nonlocal': pn.nonlocal_energy(x, d), 'misfit': impl_misfit}
    total_model = F(0)
    complete = True
    mex = misfit_exempt(pn, spec, cs, d)
    for k in ('misfit', 'elastic', 'longrange', 'stress', 'nonlocal', 'surface'):
        if k == 'misfit' and mex:
            ctx.stats.case('term:misfit:boundary-exempt', (name, tuple(d.ravel())), nontrivial=False)
            complete = False
            continue
        ctx.stats.case('term:' + k, (name, lines.get(k, '')[:2000]),
                       sample={'op': k + '_energy', 'system': name, 'n': n, 'settings': {kk: st[kk] for kk in ('fullstress', 'cdiffelastic', 'cdiffsurface', 'cdiffstress')}})
        if k not in terms:
            ctx.disagree('misfit:calls', 'misfit_energy did not make 4 interpolant calls', rep)
            complete = False
            continue
        if isinstance(terms[k], str):
            ctx.disagree(f'{k}:driver-error', f'model refused {k}: {terms[k]}', rep)
            complete = False
            continue
        total_model += terms[k]
        if not cm.close(float(impl[k]), terms[k], 1e-9, tol[k]):
            ctx.disagree(k, f'{k}_energy = {float(impl[k])!r}, model {float(terms[k])!r} ({name}, n={n}, {st})',
                         dict(rep, term=k))
    if complete:
        tot = float(pn.total_energy(x, d))
        ctx.stats.case('term:total', (name, tuple(x), tuple(d.ravel()), str(st)))
        if not cm.close(tot, total_model, 1e-9, sum(tol.values())):
            ctx.disagree('total', f'total_energy = {tot!r}, sum of the model terms {float(total_model)!r}', rep)


class _FakeMin:
    """stands in for scipy.optimize.minimize: returns an arbitrary vector of the right length."""

    def __init__(self, rng):
        self.rng = rng
        self.x0 = None
        self.args = None
        self.out = None

    def __call__(self, fun, x0, args=(), method=None, options=None, **kw):
        np = _np()
        from scipy.optimize import OptimizeResult
        self.x0 = np.array(x0, dtype=float).copy()
        self.args = args
        self.out = np.array([cm.dyadic(self.rng, -4, 4, 4) for _ in range(len(x0))])
        fun(self.out, *args)       # the objective must accept it
        return OptimizeResult(x=self.out, success=True, nfev=1)


def _solve_embed_case(ctx, name, pn, rng):
    """solve() with the minimiser replaced by an arbitrary-output stub: decompose/recompose vs the model."""
    np = _np()
    mod = sys.modules['atomman.defect.SDVPN']
    x, d = gen_profile(rng, pn, dyadic=True)
    d[0, 1] = 0.0
    fake = _FakeMin(rng)
    orig = mod.minimize
    mod.minimize = fake
    rep = {'op': 'solve-embed', 'system': name, 'x': x.tolist(), 'disregistry': d.tolist()}
    try:
        pn.solve(x=x, disregistry=d.copy())
    except Exception as e:  # noqa
        ctx.disagree('solve:raises', f'solve with a stub minimiser raised {type(e).__name__}: {e}', rep)
        return
    finally:
        mod.minimize = orig
    n = len(x)
    out0 = ctx.driver.ask(f'decompose {n} ' + cm.frs(d))
    out1 = ctx.driver.ask(f'recompose {len(fake.out)} {cm.frs(fake.out)} {cm.frs(d[0])} {cm.frs(d[-1])}')
    ctx.stats.case('solve-embed', (name, tuple(x), tuple(d.ravel()), tuple(fake.out)),
                   sample={'op': 'solve(stub minimiser)', 'system': name, 'n': n})
    if out0.startswith('err:') or [F(float(v)) for v in fake.x0] != cm.unfrs(out0):
        ctx.disagree('solve:decompose', f'optimisation vector differs: implementation length {len(fake.x0)}, '
                     f'model {out0[:80]}', rep)
        return
    got = np.asarray(pn.disregistry)
    if out1.startswith('err:') or got.shape != (n, 3) or [F(float(v)) for v in got.ravel()] != cm.unfrs(out1):
        ctx.disagree('solve:recompose', 'disregistry stored by solve is not the optimiser output embedded between '
                     'the fixed end rows', dict(rep, res=fake.out.tolist(), got=got.tolist()))


def _arctan_case(ctx, rng):
    np = _np()
    import atomman as am
    n = rng.randint(3, 12)
    hw = rng.choice([1.0, 0.5, 2.0, 0.3, 1.7])
    center = rng.choice([0.0, 0.0, 0.25, -1.0])
    b = rng.choice([[1.0, 0.0, 0.0], [2.5, 0.0, 0.0], [0.0, 0.0, 3.0], [1.5, 0.0, -2.0], [0.5, 0.25, 1.0]])
    normalize = rng.random() < 0.6
    shift = rng.random() < 0.6
    mode = rng.choice(['x', 'xmax-xnum', 'xstep-xnum', 'xmax-xstep'])
    dx = rng.choice([0.25, 0.5, 0.1, 0.3])
    xmax = dx * (n - 1) / 2
    kw = {'x': {'x': np.linspace(-xmax + 0.3, xmax + 0.3, n)}, 'xmax-xnum': {'xmax': xmax, 'xnum': n},
          'xstep-xnum': {'xstep': dx, 'xnum': n}, 'xmax-xstep': {'xmax': xmax, 'xstep': dx}}[mode]
    rep = {'op': 'arctan', 'kw': {k: (v.tolist() if hasattr(v, 'tolist') else v) for k, v in kw.items()},
           'burgers': b, 'center': center, 'halfwidth': hw, 'normalize': normalize, 'shift': shift}
    try:
        x, d = am.defect.pn_arctan_disregistry(burgers=b, center=center, halfwidth=hw, normalize=normalize,
                                                shift=shift, **kw)
        x2, rho = am.defect.pn_arctan_disldensity(burgers=b, center=center, halfwidth=hw, normalize=normalize, **kw)
    except Exception as e:  # noqa
        ctx.disagree('arctan:raises', f'pn_arctan_* raised {type(e).__name__}: {e}', rep)
        return
    bb = np.asarray(b)
    at = np.arctan((x - center) / hw)
    raw = np.outer(at, bb / np.pi) + bb / 2
    normB = float(np.linalg.norm(bb))
    normLast = float(np.linalg.norm((raw - raw[0])[-1]))
    normInt = float(np.linalg.norm(raw[-1] - raw[0]))
    if len(x) != n or not np.array_equal(x, x2):
        ctx.disagree('arctan:x', f'x grid has {len(x)} points, expected {n}', rep)
        return
    line = (f'arctan {n} {cm.frs(x)} {cm.frs(at)} {cm.fr(np.pi)} {cm.frs(bb)} {cm.fr(center)} {cm.fr(hw)} '
            f'{_b(normalize)} {_b(shift)} {cm.fr(normB)} {cm.fr(normLast)}')
    out = ctx.driver.ask(line)
    ctx.stats.case('arctan', line, sample=rep)
    if out.startswith('err:') or not cm.allclose(d.ravel(), cm.unfrs(out), 1e-11, 1e-13):
        ctx.disagree('pn_arctan_disregistry', f'profile differs from the model ({rep})', rep)
    line = (f'arctandens {n} {cm.frs(x)} {cm.fr(np.pi)} {cm.frs(bb)} {cm.fr(center)} {cm.fr(hw)} '
            f'{_b(normalize)} {cm.fr(normB)} {cm.fr(normInt)}')
    out = ctx.driver.ask(line)
    ctx.stats.case('arctandens', line)
    if out.startswith('err:') or not cm.allclose(rho.ravel(), cm.unfrs(out), 1e-11, 1e-13):
        ctx.disagree('pn_arctan_disldensity', f'density differs from the model ({rep})', rep)


def correspond(ctx):
    import atomman as am
    np = _np()
    rng = ctx.rng
    t0 = time.time()
    # ---- gamma surfaces
    n_g = ctx.n(14, 120)
    specs = []
    for it in range(n_g):
        vects = VECTS[it % len(VECTS)]
        regime = 'dyadic' if it % 2 == 0 else 'generic'
        specs.append(gen_gamma_spec(rng, regime=regime, vects=vects, dup=(it % 3 == 1), delta=(it % 4 < 2)))
    for spec in specs:
        try:
            g = mk_gamma(spec)
        except Exception as e:  # noqa
            ctx.disagree('gamma:raises', f'GammaSurface construction raised {type(e).__name__}: {e}', {'op': 'fit', 'spec': spec})
            continue
        cs = _fit_case(ctx, spec, g, 'E')
        if spec['delta'] is not None:
            _fit_case(ctx, spec, g, 'delta')
        rec, recd = spy(g)
        if cs is not None:
            for rep_ in range(ctx.n(2, 4)):
                qs = gen_queries(rng, spec, ctx.n(12, 40), F(cs[0]), F(cs[1]))
                _egsf_case(ctx, spec, g, rec, cs, qs)
            if recd is not None:
                _delta_case(ctx, spec, g, recd, gen_queries(rng, spec, ctx.n(10, 30), F(0), F(0)))
        _conv_case(ctx, spec, g, rng)
    ctx.extra['t_gamma_s'] = round(time.time() - t0, 2)
    # ---- SDVPN
    t1 = time.time()
    for si, name in enumerate(SYSTEMS):
        try:
            v, spec = mk_system(name, rng, grid=rng.choice([(8, 3), (6, 4), (10, 3)]))
            g = mk_gamma(spec)
            cs = _fit_case(ctx, spec, g, 'E')
            rec, _ = spy(g)
            pn = am.defect.SDVPN(volterra=v, gamma=g)
        except Exception as e:  # noqa
            ctx.disagree('sdvpn:raises', f'constructing {name} raised {type(e).__name__}: {e}', {'op': 'sdvpn', 'system': name})
            continue
        if cs is None:
            continue
        for it in range(ctx.n(5, 40)):
            _sdvpn_case(ctx, name, pn, rec, cs, spec, rng, dyadic=(it % 2 == 0))
        for it in range(ctx.n(2, 10)):
            _solve_embed_case(ctx, name, pn, rng)
    for it in range(ctx.n(30, 300)):
        _arctan_case(ctx, rng)
    ctx.extra['t_sdvpn_s'] = round(time.time() - t1, 2)


def search(ctx, broken):
    pass


def replay(ctx, payload):
    search(ctx, True)


MANIFEST = {
    'text': 'placeholder',
    'note': 'placeholder',
    'technique': 'Lean 4 theorems over a hand-written model + differential correspondence',
}
