"""C18 — gamma surface (periodic, interpolating, coordinate conversions, data-model round trip) and the
semidiscrete variational Peierls-Nabarro energies (SDVPN), arctangent profiles.

Tie: (1) translator: `translate()` reads SDVPN.py / GammaSurface.py with `ast` and writes the energy-term methods, disldensity,
the default-argument block, the constructor frame / flag defaults, solve's keyword block and decompose, wrap_cushion / wrap_unit,
a12_to_pos and pos_to_a12, the profile formulas of pn_arctan_disregistry / pn_arctan_disldensity as Lean definitions (lean/Atomman/Generated/PNEnergy.lean); lean/Proofs/C18_Gen.lean proves each equal
to the hand model (`gen_…_eq_model`).  (2) correspondence (hand-written model lean/Atomman/C18.lean).  The real scipy `Rbf` objects of a
GammaSurface are wrapped by a recorder: the arguments the implementation queries them with are compared
with the model's wrapped coordinates / tile offsets, and the returned values are handed to the model as
the table of the interpolant `f` (a parameter of the model).  `log`, `arctan`, `pi`, vector norms are
computed by the harness in float and passed in as exact rationals; scipy's `minimize` is replaced by a
stub returning an arbitrary vector when the `solve` embedding is compared.
"""
from __future__ import annotations

import math
import random
import sys
import time
from fractions import Fraction

from .. import common as cm

PROP = 'C18'
THEOREMS = [
    'C18.E_periodic', 'C18.E_interpolates', 'C18.E_interpolates_edge', 'C18.hgrid_of_uniform', 'C18.wrap_loop_spec',
    'C18.delta_interpolates', 'C18.delta_periodic_offlattice',
    'C18.a12_pos_inverse', 'C18.a12_pos_inverse_many', 'C18.pos_xy_inverse', 'C18.pos_xy_inverse_many',
    'C18.planeNormal_perp', 'C18.xy_default_inverse', 'C18.E_interchangeable', 'C18.model_roundtrip',
    'C18.E_other_basis', 'C18.E_interchangeable_other', 'C18.frameK_symmetric', 'C18.total_is_sum', 'C18.total_is_sum_of_terms', 'C18.elastic_symmetric_quadratic', 'C18.elastic_polarization',
    'C18.elastic_scaling', 'C18.density_shift_invariant', 'C18.elastic_shift_invariant',
    'C18.energy_state_only', 'C18.longrange_after_edit', 'C18.setters_frame', 'C18.solve_kwargs',
    'C18.solve_ends_fixed', 'C18.solve_interior', 'C18.recompose_decompose',
    'C18.gamma_reload_state', 'C18.gamma_reload_conversions', 'C18.vec4to3_spec',
    'C18.term_optional_args', 'C18.total_call_is_sum', 'C18.density_optional_args', 'C18.profile_setters_frame',
    'C18.guards_scale_free', 'C18.posToA123_scale', 'C18.inPlaneOk_scale', 'C18.xvectOk_scale', 'C18.model_units_switch', 'C18.E_scale',
    'C18.solve_not_raises_of_descent', 'C18.halfwidth_continuum_partial', 'C18.halfwidth_continuum_real',
    'C18.EMany_length', 'C18.EMany_pointwise', 'C18.EMany_blocks', 'C18.EMany_single', 'C18.stress_second_row_only', 'C18.stress_symmetric_row_eq_col',
    # checked source tie: each definition regenerated from SDVPN.py / GammaSurface.py (Generated/PNEnergy.lean) equals the hand model
    'C18.gen_disldensity_eq_model', 'C18.gen_misfit_eq_model', 'C18.gen_psi_eq_model', 'C18.gen_chi_eq_model', 'C18.gen_elastic_eq_model',
    'C18.gen_longrange_eq_model', 'C18.gen_stress_eq_model', 'C18.gen_surface_eq_model', 'C18.gen_nonlocal_loop_eq_model',
    'C18.gen_nonlocal_eq_model', 'C18.gen_total_eq_model', 'C18.gen_args_eq_model', 'C18.gen_init_flags_eq_model',
    'C18.gen_solve_keywords_eq_model', 'C18.gen_total_order_eq_model', 'C18.gen_frame_eq_model', 'C18.gen_decompose_eq_model',
    'C18.gen_pn_arctan_disregistry_eq_model', 'C18.gen_pn_arctan_disldensity_eq_model',
    'C18.gen_a12_to_pos_eq_model', 'C18.solve_scaled_basis', 'C18.gen_pos_to_a12_eq_model', 'C18.gen_wrap_cushion_eq_model', 'C18.gen_wrap_unit_eq_model',
    # the clauses restated about the source's own (generated) definitions
    'C18.source_total_is_sum_of_formulas', 'C18.source_elastic_quadratic', 'C18.source_shift_invariant', 'C18.source_call',
    'C18.source_solve_ends', 'C18.source_wrap_periodic', 'C18.source_a12_pos_inverse', 'C18.source_conversions_inverse', 'C18.source_E_eq_model',
    # refusals of the profile setters and of solve(): which inputs raise, at which statement, what is stored then
    'C18.xSetter_accepts_uniform', 'C18.xSetter_accepts_iff', 'C18.xSetter_short', 'C18.xSetter_refuses_nonincreasing', 'C18.xSetter_scale_shift',
    'C18.dSetter_accepts_planar', 'C18.dSetter_empty', 'C18.solve_result_accepted', 'C18.solve_refusal_stages', 'C18.solve_accepts_iff',
    'C18.setters_refusal', 'C18.arctan_normalized_starts_at_zero', 'C18.arctan_normalized_end_length',
]
PARTIAL = {
    'solve never raises the total energy': 'reduced by solve_not_raises_of_descent to the descent property of the minimiser (f(result) <= '
        'f(start) for the function handed to it: the theorem shows f(start) is the energy of the guess and f(result) the energy of the '
        'stored solution, for ANY energy functional); that scipy.optimize.minimize has this property on the run at hand is checked on '
        'the real code by the search (Powell, Nelder-Mead, L-BFGS-B, BFGS on energies bounded below; E_after <= E_before, for repeated '
        'solves with other guesses / grids, in non-default working units)',
    'classical half-width': 'halfwidth_continuum_partial / halfwidth_continuum_real prove the clause for the CONTINUUM functional pi g0 w - '
        '(K b^2/4 pi) ln w + c (lowest at K b^2/(4 pi^2 g0) for the real logarithm); that the discrete sums of the code approach this '
        'functional is numerical (needs arctan, the continuum limit): the search scans the total energy over '
        'normalised arctangent profiles for a sinusoidal misfit law and requires |w_min/zeta - 1| <= 1.5 (zeta/X) ln(X/zeta) + '
        '(dx/zeta)^2 + 0.02 (window [-X, X], grid dx <= b/10, zeta = K b^2/(4 pi^2 g0))',
    'interpolant reproduces its nodes': 'hypothesis `hf` of E_interpolates/delta_interpolates (what scipy Rbf with smooth=0 '
        'does up to eps*cond of its linear system): checked on the real code by the search at every sampled shift',
    'delta on the lattice lines': 'delta(a1, a2) at integer a1 or a2 evaluates the interpolant at 0 or 1 depending on the side; '
        'equal only as far as the Rbf is periodic there: delta_periodic_offlattice excludes the lines, the search too',
}
ASSUMPTIONS = [
    'scipy Rbf (multiquadric, smooth=0) / NearestNDInterpolator are parameters of the model: the values they return at the '
    'queried nodes are recorded from the real run and handed to the model as the table of f',
    'numpy log, arctan, sqrt (norms), pi are evaluated by the harness in double and passed to the model as exact rationals',
    'scipy.optimize.minimize is an arbitrary function into lists in the model (replaced by a stub in the correspondence of '
    'solve; the real minimiser is exercised by the search)',
    'IEEE double rounding of the implementation is bounded by the stated rtol (1e-9 x condition) away from the wrap '
    'boundaries; on dyadic grids wrap and blend decisions are compared exactly',
    'unit conversion factors of the data model are non-zero (C09)',
    'generated definitions (Generated/PNEnergy.lean): numpy elementwise operations on two arrays are written as zipWith (numpy raises '
    'on a shape mismatch where zipWith truncates; every pair of slices the source forms has equal length, which is what the length '
    'goals of the gen_..._eq_model proofs establish); np.linalg.solve is the exact solution of the 3 x 3 system; '
    'np.linalg.norm(a3vect) ** 0.5 is a positive number rn with rn^4 = |a3vect|^2 (parameter of gen_pos_to_a12); the NaN that '
    'psi replaces by 0 arises exactly when the integer factor under np.abs in the logarithm vanishes (0 * log 0; dx > 0 by the x setter)',
    'refusal model (xSetter?, dSetter?, Obj.solve?): np.allclose / comparisons are evaluated exactly on the given numbers; the '
    'correspondence generates refused / accepted inputs a decade or more away from each tolerance',
]
TRUSTED = ['numpy / scipy (Rbf, linalg.solve, linalg.inv) in the correspondence run', 'DataModelDict json/xml (de)serialisation',
           'fractions.Fraction and math.log/atan/sqrt in the search oracle']


# ----------------------------------------------------------------------------------------
# translator (checked source tie): numpy array expressions of SDVPN.py / GammaSurface.py -> Lean definitions
# ----------------------------------------------------------------------------------------
# The energy-term methods are straight-line numpy: slices, elementwise arithmetic, np.inner / .dot / np.sum, two
# accumulator loops.  Each is read with `ast` from /repo's CURRENT source and written as a Lean definition over lists
# (lean/Atomman/Generated/PNEnergy.lean); Proofs/C18_Gen.lean proves every generated definition equal to the hand model
# (`gen_…_eq_model`), so the clause theorems are theorems about what the source says now.  Anything outside the subset
# below raises TranslationError.
#
# types: C constant (Fraction) | K scalar | I index (Nat) | Z integer (Int) | B bool | V 3-vector | M 3x3 | LK list of
# scalars | LV list of 3-vectors | LVT transposed LV (only `/ LK` and `.T`) | FK scalar as a function of the bound index
# of an `np.arange` vector | IX that arange vector itself
GENERATED = ['PNEnergy']
_COMP = {0: 'x', 1: 'y', 2: 'z'}


def _TE(msg, node=None):
    from ..translate import TranslationError
    import ast
    return TranslationError(msg + (': ' + ast.unparse(node)[:120] if node is not None else ''))


class _Np:
    def __init__(self, env, selfmap=None, funcs=None):
        self.env = dict(env)            # python name -> (lean, type)
        self.selfmap = selfmap or {}    # self.<attr> -> (lean, type)
        self.funcs = funcs or {}        # callable name -> handler(self, node) -> (lean, type)
        self.ix = None                  # (python name of the arange vector, lean bound variable, lean length)

    # ---- coercions
    def k(self, t):
        s, ty = t
        from ..translate import lit
        if ty == 'C':
            return lit(s)
        if ty == 'K':
            return s
        if ty == 'I':
            return f'((({s}) : Nat) : K)'
        if ty == 'Z':
            return f'((({s}) : Int) : K)'
        raise _TE(f'not a scalar ({ty}): {s}')

    def nat(self, t):
        s, ty = t
        if ty == 'C' and s.denominator == 1 and s >= 0:
            return str(int(s))
        if ty == 'I':
            return s
        raise _TE(f'not a non-negative index ({ty}): {s}')

    def int_(self, t):
        s, ty = t
        if ty == 'C' and s.denominator == 1:
            return f'({int(s)} : Int)'
        if ty == 'I':
            return f'(({s} : Nat) : Int)'
        if ty == 'Z':
            return s
        raise _TE(f'not an integer ({ty}): {s}')

    def fk(self, t):
        """scalar-valued function of the bound index: FK as is, LK by position, scalars constant."""
        s, ty = t
        if ty == 'FK':
            return s
        if ty == 'LK':
            return f'(({s}).getD {self.ix[1]} 0)'
        return self.k(t)

    # ---- expressions
    def tr(self, n):
        import ast
        if isinstance(n, ast.Constant) and isinstance(n.value, (int, float)) and not isinstance(n.value, bool):
            return Fraction(n.value), 'C'
        if isinstance(n, ast.Name):
            if self.ix is not None and n.id == self.ix[0]:
                return self.ix[1], 'IX'
            if n.id not in self.env:
                raise _TE('unknown name', n)
            return self.env[n.id]
        if isinstance(n, ast.Attribute):
            if ast.unparse(n).startswith('self.') and ast.unparse(n)[5:] in self.selfmap:
                return self.selfmap[ast.unparse(n)[5:]]
            if isinstance(n.value, ast.Name) and n.value.id == 'self':
                if n.attr not in self.selfmap:
                    raise _TE('unknown attribute of self', n)
                return self.selfmap[n.attr]
            if isinstance(n.value, ast.Name) and n.value.id == 'np' and n.attr == 'pi':
                return 'pi', 'K'
            if n.attr == 'T':
                s, ty = self.tr(n.value)
                if ty == 'LV':
                    return s, 'LVT'
                if ty == 'LVT':
                    return s, 'LV'
                if ty == 'M':
                    return f'(M3.transpose {s})', 'M'
            raise _TE('unsupported attribute', n)
        if isinstance(n, ast.UnaryOp) and isinstance(n.op, ast.USub):
            s, ty = self.tr(n.operand)
            if ty == 'C':
                return -s, 'C'
            if ty in ('K', 'V'):
                return f'(-{s})', ty
            if ty == 'M':
                return f'(negM {s})', 'M'
            if ty in ('Z', 'I'):
                return f'(-{self.int_((s, ty))})', 'Z'
            raise _TE('unsupported negation', n)
        if isinstance(n, ast.BinOp):
            return self.binop(n)
        if isinstance(n, ast.Subscript):
            return self.subscript(n)
        if isinstance(n, ast.Call):
            return self.call(n)
        raise _TE('unsupported expression', n)

    def binop(self, n):
        import ast
        op = n.op
        if isinstance(op, ast.Pow):
            a = self.tr(n.left)
            if not (isinstance(n.right, ast.Constant) and n.right.value == 2 and isinstance(n.right.value, int)):
                raise _TE('only ** 2 is supported', n)
            s, ty = a
            if ty in ('K', 'Z', 'I'):
                return f'({s} * {s})', ty
            if ty == 'LK':
                return f'(({s}).map (fun t => t * t))', 'LK'
            if ty == 'LV':
                return f'(({s}).map (fun v => npMulV v v))', 'LV'
            raise _TE('unsupported square', n)
        a, b = self.tr(n.left), self.tr(n.right)
        ta, tb = a[1], b[1]
        sym = {ast.Add: '+', ast.Sub: '-', ast.Mult: '*', ast.Div: '/'}.get(type(op))
        if sym is None:
            raise _TE('unsupported operator', n)
        if ta == 'C' and tb == 'C':
            if sym == '/' and b[0] == 0:
                raise _TE('division by the constant 0', n)
            return {'+': a[0] + b[0], '-': a[0] - b[0], '*': a[0] * b[0], '/': a[0] / b[0] if sym == '/' else None}[sym], 'C'
        ints = ('I', 'Z', 'C')
        if ta in ints and tb in ints and sym != '/' and (ta != 'C' or a[0].denominator == 1) and (tb != 'C' or b[0].denominator == 1):
            if sym in '+*' and ta in ('I', 'C') and tb in ('I', 'C') and (ta != 'C' or a[0] >= 0) and (tb != 'C' or b[0] >= 0):
                return f'({self.nat(a)} {sym} {self.nat(b)})', 'I'
            return f'({self.int_(a)} {sym} {self.int_(b)})', 'Z'
        scal = ('K', 'I', 'Z', 'C')
        if ta in scal and tb in scal:
            return f'({self.k(a)} {sym} {self.k(b)})', 'K'
        if 'FK' in (ta, tb) or 'IX' in (ta, tb):
            if ta == 'IX' or tb == 'IX':
                raise _TE('arithmetic on the index vector outside a call', n)
            return f'({self.fk(a)} {sym} {self.fk(b)})', 'FK'
        if ta == 'LK' and tb == 'LK':
            return f'(List.zipWith (fun p q => p {sym} q) {a[0]} {b[0]})', 'LK'
        if ta == 'LK' and tb in scal:
            return f'(({a[0]}).map (fun t => t {sym} {self.k(b)}))', 'LK'
        if ta in scal and tb == 'LK':
            return f'(({b[0]}).map (fun t => {self.k(a)} {sym} t))', 'LK'
        if ta == 'LV' and tb == 'LV' and sym in '+-*':
            f = {'+': 'fun p q => p + q', '-': 'fun p q => p - q', '*': 'npMulV'}[sym]
            return f'(List.zipWith ({f}) {a[0]} {b[0]})', 'LV'
        if ta == 'LV' and tb in scal and sym in '*/':
            return f'(({a[0]}).map (fun v => v.map (fun t => t {sym} {self.k(b)})))', 'LV'
        if ta in scal and tb == 'LV' and sym == '*':
            return f'(({b[0]}).map (fun v => V3.smul {self.k(a)} v))', 'LV'
        if ta == 'LVT' and tb == 'LK' and sym == '/':
            return f'(npRowDiv {a[0]} {b[0]})', 'LVT'
        if ta == 'LV' and tb == 'V' and sym in '+-':
            return f'(({a[0]}).map (fun v => v {sym} {b[0]}))', 'LV'
        if ta == 'V' and tb == 'V' and sym in '+-':
            return f'({a[0]} {sym} {b[0]})', 'V'
        if ta == 'V' and tb in scal and sym in '*/':
            return f'(({a[0]}).map (fun t => t {sym} {self.k(b)}))', 'V'
        if ta in scal and tb == 'V' and sym == '*':
            return f'(V3.smul {self.k(a)} {b[0]})', 'V'
        raise _TE(f'operands {ta} {sym} {tb} not supported', n)

    def bound(self, node):
        """slice bound -> ('lo', nat) | ('end', nat from the end) | None."""
        import ast
        if node is None:
            return None
        if isinstance(node, ast.UnaryOp) and isinstance(node.op, ast.USub):
            return 'end', self.nat(self.tr(node.operand))
        if isinstance(node, ast.BinOp) and isinstance(node.op, ast.Mult) and isinstance(node.left, ast.UnaryOp) \
                and isinstance(node.left.op, ast.USub):
            # `-2 * m` parses as `(-2) * m`
            return 'end', self.nat(self.tr(ast.BinOp(left=node.left.operand, op=ast.Mult(), right=node.right)))
        t = self.tr(node)
        if t[1] == 'C' and t[0] < 0:
            return 'end', self.nat((-t[0], 'C'))
        return 'lo', self.nat(t)

    def slice_(self, s, sl):
        if sl.step is not None:
            raise _TE('slice step', sl)
        lo, hi = self.bound(sl.lower), self.bound(sl.upper)
        if lo is not None and lo[0] != 'lo':
            raise _TE('negative lower slice bound', sl)
        out = s
        if hi is not None:
            out = f'(({out}).take ({hi[1]}))' if hi[0] == 'lo' else f'(({out}).take (({s}).length - ({hi[1]})))'
        if lo is not None:
            out = f'(({out}).drop ({lo[1]}))'
        return out

    def subscript(self, n):
        import ast
        s, ty = self.tr(n.value)
        sl = n.slice
        if isinstance(sl, ast.Slice):
            if ty not in ('LK', 'LV'):
                raise _TE('slice of a non-list', n)
            return self.slice_(s, sl), ty
        if isinstance(sl, ast.Tuple) and len(sl.elts) == 2:
            r, c = sl.elts
            full = lambda e: isinstance(e, ast.Slice) and e.lower is None and e.upper is None and e.step is None  # noqa
            if ty == 'LV' and isinstance(r, ast.Slice) and isinstance(c, ast.Constant) and c.value in _COMP:
                rows = s if full(r) else self.slice_(s, r)
                return f'(({rows}).map (fun v => v.{_COMP[c.value]}))', 'LK'
            if ty == 'M' and isinstance(r, ast.Constant) and r.value in _COMP and full(c):
                return f'({s}).r{r.value}', 'V'
            raise _TE('unsupported 2-d subscript', n)
        if isinstance(sl, ast.Constant) and isinstance(sl.value, int):
            if ty == 'LK' and sl.value >= 0:
                return f'(({s}).getD {sl.value} 0)', 'K'
            if ty == 'LV' and sl.value == 0:
                return f'(({s}).headD v3zero)', 'V'
            raise _TE('unsupported constant subscript', n)
        if isinstance(sl, ast.UnaryOp) and isinstance(sl.op, ast.USub) and isinstance(sl.operand, ast.Constant) and sl.operand.value == 1 \
                and ty == 'LV':
            return f'(({s}).getLastD v3zero)', 'V'
        t = self.tr(sl)
        if ty == 'LV' and t[1] == 'I':
            return f'(({s}).getD {t[0]} v3zero)', 'V'
        raise _TE('unsupported subscript', n)

    def call(self, n):
        import ast
        f = n.func
        name = ast.unparse(f)
        if name in self.funcs:
            return self.funcs[name](self, n)
        args = n.args
        if isinstance(f, ast.Attribute) and f.attr == 'copy' and not args and not n.keywords:
            return self.tr(f.value)
        if (isinstance(f, ast.Attribute) and f.attr == 'sum' and not args and name != 'np.sum') or (name == 'np.sum' and len(args) == 1):
            s, ty = self.tr(f.value if name != 'np.sum' else args[0])
            if n.keywords:
                raise _TE('sum with keywords', n)
            if ty == 'LK':
                return f'(lsum {s})', 'K'
            if ty == 'LV':
                return f'(npSumV {s})', 'K'
            if ty == 'FK':
                return f'(sumTo {self.ix[2]} (fun {self.ix[1]} => {s}))', 'K'
            raise _TE('sum of a non-array', n)
        if name == 'np.inner' and len(args) == 2 and not n.keywords:
            a, b = self.tr(args[0]), self.tr(args[1])
            tt = (a[1], b[1])
            if tt == ('V', 'V'):
                return f'(V3.dot {a[0]} {b[0]})', 'K'
            if tt == ('LV', 'V'):
                return f'(({a[0]}).map (fun r => V3.dot r {b[0]}))', 'LK'
            if tt == ('V', 'LV'):
                return f'(({b[0]}).map (fun r => V3.dot {a[0]} r))', 'LK'
            if tt == ('LV', 'M'):
                return f'(({a[0]}).map (fun r => M3.mulVec {b[0]} r))', 'LV'
            raise _TE(f'np.inner of {tt}', n)
        if (name == 'np.dot' and len(args) == 2) or (isinstance(f, ast.Attribute) and f.attr == 'dot' and len(args) == 1 and name != 'np.dot'):
            if n.keywords:
                raise _TE('dot with keywords', n)
            a, b = (self.tr(args[0]), self.tr(args[1])) if name == 'np.dot' else (self.tr(f.value), self.tr(args[0]))
            tt = (a[1], b[1])
            if tt == ('V', 'M'):
                return f'(M3.vecMul {a[0]} {b[0]})', 'V'
            if tt == ('M', 'V'):
                return f'(M3.mulVec {a[0]} {b[0]})', 'V'
            if tt == ('V', 'V'):
                return f'(V3.dot {a[0]} {b[0]})', 'K'
            if tt == ('LV', 'M'):
                return f'(({a[0]}).map (fun r => M3.vecMul r {b[0]}))', 'LV'
            if tt == ('M', 'M'):
                return f'(M3.mul {a[0]} {b[0]})', 'M'
            raise _TE(f'dot of {tt}', n)
        if name == 'np.matmul' and len(args) == 2:
            a, b = self.tr(args[0]), self.tr(args[1])
            if (a[1], b[1]) == ('M', 'M'):
                return f'(M3.mul {a[0]} {b[0]})', 'M'
            raise _TE('matmul', n)
        if name == 'np.outer' and len(args) == 2:
            a, b = self.tr(args[0]), self.tr(args[1])
            if a[1] == 'K' and b[1] == 'V':
                return f'(V3.smul {a[0]} {b[0]})', 'V'
            raise _TE('outer', n)
        if name == 'np.cross' and len(args) == 2:
            a, b = self.tr(args[0]), self.tr(args[1])
            if (a[1], b[1]) == ('V', 'V'):
                return f'(V3.cross {a[0]} {b[0]})', 'V'
            raise _TE('cross', n)
        if name == 'np.log' and len(args) == 1:
            return f'(lg {self.k(self.tr(args[0]))})', 'K'
        if name == 'np.abs' and len(args) == 1:
            s, ty = self.tr(args[0])
            if ty in ('Z', 'I'):
                return f'(({self.int_((s, ty))}).natAbs)', 'I'
            raise _TE('abs of a non-integer', n)
        if name == 'len' and len(args) == 1:
            s, ty = self.tr(args[0])
            if ty in ('LK', 'LV'):
                return f'(({s}).length)', 'I'
            raise _TE('len', n)
        if name == 'np.zeros' and len(args) == 1 and not n.keywords:
            return f'(List.replicate {self.nat(self.tr(args[0]))} (0 : K))', 'LK'
        if name == 'np.asarray' and len(args) == 1 and not n.keywords:
            return self.tr(args[0])
        if name == 'np.vstack' and len(args) == 1 and isinstance(args[0], ast.List) and len(args[0].elts) == 3:
            raise _TE('np.vstack must be followed by .T', n)
        raise _TE('unsupported call', n)


def _tr_vstackT(tr, n):
    """`np.vstack([a, b, c]).T` with three scalar lists -> list of 3-vectors."""
    import ast
    if isinstance(n, ast.Attribute) and n.attr == 'T' and isinstance(n.value, ast.Call) and ast.unparse(n.value.func) == 'np.vstack' \
            and len(n.value.args) == 1 and isinstance(n.value.args[0], ast.List) and len(n.value.args[0].elts) == 3:
        parts = [tr.tr(e) for e in n.value.args[0].elts]
        if all(p[1] == 'LK' for p in parts):
            return f'(npVstack3T {parts[0][0]} {parts[1][0]} {parts[2][0]})', 'LV'
    return None


_DEFAULT_BLOCK = ('if x is None:\n    x = self.x', 'if disregistry is None:\n    disregistry = self.disregistry')
_ASARRAY = ('x = np.asarray(x)', 'disregistry = np.asarray(disregistry)')
_LEANTY = {'K': 'K', 'B': 'Bool', 'V': 'V3 K', 'M': 'M3 K', 'LK': 'List K', 'LV': 'List (V3 K)', 'I': 'Nat', 'Z': 'Int'}
_CLS = ('[Add K] [Sub K] [Mul K] [Div K] [Neg K] [Zero K] [One K] [NatCast K] [IntCast K]\n'
        '    [LT K] [DecidableLT K] [LE K] [DecidableLE K]')


def _method(src, name, inside=None):
    from ..translate import get_function, strip_doc
    fn = get_function(src, name, inside)
    return fn, strip_doc(fn.body)


def _split_defaults(fn, body, asarray=True):
    """check the signature `(self, x=None, disregistry=None)` and the 'Default values are class properties' block;
    returns the rest of the body (local function definitions skipped over are returned separately)."""
    import ast
    a = fn.args
    names = [x.arg for x in a.args]
    if names[:3] != ['self', 'x', 'disregistry'] or a.vararg or a.kwarg or a.kwonlyargs \
            or [ast.unparse(d) for d in a.defaults[:2]] != ['None', 'None']:
        raise _TE(f'{fn.name}: signature is not (self, x=None, disregistry=None, ...)')
    local = [s for s in body if isinstance(s, ast.FunctionDef)]
    rest = [s for s in body if not isinstance(s, ast.FunctionDef)]
    want = list(_DEFAULT_BLOCK) + (list(_ASARRAY) if asarray else [])
    got = [ast.unparse(s) for s in rest[:len(want)]]
    if got != want:
        raise _TE(f'{fn.name}: default-argument block changed: {got}')
    return rest[len(want):], local


def _body_to_lean(tr, stmts, ret_type, special=None):
    """assignments / if-is-True-else / return -> Lean `let` chain."""
    import ast
    out = []
    for k, st in enumerate(stmts):
        if isinstance(st, ast.Assign) and len(st.targets) == 1 and isinstance(st.targets[0], ast.Name):
            t = (special(tr, st.value) if special else None) or tr.tr(st.value)
            nm = st.targets[0].id
            if t[1] == 'C':
                t = (tr.k(t), 'K')
            if t[1] in ('LVT', 'FK', 'IX', 'PAIR'):
                raise _TE('cannot bind a value of type ' + t[1], st)
            if t[1] in ('CUT', 'GAMMA'):
                tr.env[nm] = t          # an object, not a number: only its known uses are translated
                continue
            if t[0] != nm:
                out.append(f'let {nm} := {t[0]}')
            tr.env[nm] = (nm, t[1])
        elif isinstance(st, ast.AugAssign) and isinstance(st.target, ast.Name) and isinstance(st.op, (ast.Add, ast.Sub, ast.Mult, ast.Div)):
            # `name op= expr` is `name = name op expr`
            eq = ast.Assign(targets=[ast.Name(id=st.target.id, ctx=ast.Store())],
                            value=ast.BinOp(left=ast.Name(id=st.target.id, ctx=ast.Load()), op=st.op, right=st.value))
            return out + _body_to_lean(tr, [eq] + list(stmts[k + 1:]), ret_type, special)
        elif isinstance(st, ast.Return) and st.value is not None:
            if k != len(stmts) - 1:
                raise _TE('statement after return', st)
            t = (special(tr, st.value) if special else None) or tr.tr(st.value)
            if t[1] == 'C':
                t = (tr.k(t), 'K')
            if t[1] != ret_type:
                raise _TE(f'result has type {t[1]}, expected {ret_type}', st)
            out.append(t[0])
            return out
        elif isinstance(st, ast.If):
            # `if flag is True: A  else: B` / `if flag is False: A elif flag is True: B else: raise`
            def flag_test(test):
                if isinstance(test, ast.Compare) and len(test.ops) == 1 and isinstance(test.ops[0], ast.Is) \
                        and isinstance(test.comparators[0], ast.Constant) and isinstance(test.comparators[0].value, bool):
                    s, ty = tr.tr(test.left)
                    if ty == 'B':
                        return s, test.comparators[0].value
                raise _TE('unsupported branch condition', test)
            flag, val = flag_test(st.test)
            rest = stmts[k + 1:]
            orelse = st.orelse
            if len(orelse) == 1 and isinstance(orelse[0], ast.If):
                flag2, val2 = flag_test(orelse[0].test)
                if flag2 != flag or val2 == val or not (len(orelse[0].orelse) == 1 and isinstance(orelse[0].orelse[0], ast.Raise)):
                    raise _TE('unsupported elif chain', st)
                orelse = orelse[0].body
            env0 = dict(tr.env)
            a = _body_to_lean(tr, list(st.body) + rest, ret_type, special)
            tr.env = dict(env0)
            b = _body_to_lean(tr, list(orelse) + rest, ret_type, special)
            tr.env = env0
            ta, tb = ('\n    '.join(a), '\n    '.join(b))
            if not val:
                ta, tb = tb, ta
            out.append(f'if {flag} then\n    ({ta})\n  else\n    ({tb})')
            return out
        elif isinstance(st, ast.Expr) and isinstance(st.value, ast.Constant):
            continue
        else:
            raise _TE('unsupported statement', st)
    raise _TE('no return')


def _def(name, params, ret, lines, doc):
    ps = ' '.join(f'({p} : {t})' for p, t in params)
    body = '\n  '.join(lines)
    return f'/-- {doc} -/\ndef {name} {ps} : {ret} :=\n  {body}\n'


def _gen_sdvpn(src):
    import ast
    parts = []
    # --- disldensity(x, disregistry, cdiff) -> (newx, ρ)
    fn, body = _method(src, 'disldensity')
    if [a.arg for a in fn.args.args] != ['self', 'x', 'disregistry', 'cdiff'] or [ast.unparse(d) for d in fn.args.defaults] != ['None', 'None', 'False']:
        raise _TE('disldensity: signature changed')
    rest, _ = _split_defaults(fn, body)
    tr = _Np({'x': ('x', 'LK'), 'disregistry': ('disregistry', 'LV'), 'cdiff': ('cdiff', 'B')})
    if not (isinstance(rest[-1], ast.Return) and ast.unparse(rest[-1].value) == '(newx, ρ)'):
        raise _TE('disldensity: return changed', rest[-1])
    rest = rest[:-1] + [ast.parse('return _pair(newx, ρ)').body[0]]

    def pair(t, n):
        a, b = t.tr(n.args[0]), t.tr(n.args[1])
        if (a[1], b[1]) != ('LK', 'LV'):
            raise _TE('disldensity must return (list of scalars, list of vectors)', n)
        return f'({a[0]}, {b[0]})', 'PAIR'
    tr.funcs['_pair'] = pair
    parts.append(_def('gen_disldensity', [('cdiff', 'Bool'), ('x', 'List K'), ('disregistry', 'List (V3 K)')], 'List K × List (V3 K)',
                      _body_to_lean(tr, rest, 'PAIR'), 'SDVPN.disldensity: `(newx, ρ)`'))

    def dens(t, n):
        kw = {k.arg: k.value for k in n.keywords}
        if n.args or sorted(kw) != ['cdiff', 'disregistry', 'x']:
            raise _TE('call of self.disldensity changed', n)
        a, b, c = t.tr(kw['cdiff']), t.tr(kw['x']), t.tr(kw['disregistry'])
        if (a[1], b[1], c[1]) != ('B', 'LK', 'LV'):
            raise _TE('argument types of self.disldensity', n)
        return f'(gen_disldensity {a[0]} {b[0]} {c[0]})', 'PAIR'

    class T(_Np):
        def subscript(self, n):
            if isinstance(n.value, ast.Call) and ast.unparse(n.value.func) == 'self.disldensity' and isinstance(n.slice, ast.Constant) \
                    and n.slice.value == 1:
                return dens(self, n.value)[0] + '.2', 'LV'
            return super().subscript(n)

    base = {'x': ('x', 'LK'), 'disregistry': ('disregistry', 'LV')}
    # --- misfit_energy
    fn, body = _method(src, 'misfit_energy')
    rest, _ = _split_defaults(fn, body)
    tr = T(base, {'transform': ('transform', 'M'), 'gamma': ('gam', 'GAMMA')})
    tr.env['gamma'] = ('gam', 'GAMMA')

    def egsf(t, n):
        if n.args or [k.arg for k in n.keywords] != ['pos']:
            raise _TE('call of gamma.E_gsf changed', n)
        s, ty = t.tr(n.keywords[0].value)
        if ty != 'LV':
            raise _TE('gamma.E_gsf(pos=) of a non-list', n)
        return f'(({s}).map gam)', 'LK'
    tr.funcs['gamma.E_gsf'] = egsf
    rest = [s for s in rest if ast.unparse(s) != 'gamma = self.gamma']
    parts.append(_def('gen_misfit_energy', [('gam', 'V3 K → K'), ('transform', 'M3 K'), ('x', 'List K'), ('disregistry', 'List (V3 K)')], 'K',
                      _body_to_lean(tr, rest, 'K', special=_tr_vstackT), 'SDVPN.misfit_energy'))
    # --- elastic_energy: ψ, χ, the double sum
    fn, body = _method(src, 'elastic_energy')
    rest, local = _split_defaults(fn, body)
    loc = {f.name: f for f in local}
    if sorted(loc) != ['χ', 'ψ']:
        raise _TE('elastic_energy: local functions changed: ' + ', '.join(sorted(loc)))
    for f in local:
        if [a.arg for a in f.args.args] != ['i', 'j', 'Δx'] or f.args.defaults:
            raise _TE(f'elastic_energy.{f.name}: signature changed')
    from ..translate import strip_doc
    pb = strip_doc(loc['ψ'].body)
    if not (len(pb) == 3 and isinstance(pb[0], ast.With) and ast.unparse(pb[1]) == 'p[np.isnan(p)] = 0.0' and ast.unparse(pb[2]) == 'return p'):
        raise _TE('elastic_energy.ψ: structure changed (with-block, NaN replacement, return p)')
    wb = [s for s in pb[0].body if not (isinstance(s, ast.Expr) and isinstance(s.value, ast.Call))]
    if not (len(wb) == 1 and isinstance(wb[0], ast.Assign) and ast.unparse(wb[0].targets[0]) == 'p'):
        raise _TE('elastic_energy.ψ: formula statement changed')
    # NaN arises as 0 * log(0): the integer factor inside np.abs of the logarithm's argument vanishes
    logs = [c for c in ast.walk(wb[0].value) if isinstance(c, ast.Call) and ast.unparse(c.func) == 'np.log']
    absz = [c for lg_ in logs for c in ast.walk(lg_) if isinstance(c, ast.Call) and ast.unparse(c.func) == 'np.abs']
    if len(logs) != 1 or len(absz) != 1:
        raise _TE('elastic_energy.ψ: expected exactly one np.log(np.abs(…) …)')
    tp = _Np({'i': ('i', 'Z'), 'j': ('j', 'Z'), 'Δx': ('Δx', 'K')})
    zero_when = tp.tr(absz[0].args[0])
    if zero_when[1] != 'Z':
        raise _TE('elastic_energy.ψ: np.abs of a non-integer')
    pe = tp.tr(wb[0].value)
    parts.append(_def('gen_psi', [('lg', 'K → K'), ('i j', 'Int'), ('Δx', 'K')], 'K',
                      [f'if {zero_when[0]} = 0 then 0 else {tp.k(pe)}'],
                      'ψ of SDVPN.elastic_energy; the NaN of `0 * log 0` is replaced by 0 (`p[np.isnan(p)] = 0.0`)'))

    def psi_call(t, n):
        if len(n.args) != 3 or n.keywords:
            raise _TE('call of ψ changed', n)
        a = [t.tr(x) for x in n.args]
        return f'(gen_psi lg {t.int_(a[0])} {t.int_(a[1])} {t.k(a[2])})', 'K'
    tc = _Np({'i': ('i', 'Z'), 'j': ('j', 'Z'), 'Δx': ('Δx', 'K')}, funcs={'ψ': psi_call})
    parts.append(_def('gen_chi', [('lg', 'K → K'), ('i j', 'Int'), ('Δx', 'K')], 'K',
                      _body_to_lean(tc, strip_doc(loc['χ'].body), 'K'), 'χ of SDVPN.elastic_energy'))
    # main body: … ρ = …; j = np.arange(len(ρ), dtype=int); energy = 0.0; for i in j: energy += …; return energy
    tr = T(base, {'cdiffelastic': ('cdiff', 'B'), 'K_tensor': ('Kij', 'M')})
    k_j = [k for k, s in enumerate(rest) if ast.unparse(s).startswith('j = ')]
    if len(k_j) != 1 or ast.unparse(rest[k_j[0]]) != 'j = np.arange(len(ρ), dtype=int)':
        raise _TE('elastic_energy: index vector changed')
    pre, post = rest[:k_j[0]], rest[k_j[0] + 1:]
    if not (len(post) == 3 and ast.unparse(post[0]) == 'energy = 0.0' and isinstance(post[1], ast.For) and ast.unparse(post[2]) == 'return energy'):
        raise _TE('elastic_energy: accumulator loop changed')
    loop = post[1]
    if not (ast.unparse(loop.target) == 'i' and ast.unparse(loop.iter) == 'j' and not loop.orelse and len(loop.body) == 1
            and isinstance(loop.body[0], ast.AugAssign) and isinstance(loop.body[0].op, ast.Add) and ast.unparse(loop.body[0].target) == 'energy'):
        raise _TE('elastic_energy: loop body changed')
    lines = _body_to_lean(tr, pre + [ast.parse('return ρ').body[0]], 'LV')[:-1]
    tr.ix = ('j', 'j', '(ρ).length')
    tr.env['i'] = ('i', 'I')

    def chi_call(t, n):
        if len(n.args) != 3 or n.keywords:
            raise _TE('call of χ changed', n)
        a = [t.tr(x) for x in n.args]
        conv = lambda u: f'(({u[0]} : Nat) : Int)' if u[1] in ('I', 'IX') else t.int_(u)  # noqa
        ty = 'FK' if 'IX' in (a[0][1], a[1][1]) else 'K'
        return f'(gen_chi lg {conv(a[0])} {conv(a[1])} {t.k(a[2])})', ty
    tr.funcs['χ'] = chi_call
    term = tr.tr(loop.body[0].value)
    lines.append(f'sumTo (ρ).length (fun i => {tr.k(term)})')
    parts.append(_def('gen_elastic_energy', [('lg', 'K → K'), ('pi', 'K'), ('Kij', 'M3 K'), ('cdiff', 'Bool'), ('x', 'List K'),
                                             ('disregistry', 'List (V3 K)')], 'K', lines,
                      'SDVPN.elastic_energy: `energy = 0.0; for i in j: energy += …` as the sum over i'))
    # --- longrange_energy(self)
    fn, body = _method(src, 'longrange_energy')
    if [a.arg for a in fn.args.args] != ['self']:
        raise _TE('longrange_energy: signature changed')

    trl = _Np({}, {'K_tensor': ('Kij', 'M'), 'burgers': ('burgers', 'V'), 'cutofflongrange': ('L', 'CUT')})
    trl.funcs['np.log'] = lambda t, n: (('logL', 'K') if ast.unparse(n) == 'np.log(L)' and t.env.get('L', ('', ''))[1] == 'CUT'
                                        else (_ for _ in ()).throw(_TE('logarithm of something else than the cut-off', n)))
    parts.append(_def('gen_longrange_energy', [('pi', 'K'), ('logL', 'K'), ('Kij', 'M3 K'), ('burgers', 'V3 K')], 'K',
                      _body_to_lean(trl, body, 'K'), 'SDVPN.longrange_energy; `logL` stands for `np.log(self.cutofflongrange)`'))
    # --- stress_energy
    fn, body = _method(src, 'stress_energy')
    rest, _ = _split_defaults(fn, body)
    tr = T(base, {'tau': ('tau', 'M'), 'fullstress': ('fullstress', 'B'), 'cdiffstress': ('cdiffstress', 'B')})
    parts.append(_def('gen_stress_energy', [('fullstress', 'Bool'), ('cdiffstress', 'Bool'), ('tau', 'M3 K'), ('x', 'List K'),
                                            ('disregistry', 'List (V3 K)')], 'K', _body_to_lean(tr, rest, 'K'), 'SDVPN.stress_energy'))
    # --- surface_energy
    fn, body = _method(src, 'surface_energy')
    rest, _ = _split_defaults(fn, body)
    tr = T(base, {'beta': ('beta', 'M'), 'cdiffsurface': ('cdiffsurface', 'B')})
    parts.append(_def('gen_surface_energy', [('cdiffsurface', 'Bool'), ('beta', 'M3 K'), ('x', 'List K'), ('disregistry', 'List (V3 K)')], 'K',
                      _body_to_lean(tr, rest, 'K'), 'SDVPN.surface_energy'))
    # --- nonlocal_energy: energy = 0.0; for num, α in enumerate(αs): m = num + 1; …; energy += …; return energy
    fn, body = _method(src, 'nonlocal_energy')
    rest, _ = _split_defaults(fn, body)
    k_l = [k for k, s in enumerate(rest) if isinstance(s, ast.For)]
    if len(k_l) != 1 or ast.unparse(rest[k_l[0] + 1:][0] if rest[k_l[0] + 1:] else rest[0]) != 'return energy' or len(rest) != k_l[0] + 2:
        raise _TE('nonlocal_energy: loop / return changed')
    loop = rest[k_l[0]]
    pre = [s for s in rest[:k_l[0]]]
    if ast.unparse(pre[-1]) != 'energy = 0.0' or ast.unparse(loop.target) != '(num, α)' or ast.unparse(loop.iter) != 'enumerate(αs)' or loop.orelse:
        raise _TE('nonlocal_energy: accumulator loop changed')
    pre = [s for s in pre[:-1] if ast.unparse(s) != 'αs = self.alpha']
    if len(pre) != len(rest[:k_l[0]]) - 2:
        raise _TE('nonlocal_energy: αs = self.alpha missing')
    tr = T(base, {})
    pre_lines = _body_to_lean(tr, pre + [ast.parse('return Δx').body[0]], 'K')[:-1]
    tl = T({'δ': ('δ', 'LV'), 'Δx': ('Δx', 'K'), 'num': ('num', 'I'), 'α': ('α', 'K')}, {})
    lb = list(loop.body)
    if not (isinstance(lb[-1], ast.AugAssign) and isinstance(lb[-1].op, ast.Add) and ast.unparse(lb[-1].target) == 'energy'):
        raise _TE('nonlocal_energy: loop body changed')
    body_lines = _body_to_lean(tl, lb[:-1] + [ast.Return(value=lb[-1].value)], 'K')
    parts.append('/-- the loop of SDVPN.nonlocal_energy over `enumerate(αs)`: `num` counts from where the list starts. -/\n'
                 'def gen_nonlocal_loop (Δx : K) (δ : List (V3 K)) : Nat → List K → K\n  | _, [] => 0\n  | num, α :: rest =>\n    ('
                 + '\n     '.join(body_lines) + ')\n      + gen_nonlocal_loop Δx δ (num + 1) rest\n')
    parts.append(_def('gen_nonlocal_energy', [('αs', 'List K'), ('x', 'List K'), ('disregistry', 'List (V3 K)')], 'K',
                      pre_lines + ['(0 : K) + gen_nonlocal_loop Δx δ 0 αs'], 'SDVPN.nonlocal_energy'))
    # --- total_energy: the sum of the six method calls, in the order of the source
    fn, body = _method(src, 'total_energy')
    rest, _ = _split_defaults(fn, body, asarray=False)
    if len(rest) != 1 or not isinstance(rest[0], ast.Return):
        raise _TE('total_energy: body changed')
    calls = {'self.misfit_energy': 'gen_misfit_energy gam s.T x disregistry',
             'self.elastic_energy': 'gen_elastic_energy lg s.pi s.Kt s.cdiffelastic x disregistry',
             'self.longrange_energy': 'gen_longrange_energy s.pi s.logL s.Kt s.burgers',
             'self.stress_energy': 'gen_stress_energy s.fullstress s.cdiffstress tau x disregistry',
             'self.nonlocal_energy': 'gen_nonlocal_energy s.αs x disregistry',
             'self.surface_energy': 'gen_surface_energy s.cdiffsurface s.β x disregistry'}
    seen = []

    def tot(node):
        if isinstance(node, ast.BinOp) and isinstance(node.op, ast.Add):
            return f'({tot(node.left)} + {tot(node.right)})'
        if isinstance(node, ast.Call) and ast.unparse(node.func) in calls and not node.keywords:
            nm = ast.unparse(node.func)
            want = [] if nm == 'self.longrange_energy' else ['x', 'disregistry']
            if [ast.unparse(a) for a in node.args] != want:
                raise _TE('total_energy: arguments of a term changed', node)
            seen.append(nm)
            return '(' + calls[nm] + ')'
        raise _TE('total_energy: not a sum of the term methods', node)
    expr = tot(rest[0].value)
    if sorted(seen) != sorted(calls):
        raise _TE('total_energy: each of the six terms must occur exactly once: ' + ', '.join(seen))
    parts.append(_def('gen_total_energy', [('lg', 'K → K'), ('gam', 'V3 K → K'), ('s', 'Settings K'), ('tau', 'M3 K'), ('x', 'List K'),
                                           ('disregistry', 'List (V3 K)')], 'K', [expr],
                      'SDVPN.total_energy: the six term methods in the order of the source (`tau` is the full stress array, `s.τ1` its second row)'))
    parts.append('/-- order of the terms in the sum of `total_energy`. -/\ndef gen_total_order : List String :=\n  ['
                 + ', '.join('"' + s.split('.')[1] + '"' for s in seen) + ']\n')
    # --- the methods that start with the default-argument block (each argument on its own)
    blocks = []
    for nm in ['disldensity', 'misfit_energy', 'elastic_energy', 'stress_energy', 'surface_energy', 'nonlocal_energy', 'total_energy']:
        f2, b2 = _method(src, nm)
        _split_defaults(f2, b2, asarray=(nm != 'total_energy'))
        blocks.append(nm)
    parts.append('/-- the "Default values are class properties" block (`if x is None: x = self.x`, `if disregistry is None: disregistry = '
                 'self.disregistry`): read from each of the methods listed in `gen_default_block_methods`. -/\n'
                 'def gen_args (selfx : List K) (selfd : List (V3 K)) (x : Option (List K)) (disregistry : Option (List (V3 K))) :\n'
                 '    List K × List (V3 K) :=\n  let x := match x with | none => selfx | some v => v\n'
                 '  let disregistry := match disregistry with | none => selfd | some v => v\n  (x, disregistry)\n')
    parts.append('def gen_default_block_methods : List String :=\n  [' + ', '.join(f'"{b}"' for b in blocks) + ']\n')
    # --- constructor: the [m, n, ξ] frame, defaults of the flags; solve: the keyword block, decompose
    cls = [n for n in ast.walk(ast.parse(src)) if isinstance(n, ast.ClassDef) and n.name == 'SDVPN']
    if len(cls) != 1:
        raise _TE('class SDVPN not found')
    meths = {n.name: n for n in cls[0].body if isinstance(n, ast.FunctionDef) and not n.decorator_list}
    init = meths['__init__']
    names = [a.arg for a in init.args.args]
    defaults = dict(zip(names[len(names) - len(init.args.defaults):], init.args.defaults))
    flags = []
    for nm in ['fullstress', 'cdiffelastic', 'cdiffsurface', 'cdiffstress']:
        d = defaults.get(nm)
        if not (isinstance(d, ast.Constant) and isinstance(d.value, bool)):
            raise _TE(f'__init__: default of {nm} is not a bool literal')
        flags.append('true' if d.value else 'false')
    parts.append('/-- defaults of `fullstress, cdiffelastic, cdiffsurface, cdiffstress` in the signature of `SDVPN.__init__`. -/\n'
                 f'def gen_init_flags : Bool × Bool × Bool × Bool := ({", ".join(flags)})\n')
    frame = {}
    for st in ast.walk(init):
        if isinstance(st, ast.Assign) and len(st.targets) == 1 and isinstance(st.targets[0], ast.Name) \
                and st.targets[0].id in ('K_tensor', 'burgers', 'transform') and 'mnξ' in ast.unparse(st.value):
            frame[st.targets[0].id] = st.value
    if sorted(frame) != ['K_tensor', 'burgers', 'transform']:
        raise _TE('__init__: the three [m, n, ξ] frame assignments were not found')
    tf = _Np({'mnξ': ('mnξ', 'M'), 'K_tensor': ('K_tensor', 'M'), 'burgers': ('burgers', 'V'), 'transform': ('transform', 'M')})
    for nm, ret, lty in (('K_tensor', 'M', 'M3 K'), ('burgers', 'V', 'V3 K'), ('transform', 'M', 'M3 K')):
        t = tf.tr(frame[nm])
        if t[1] != ret:
            raise _TE(f'__init__: frame expression for {nm} has type {t[1]}')
        parts.append(_def(f'gen_frame_{nm}', [('mnξ', 'M3 K'), (nm, lty)], lty, [t[0]], f'SDVPN.__init__: `{nm} = {ast.unparse(frame[nm])}`'))
    solve = meths['solve']
    kws = []
    for st in strip_doc(solve.body):
        if isinstance(st, ast.If) and isinstance(st.test, ast.Compare) and isinstance(st.test.ops[0], ast.IsNot) \
                and ast.unparse(st.test.comparators[0]) == 'None' and isinstance(st.test.left, ast.Name):
            nm = st.test.left.id
            if ast.unparse(st.body[0]) != f'self.{nm} = {nm}' or len(st.body) != 1 or st.orelse:
                raise _TE('solve: keyword block changed', st)
            kws.append(nm)
        else:
            break
    sig = [a.arg for a in solve.args.args][1:]
    if sorted(sig) != sorted(kws) or any(ast.unparse(d) != 'None' for d in solve.args.defaults) or len(solve.args.defaults) != len(sig):
        raise _TE(f'solve: signature {sig} and keyword block {kws} differ / defaults not None')
    parts.append('/-- `solve(**kwargs)`: keywords of the signature = the "change attribute values if given" block (`if kw is not None: '
                 'self.kw = kw`), in order. -/\ndef gen_solve_keywords : List String :=\n  [' + ', '.join(f'"{k}"' for k in kws) + ']\n')
    loc = {n.name: n for n in solve.body if isinstance(n, ast.FunctionDef)}
    dec = strip_doc(loc['decompose'].body)
    td = _Np({'d': ('d', 'LV')})

    def conc(t, n):
        if len(n.args) == 1 and isinstance(n.args[0], ast.List) and not n.keywords:
            ps = [t.tr(e) for e in n.args[0].elts]
            if all(p[1] == 'LK' for p in ps):
                return '(' + ' ++ '.join(p[0] for p in ps) + ')', 'LK'
        raise _TE('np.concatenate', n)
    td.funcs['np.concatenate'] = conc
    if [ast.unparse(s) for s in dec[1:]] != ['first = d[0]', 'last = d[-1]', 'return (d13, first, last)'] or [a.arg for a in loc['decompose'].args.args] != ['d']:
        raise _TE('solve.decompose: structure changed')
    t13 = td.tr(dec[0].value)
    parts.append(_def('gen_decompose', [('d', 'List (V3 K)')], 'List K × V3 K × V3 K',
                      [f'({t13[0]}, {td.tr(dec[1].value)[0]}, {td.tr(dec[2].value)[0]})'], 'solve.decompose: `(d13, first, last)`'))
    # recompose: array built by slice assignment -> statement pin (normalised AST)
    rec = [ast.unparse(s) for s in strip_doc(loc['recompose'].body)]
    want = ['half = int(len(d13) / 2)', 'd = np.zeros((half + 2, 3))', 'd[0] = first', 'd[-1] = last', 'd[1:-1, 0] = d13[:half]',
            'd[1:-1, 2] = d13[half:]', 'return d']
    if rec != want or [a.arg for a in loc['recompose'].args.args] != ['d13', 'first', 'last']:
        raise _TE('solve.recompose: statements changed: ' + ' | '.join(rec))
    tail = [ast.unparse(s) for s in solve.body[-4:]]
    want_tail = ['d13, first, last = decompose(self.disregistry)',
                 'res = minimize(min_func, d13, args=(first, last), method=self.min_method, options=self.min_options, **self.min_kwargs)',
                 'self.disregistry = recompose(res.x, first, last)', 'self.__res = res']
    if tail != want_tail:
        raise _TE('solve: the minimise / recompose tail changed: ' + ' | '.join(tail))
    mf = [ast.unparse(s) for s in strip_doc(loc['min_func'].body)]
    if mf != ['disregistry = recompose(d13, first, last)', 'return self.total_energy(disregistry=disregistry)']:
        raise _TE('solve.min_func changed: ' + ' | '.join(mf))
    parts.append('/-- statement pin (normalised AST, compared literally by the translator): `solve.recompose`, `solve.min_func` and the\n'
                 '    `decompose → minimize → recompose` tail of `solve` are the statements the hand model `recompose` / `solveResult` was written from. -/\n'
                 f'def gen_recompose_pin : List String :=\n  [' + ', '.join('"' + s.replace('"', "'") + '"' for s in want) + ']\n')
    return parts



def _gen_gamma(gsrc):
    """wrap_cushion / wrap_unit (pointwise: one element of the array), a12_to_pos, the linear solve of pos_to_a12."""
    import ast
    from ..translate import get_function, strip_doc, lit
    parts = []

    def pointwise(fname, params, doc):
        fn = get_function(gsrc, fname)
        if [a.arg for a in fn.args.args] != [p for p, _ in params]:
            raise _TE(f'{fname}: signature changed')
        tr = _Np({p: (p, t) for p, t in params})

        def rounding(which):
            def h(t, n):
                if len(n.args) != 1 or n.keywords:
                    raise _TE('rounding call', n)
                return f'((({which} {t.k(t.tr(n.args[0]))}) : Int) : K)', 'K'
            return h
        tr.funcs['np.floor'] = rounding('fl')
        tr.funcs['np.ceil'] = rounding('cl')

        def mask(node):
            if isinstance(node, ast.Name) and tr.env.get(node.id, ('', ''))[1] == 'B':
                return tr.env[node.id][0]
            if isinstance(node, ast.Compare) and len(node.ops) == 1:
                l, r = tr.k(tr.tr(node.left)), tr.k(tr.tr(node.comparators[0]))
                o = node.ops[0]
                if isinstance(o, ast.Lt):
                    return f'decide ({l} < {r})'
                if isinstance(o, ast.Gt):
                    return f'decide ({r} < {l})'
                if isinstance(o, ast.LtE):
                    return f'decide ({l} ≤ {r})'
                if isinstance(o, ast.GtE):
                    return f'decide ({r} ≤ {l})'
            raise _TE(f'{fname}: unsupported mask', node)

        lines = []
        cur = [None]
        orig_subscript = tr.subscript

        def subscript(n):
            if isinstance(n.value, ast.Name) and n.value.id == 'a' and cur[0] is not None and ast.unparse(n.slice) == cur[0]:
                return tr.env['a']
            return orig_subscript(n)
        tr.subscript = subscript
        for st in strip_doc(fn.body):
            if isinstance(st, ast.AugAssign) and isinstance(st.op, (ast.Add, ast.Sub)):
                sym = '+' if isinstance(st.op, ast.Add) else '-'
                if isinstance(st.target, ast.Name) and st.target.id == 'a':
                    lines.append(f'let a := a {sym} {tr.k(tr.tr(st.value))}')
                elif isinstance(st.target, ast.Subscript) and isinstance(st.target.value, ast.Name) and st.target.value.id == 'a':
                    m = mask(st.target.slice)
                    cur[0] = ast.unparse(st.target.slice)
                    v = tr.k(tr.tr(st.value))
                    cur[0] = None
                    lines.append(f'let a := if {m} then a {sym} {v} else a')
                else:
                    raise _TE(f'{fname}: unsupported update', st)
            elif isinstance(st, ast.Assign) and len(st.targets) == 1 and isinstance(st.targets[0], ast.Name) and isinstance(st.value, ast.Compare):
                nm = st.targets[0].id
                lines.append(f'let {nm} := {mask(st.value)}')
                tr.env[nm] = (nm, 'B')
            else:
                raise _TE(f'{fname}: unsupported statement', st)
        lines.append('a')
        return lines

    parts.append(_def('gen_wrap_cushion', [('fl', 'K → Int'), ('a', 'K'), ('cushion', 'K')], 'K',
                      pointwise('wrap_cushion', [('a', 'K'), ('cushion', 'K')], ''),
                      'GammaSurface.wrap_cushion on ONE element of the array (the in-place updates as successive values of `a`)'))
    parts.append(_def('gen_wrap_unit', [('fl cl', 'K → Int'), ('a', 'K')], 'K', pointwise('wrap_unit', [('a', 'K')], ''),
                      'GammaSurface.wrap_unit on ONE element of the array'))
    # ---- a12_to_pos / pos_to_a12: default block for the shift vectors, Cartesian vectors, the formula
    want = ['if a1vect is None:\n    a1vect = self.a1vect', 'a1vect = np.asarray(a1vect)', 'if a2vect is None:\n    a2vect = self.a2vect',
            'a2vect = np.asarray(a2vect)']
    for fname in ('a12_to_pos', 'pos_to_a12'):
        fn = get_function(gsrc, fname)
        body = strip_doc(fn.body)
        if [ast.unparse(s) for s in body[:4]] != want:
            raise _TE(f'{fname}: default block of the shift vectors changed')
        sel = {'box.vects': ('vects', 'M')}
        if fname == 'a12_to_pos':
            if [a.arg for a in fn.args.args] != ['self', 'a1', 'a2', 'a1vect', 'a2vect']:
                raise _TE('a12_to_pos: signature changed')
            tr = _Np({'a1': ('a1', 'K'), 'a2': ('a2', 'K'), 'a1vect': ('a1vect', 'V'), 'a2vect': ('a2vect', 'V')}, sel)
            parts.append(_def('gen_a12_to_pos', [('vects', 'M3 K'), ('a1vect a2vect', 'V3 K'), ('a1 a2', 'K')], 'V3 K',
                              _body_to_lean(tr, body[4:], 'V'), 'GammaSurface.a12_to_pos for one position (`a1vect`, `a2vect`: the given or the own crystal vectors)'))
        else:
            if [a.arg for a in fn.args.args] != ['self', 'pos', 'a1vect', 'a2vect']:
                raise _TE('pos_to_a12: signature changed')
            rest = [ast.unparse(s) for s in body[4:]]
            k = rest.index('coeffs = np.array([a1vect, a2vect, a3vect]).T') if 'coeffs = np.array([a1vect, a2vect, a3vect]).T' in rest else -1
            want_tail = ['coeffs = np.array([a1vect, a2vect, a3vect]).T', 'a123 = np.linalg.solve(coeffs, np.asarray(pos).T).T',
                         'tol = 1e-06 * np.maximum(1.0, np.abs(a123[..., :2]).max(axis=-1))',
                         'assert np.all(np.abs(a123[..., 2]) <= tol), np.abs(a123[..., 2]).max()', 'return (a123[..., 0], a123[..., 1])']
            if k < 0 or rest[k:] != want_tail:
                raise _TE('pos_to_a12: solve / tolerance / assertion statements changed: ' + ' | '.join(rest[-5:]))
            tr = _Np({'pos': ('pos', 'V'), 'a1vect': ('a1vect', 'V'), 'a2vect': ('a2vect', 'V')}, sel)

            def special(t, node):
                if ast.unparse(node) == 'a3vect / np.linalg.norm(a3vect) ** 0.5':
                    return f'(({t.env["a3vect"][0]}).map (fun t => t / rn))', 'V'
                return None
            lines = _body_to_lean(tr, body[4:4 + k] + [ast.parse('return a3vect').body[0]], 'V', special=special)[:-1]
            lines += ['let coeffs := M3.transpose ⟨a1vect, a2vect, a3vect⟩', 'let a123 := M3.mulVec (M3.inv coeffs) pos',
                      f'let tol := {lit(Fraction("1e-06"))} * maxK 1 (maxK (absK a123.x) (absK a123.y))',
                      'if absK a123.z ≤ tol then some (a123.x, a123.y) else none']
            parts.append(_def('gen_pos_to_a12', [('rn', 'K'), ('vects', 'M3 K'), ('a1vect a2vect', 'V3 K'), ('pos', 'V3 K')], 'Option (K × K)', lines,
                              'GammaSurface.pos_to_a12 for one position; `rn` stands for `np.linalg.norm(a3vect) ** 0.5`, '
                              '`np.linalg.solve` is the exact solve, `none` the AssertionError'))
    return parts



def _gen_arctan():
    """the profile formulas of pn_arctan_disregistry / pn_arctan_disldensity (the statements after the grid / default-Burgers part);
    `np.arctan` -> `atan`, `np.pi` -> `pi`, the three `np.linalg.norm` values are parameters."""
    import ast
    from ..translate import get_function, strip_doc
    parts = []
    norms = {'burgers': 'normB', 'disregistry[-1]': 'normLast', 'intdisldensity': 'normInt'}

    def norm(t, n):
        a = ast.unparse(n.args[0]) if len(n.args) == 1 and not n.keywords else None
        if a not in norms:
            raise _TE('norm of an unexpected quantity', n)
        return norms[a], 'K'

    def arctan(t, n):
        s, ty = t.tr(n.args[0])
        if len(n.args) != 1 or ty != 'LK':
            raise _TE('np.arctan of a non-list', n)
        return f'(({s}).map atan)', 'LK'

    def outer(t, n):
        a, b = t.tr(n.args[0]), t.tr(n.args[1])
        if (a[1], b[1]) != ('LK', 'V'):
            raise _TE('np.outer', n)
        return f'(({a[0]}).map (fun t => V3.smul t {b[0]}))', 'LV'
    for fname, sig, flags, params, ret in (
            ('pn_arctan_disregistry', ['x', 'xmax', 'xstep', 'xnum', 'burgers', 'center', 'halfwidth', 'normalize', 'shift'],
             {'normalize': 'True', 'shift': 'True'},
             [('atan', 'K → K'), ('pi', 'K'), ('x', 'List K'), ('burgers', 'V3 K'), ('center halfwidth', 'K'), ('normalize shift', 'Bool'),
              ('normB normLast', 'K')], 'disregistry'),
            ('pn_arctan_disldensity', ['x', 'xmax', 'xstep', 'xnum', 'burgers', 'center', 'halfwidth', 'normalize'], {'normalize': 'True'},
             [('pi', 'K'), ('x', 'List K'), ('burgers', 'V3 K'), ('center halfwidth', 'K'), ('normalize', 'Bool'), ('normB normInt', 'K')],
             'disldensity')):
        src = cm.source(f'atomman/defect/{fname}.py')
        fn = get_function(src, fname)
        if [a.arg for a in fn.args.args] != sig:
            raise _TE(f'{fname}: signature changed')
        dflt = dict(zip(sig[len(sig) - len(fn.args.defaults):], [ast.unparse(d) for d in fn.args.defaults]))
        if any(dflt.get(k) != v for k, v in flags.items()) or dflt.get('center') != '0.0' or dflt.get('halfwidth') != '1':
            raise _TE(f'{fname}: defaults changed: {dflt}')
        body = strip_doc(fn.body)
        k0 = [k for k, s in enumerate(body) if ast.unparse(s) == 'burgers = np.asarray(burgers)']
        if len(k0) != 1 or ast.unparse(body[k0[0] - 1]) != 'if burgers is None:\n    burgers = np.array([1.0, 0.0, 0.0])':
            raise _TE(f'{fname}: default Burgers vector block changed')
        rest = body[k0[0] + 1:]
        if ast.unparse(rest[-1]) != f'return (x, {ret})':
            raise _TE(f'{fname}: return changed', rest[-1])
        rest = rest[:-1] + [ast.parse(f'return {ret}').body[0]]
        if fname == 'pn_arctan_disldensity':
            # the un-normalised disregistry is computed by the sibling function; only its end-to-end norm is used
            blk = [s for s in rest if isinstance(s, ast.If)]
            want = ['disregistry = pn_arctan_disregistry(x=x, burgers=burgers, center=center, halfwidth=halfwidth, normalize=False)[1]',
                    'intdisldensity = disregistry[-1] - disregistry[0]']
            if len(blk) != 1 or [ast.unparse(s) for s in blk[0].body[:2]] != want or len(blk[0].body) != 3:
                raise _TE('pn_arctan_disldensity: normalisation block changed')
            blk[0].body = blk[0].body[2:]
        tr = _Np({'x': ('x', 'LK'), 'burgers': ('burgers', 'V'), 'center': ('center', 'K'), 'halfwidth': ('halfwidth', 'K'),
                  'normalize': ('normalize', 'B'), 'shift': ('shift', 'B')},
                 funcs={'np.linalg.norm': norm, 'np.arctan': arctan, 'np.outer': outer})
        parts.append(_def('gen_' + fname, params, 'List (V3 K)', _body_to_lean(tr, rest, 'LV'),
                          f'{fname}: the profile on a given grid `x` (`np.linalg.norm` values are parameters)'))
    return parts


def translate():
    src = cm.source('atomman/defect/SDVPN.py')
    gsrc = cm.source('atomman/defect/GammaSurface.py')
    parts = ['/- GENERATED by harness/props/c18.py from atomman/defect/SDVPN.py, GammaSurface.py, pn_arctan_*.py — do not edit. -/',
             'import Atomman.C18', '', 'namespace Atomman.C18.Gen', 'open Atomman Atomman.C18', '',
             'variable {K : Type} ' + _CLS, '']
    parts += _gen_sdvpn(src)
    parts += _gen_gamma(gsrc)
    parts += _gen_arctan()
    parts.append('end Atomman.C18.Gen\n')
    return {'PNEnergy': '\n'.join(parts)}


def _np():
    import numpy as np
    return np


F = Fraction


# ----------------------------------------------------------------------------------------
# generators
# ----------------------------------------------------------------------------------------
GRIDS_DYADIC = [(4, 4), (4, 8), (8, 4), (2, 8), (8, 8), (4, 16), (2, 2), (2, 4)]
GRIDS_GENERIC = [(3, 3), (3, 7), (5, 4), (6, 5), (5, 10), (3, 8), (7, 3), (10, 4), (6, 6), (4, 9), (9, 2), (2, 3), (3, 2)]
# strongly anisotropic grids (one spacing more than 4x the other): the blend strip of the coarse direction is wider
# than two cells of the fine one, so a cushion taken from the wrong direction sends sampled shifts outside the fit window
GRIDS_ANISO = {'dyadic': [(2, 16), (16, 2), (2, 32), (4, 32)], 'generic': [(2, 9), (3, 13), (13, 3), (11, 2), (2, 12), (3, 16)]}
VECTS = [
    # (a1vect, a2vect, box-vects or None, tag)
    ([1.0, 0.0, 0.0], [0.0, 1.0, 0.0], None, 'rect'),
    ([2.5, 0.0, 0.0], [0.0, 0.0, 4.0], None, 'rect-xz'),
    ([1.0, 0.0, 0.0], [0.5, 1.0, 0.0], None, 'oblique'),
    ([1.0, 0.25, -0.5], [-0.75, 1.5, 0.5], None, 'oblique3d'),
    ([1.0, 0.0, 0.0], [0.0, 1.0, 0.0], [[3.0, 0.0, 0.0], [1.0, 2.5, 0.0], [0.5, -0.75, 4.0]], 'tri-box'),
    ([1.0, 1.0, 0.0], [0.5, -1.0, 1.0], [[3.0, 0.0, 0.0], [-0.5, 4.0, 0.0], [1.0, 0.5, 5.0]], 'tri-box-oblique'),
    ([0.5, 0.0, -0.5], [0.5, -1.0, 0.5], [[4.0, 0.0, 0.0], [0.0, 4.0, 0.0], [0.0, 0.0, 4.0]], 'fcc111'),
    # cells whose vects matrix is NOT symmetric (row/column mix-ups of `a1vect . vects` show only here):
    # hexagonal (basal and prismatic shifts), monoclinic, a rotated (not LAMMPS-normalised) triclinic cell
    ([1.0, 0.0, 0.0], [0.0, 1.0, 0.0], [[3.0, 0.0, 0.0], [-1.5, 2.598076211353316, 0.0], [0.0, 0.0, 5.0]], 'hex-basal'),
    ([0.0, 1.0, 0.0], [0.0, 0.0, 1.0], [[3.0, 0.0, 0.0], [-1.5, 2.598076211353316, 0.0], [0.0, 0.0, 5.0]], 'hex-prism'),
    ([1.0, 0.0, 0.0], [0.0, 0.0, 1.0], [[3.0, 0.0, 0.0], [0.0, 4.0, 0.0], [-1.25, 0.0, 5.0]], 'mono'),
    ([1.0, 0.0, 1.0], [0.0, 1.0, -1.0], [[2.4, 1.8, 0.0], [-1.8, 2.4, 0.5], [0.25, -0.5, 4.0]], 'tri-rot'),
    # LEFT-handed cells (negative determinant: an axis-permuted orthorhombic cell, a mirrored triclinic one) and a cell
    # with a NON-ZERO origin (see ORIGINS): shift vectors are displacements, the origin must not enter anywhere
    ([1.0, 0.0, 0.0], [0.0, 1.0, 0.0], [[3.0, 0.0, 0.0], [0.0, 0.0, 5.0], [0.0, 4.0, 0.0]], 'lh-ortho'),
    ([1.0, 0.5, 0.0], [0.0, 1.0, 1.0], [[2.4, 1.8, 0.0], [-1.8, 2.4, 0.5], [-0.25, 0.5, -4.0]], 'lh-tri'),
    ([1.0, 0.0, 0.0], [0.5, 1.0, 0.0], [[3.0, 0.0, 0.0], [1.0, 2.5, 0.0], [0.5, -0.75, 4.0]], 'tri-origin'),
]
ORIGINS = {'tri-origin': [10.0, -20.0, 5.5]}


def mk_box(spec):
    """the atomman Box of a spec (None: no box given, Cartesian shift vectors)."""
    import atomman as am
    if spec['box'] is None:
        return None
    b = spec['box']
    org = spec.get('origin')
    return am.Box(avect=b[0], bvect=b[1], cvect=b[2], **({} if org is None else {'origin': org}))


class Raised:
    """an exception raised by the implementation: an OBSERVATION that is compared with the model's / the
    oracle's outcome and reported, never a crash of the harness."""

    def __init__(self, e):
        self.cls = ('err:assert' if isinstance(e, AssertionError) else 'err:value' if isinstance(e, ValueError)
                    else 'err:type' if isinstance(e, TypeError) else 'err:raised')
        self.text = f'{type(e).__name__}: {str(e)[:160]}'

    def __str__(self):
        return f'raised {self.text}'


def call(fn, *a, **kw):
    """call into atomman; an exception comes back as a `Raised` value."""
    try:
        return fn(*a, **kw)
    except cm.InfraError:
        raise
    except Exception as e:  # noqa
        return Raised(e)


def guarded(ctx, key, rep, fn, *a, **kw):
    """run one correspondence case; anything escaping it is reported as a disagreement of that case."""
    try:
        return fn(*a, **kw)
    except cm.InfraError:
        raise
    except Exception as e:  # noqa
        import traceback
        where = [l.strip() for l in traceback.format_exc().splitlines() if l.strip().startswith('File ')][-1:]
        ctx.disagree(key + ':raises', f'{key}: {type(e).__name__}: {str(e)[:200]} ({"; ".join(where)})', rep)
        return None


def gen_gamma_spec(rng, regime=None, vects=None, grid=None, dup=None, delta=None, sinus=None):
    """A gamma-surface data set.  regime 'dyadic': grid coordinates and energies exactly representable, so
    that wrap/blend decisions of the implementation are exact; 'generic': k/n floats."""
    if regime is None:
        regime = rng.choice(['dyadic', 'generic'])
    n1, n2 = grid if grid else rng.choice(GRIDS_DYADIC if regime == 'dyadic' else GRIDS_GENERIC)
    dup = rng.random() < 0.35 if dup is None else dup
    if dup is True:
        # how the a = 1 edge is duplicated: both directions | one direction only | both, with the edge coordinate a
        # hair below 1 (1 - 2^-40: what a rounded text file holds; np.isclose still takes it for the edge)
        dup = rng.choice([True, True, 'a1', 'a2', 'fuzzy'])
    edge = 1.0 - 2.0 ** -40 if dup == 'fuzzy' else 1.0
    u1 = [i / n1 for i in range(n1)] + ([edge] if dup in (True, 'a1', 'fuzzy') else [])
    u2 = [j / n2 for j in range(n2)] + ([edge] if dup in (True, 'a2', 'fuzzy') else [])
    a1vect, a2vect, box, tag = vects if vects else rng.choice(VECTS)
    ph = [rng.uniform(0, 1) for _ in range(4)]
    amp = [cm.dyadic(rng, 0.0, 2.0, 3) for _ in range(4)]
    noise = 0.0 if sinus else rng.choice([0.0, 0.0, 0.25])

    def e(p, q):
        p, q = p % 1.0, q % 1.0
        if sinus is not None:
            return sinus / 2 * (1 - math.cos(2 * math.pi * p))
        v = amp[0] * (1 - math.cos(2 * math.pi * (p + 0 * ph[0]))) + amp[1] * math.sin(math.pi * q) ** 2 \
            + amp[2] * math.cos(2 * math.pi * (p + q + ph[2])) + amp[3] * math.sin(2 * math.pi * (2 * p - q + ph[3]))
        return v
    a1, a2, E, D = [], [], [], []
    cache = {}
    for p in u1:
        for q in u2:
            key = (round(p % 1.0, 9) % 1.0, round(q % 1.0, 9) % 1.0)
            if key not in cache:
                v = e(p, q) + noise * rng.uniform(-1, 1)
                if regime == 'dyadic':
                    v = round(v * 64) / 64
                cache[key] = (v, cm.dyadic(rng, -0.5, 0.5, 4))
            a1.append(p)
            a2.append(q)
            E.append(cache[key][0])
            D.append(cache[key][1])
    if rng.random() < 0.3:
        # rows in arbitrary order (a data file need not be sorted)
        order = list(range(len(a1)))
        rng.shuffle(order)
        a1, a2, E, D = ([t[i] for i in order] for t in (a1, a2, E, D))
    use_delta = rng.random() < 0.4 if delta is None else delta
    return {'regime': regime, 'n1': n1, 'n2': n2, 'dup': dup, 'a1vect': list(a1vect), 'a2vect': list(a2vect),
            'box': box, 'origin': ORIGINS.get(tag.split('~')[0]), 'tag': tag, 'a1': a1, 'a2': a2, 'E': E, 'delta': D if use_delta else None}


def vec3(v):
    """3-index crystal vector of a shift vector given with 3 or 4 (Miller-Bravais [u v t w]) indices: own formula
    u a1 + v a2 + t a3 + w c with a3 = -(a1 + a2), u + v + t = 0  ->  (2u + v) a1 + (u + 2v) a2 + w c."""
    v = list(v)
    return v if len(v) == 3 else [2 * v[0] + v[1], v[0] + 2 * v[1], v[3]]


def mk_gamma(spec):
    import atomman as am
    np = _np()
    box = mk_box(spec)
    return am.defect.GammaSurface(a1vect=spec['a1vect'], a2vect=spec['a2vect'], a1=np.array(spec['a1']),
                                  a2=np.array(spec['a2']), E_gsf=np.array(spec['E']), box=box,
                                  delta=None if spec['delta'] is None else np.array(spec['delta']))


def cart_vects(spec):
    np = _np()
    B = np.eye(3) if spec['box'] is None else np.array(spec['box'], dtype=float)
    return np.dot(np.array(vec3(spec['a1vect']), dtype=float), B), np.dot(np.array(vec3(spec['a2vect']), dtype=float), B), B


class Rec:
    """records the calls made to a scipy interpolant."""

    def __init__(self, f):
        self.f = f
        self.calls = []

    def __call__(self, *a):
        np = _np()
        r = self.f(*a)
        self.calls.append(([np.array(x, dtype=float).copy() for x in a], np.array(r, dtype=float).copy()))
        return r

    def __getattr__(self, k):
        return getattr(self.f, k)


def spy_nearest(g):
    """wrap the nearest-value interpolants (smooth=False); returns (E recorder, delta recorder or None)."""
    re_ = Rec(g._GammaSurface__E_gsf_nearest)
    g._GammaSurface__E_gsf_nearest = re_
    rd = None
    if hasattr(g, '_GammaSurface__delta_nearest'):
        rd = Rec(g._GammaSurface__delta_nearest)
        g._GammaSurface__delta_nearest = rd
    return re_, rd


def _nearest_case(ctx, spec, g, rec, queries, field='E'):
    """smooth=False: the (a1, a2) pairs handed to the nearest-value interpolant are the model's `wrapN` of the
    query, in this order."""
    np = _np()
    q1 = np.array([p[0] for p in queries], dtype=float)
    q2 = np.array([p[1] for p in queries], dtype=float)
    rec.calls.clear()
    fn = g.E_gsf if field == 'E' else g.delta
    impl = call(fn, a1=q1.copy(), a2=q2.copy(), smooth=False)
    rep = {'op': 'nearest', 'spec': spec, 'queries': [list(p) for p in queries], 'field': field}
    if isinstance(impl, Raised) or len(rec.calls) != 1:
        ctx.disagree('nearest:calls', f'{field}(smooth=False): {impl if isinstance(impl, Raised) else str(len(rec.calls)) + " interpolant calls"}', rep)
        return
    (pts,), fv = rec.calls[0]
    rows = [t for p in zip(q1, q2) for t in p]
    vals = cm.unfrs(ctx.driver.ask(f'delta {len(queries)} ' + cm.frs(rows)))
    exact = spec['regime'] == 'dyadic'
    pts = np.asarray(pts).reshape(-1, 2)
    for i in range(len(queries)):
        w1, w2 = vals[2 * i], vals[2 * i + 1]
        near = (not exact) and any(abs(F(q) - round(F(q))) < F(1, 10 ** 9) for q in (q1[i], q2[i]))
        ctx.stats.case('nearest', (field, i, float(q1[i]), float(q2[i]), spec['tag'], spec['n1'], spec['n2']), nontrivial=not near,
                       sample={'op': f'{field}(smooth=False)', 'a1': float(q1[i]), 'a2': float(q2[i]), 'wrapped': [float(w1), float(w2)]})
        if near:
            continue
        ok = (F(float(pts[i, 0])) == w1 and F(float(pts[i, 1])) == w2) if exact else \
            (cm.close(pts[i, 0], w1, 0, 1e-9) and cm.close(pts[i, 1], w2, 0, 1e-9))
        if not ok or np.ravel(impl)[i] != np.ravel(fv)[i]:
            ctx.disagree('nearest:wrap', f'{field}(smooth=False) asks the nearest-value interpolant at ({pts[i, 0]!r}, {pts[i, 1]!r}) '
                         f'for the query ({q1[i]!r}, {q2[i]!r}); model ({float(w1)!r}, {float(w2)!r})', dict(rep, index=i))


def spy(g):
    """wrap the fitted interpolants of a GammaSurface; returns (E recorder, delta recorder or None)."""
    re_ = Rec(g._GammaSurface__E_gsf_fit)
    g._GammaSurface__E_gsf_fit = re_
    rd = None
    if hasattr(g, '_GammaSurface__delta_fit'):
        rd = Rec(g._GammaSurface__delta_fit)
        g._GammaSurface__delta_fit = rd
    return re_, rd


def gen_queries(rng, spec, m, c1=None, c2=None):
    """query points: generic, sampled nodes shifted by integers, the blend strip and its edges."""
    q = []
    dy = spec['regime'] == 'dyadic'
    for _ in range(m):
        k = rng.random()
        if k < 0.3:
            i = rng.randrange(len(spec['a1']))
            p = (spec['a1'][i] + rng.randint(-2, 2), spec['a2'][i] + rng.randint(-2, 2))
        elif k < 0.55 and c1 is not None:
            def strip(c):
                c = float(c)
                base = rng.choice([-c, c, 1 - c, 0.0, 1.0, -c / 2, c / 2, 1 - c / 2])
                return base + rng.randint(-2, 2)
            p = (strip(c1), strip(c2)) if rng.random() < 0.5 else (strip(c1), cm.dyadic(rng, -2, 2, 5))
        elif dy:
            p = (cm.dyadic(rng, -3, 3, 5), cm.dyadic(rng, -3, 3, 5))
        else:
            p = (rng.uniform(-3, 3), rng.uniform(-3, 3))
        q.append(p)
    return q


# ----------------------------------------------------------------------------------------
# correspondence
# ----------------------------------------------------------------------------------------
RULE = ('gamma surfaces: grids n1 x n2 in {2..32} incl. strongly anisotropic ones (one spacing > 4x the other); dyadic grids: '
        'coordinates/energies exact in double, wrap and blend decisions compared exactly; generic k/n grids: compared within 1e-9 '
        'with points the model places within 1e-9 of the wrap boundary exempt; with/without duplicated a=1 edge, with/without '
        'delta; 11 shift-vector/cell settings (rectangular, oblique, triclinic, fcc (111), hexagonal basal/prismatic, monoclinic, '
        'rotated triclinic: non-symmetric vects); queries through a1/a2, pos and x/y (default and given xvect, one and many '
        'points), sampled nodes plus integer periods, blend-strip edges; SDVPN: isotropic, cubic and hexagonal Volterra solutions '
        'in 7 orientations, random disregistry profiles on uniform grids, random NON-symmetric 3x3 tau (second row differs from the second column; one in five symmetric)/alpha (1-3 coefficients)/'
        'beta (non-symmetric)/cut-off, all 16 combinations of fullstress x cdiffelastic x cdiffsurface x cdiffstress per system; '
        'edit sequences of 2-5 steps on ONE object (setters incl. obj.x / obj.disregistry, solve(**kwargs), load from '
        'DataModelDict/JSON/XML written in Å|nm|pm and GPa|MPa|eV/Å^3, same-length profile on a rescaled grid) with every term '
        'method, disldensity and check_energies CALLED WITH EVERY SUBSET of (x, disregistry) after every step; ONE GammaSurface '
        'object under reloads: query in every form -> set() / model(model=<dm|json|xml, 3 length x 3 energy units>) with other '
        'vectors of the same plane | rescaled box | other cell | other sampling | with/without delta -> query again (model object, '
        'exact oracle and a fresh object); 3-index and 4-index (Miller-Bravais) shift vectors; duplicated a=1 edge in both / one '
        'direction / a hair below 1; rows in grid or shuffled order; 2-D query arrays; pos= / x=,y= together with a1vect=/a2vect=; '
        'disldensity on non-uniform grids; arctangent grids given by two of (xmax, xstep, xnum) as decimal literals with the '
        'float quotient just below / above the integer; left-handed cells and a cell with a non-zero origin; the whole geometry x 2^k '
        '(|k| <= 200) in the correspondence of the conversions and their refusals; CROSS-CUTTING cases (op xcut): working units SI / '
        'named / random seeds throughout, and CHANGED between model() and load / between construction and evaluation; constructor, '
        'setter, solve() and method arguments edited by the caller afterwards, results overwritten, model() trees edited, default '
        'arguments shared; lists / tuples / numpy scalars / int32 / int64 / float32 / 0-d / (n,1) / (1,n) / rank-3 / strided / '
        'Fortran / read-only inputs; lengths x 2^k and energies x 2^j (|k|, |j| <= 200) with refusals decided by relative geometry; '
        'falsy-but-valid values through constructor / setters / solve / load; positional calls in the documented order; models from '
        'str / path / binary handle / BytesIO; one object solved repeatedly with other guesses; twin objects read in different orders; '
        'COUNTS AND THRESHOLDS (op counts): ONE E_gsf / delta / conversion call with n points, n in {1, 2, 3, 2^e - 1, 2^e, 2^e + 1 (e = 2..17), 999..1001, '
        '2001, 3073, 5001, 6143, 6145, 10001, 12289, 20001, 100001} (all <= 4097 every run, four larger ones per quick run), compared point by '
        'point with the input data at sampled shifts, the same points in chunks and singly; gamma grids down to 2x2; SDVPN profiles of '
        '2..5 and 2^e + {-1..3} points (e = 7..11) with 4-7 alpha coefficients; flags as 1 / 0 / numpy booleans; arctangent grids with xnum '
        'as int / whole-number float / numpy scalars and 2..4097 points; one 2049 / 4097 / 6145-point query in the correspondence; '
        'distinct = distinct canonical driver line / oracle case; non-trivial = non-error reply with at least one non-zero input')


def _ask(ctx, line, key, info):
    out = ctx.driver.ask(line)
    if out.startswith('err:'):
        return None, out
    return cm.unfrs(out), out


def _gl(obj, op, head):
    """driver op that gets the Cartesian shift vectors on the wire (stateless) or reads them from the CURRENT state
    of the model's GammaSurface object (`g...` ops)."""
    return ('g' + op) if obj else f'{op} {head}'


def _fit_case(ctx, spec, g, which='E', obj=False, exact_e=True):
    """model fit nodes vs the nodes the implementation handed to Rbf.  Returns (c1, c2) wire strings.
    `obj`: the data are those of the model OBJECT (after a `gset`/`gload`), not sent again."""
    np = _np()
    vals = spec['E'] if which == 'E' else spec['delta']
    n = len(vals)
    line = f'fit {n} ' + cm.frs(spec['a1']) + ' ' + cm.frs(spec['a2']) + ' ' + cm.frs(vals)
    out = ctx.driver.ask(f'gfit {0 if which == "E" else 1}' if obj else line)
    ctx.stats.case('fit:obj' if obj else 'fit', line, sample={'op': 'fit', 'grid': [spec['n1'], spec['n2']], 'dup': spec['dup'],
                                        'vects': spec['tag'], 'field': which})
    rep = {'op': 'fit', 'spec': spec, 'field': which}
    if out.startswith('err:'):
        ctx.disagree('fit:driver-error', f'model refused a fit the implementation accepted: {out}', rep)
        return None
    toks = out.split()
    c1, c2, N = toks[0], toks[1], int(toks[2])
    body = [Fraction(t) for t in toks[3:]]
    m1, m2, me = body[:N], body[N:2 * N], body[2 * N:]
    fit = g._GammaSurface__E_gsf_fit if which == 'E' else g._GammaSurface__delta_fit
    xi, di = np.asarray(fit.xi), np.asarray(fit.di)
    nearest = g._GammaSurface__E_gsf_nearest if which == 'E' else g._GammaSurface__delta_nearest
    ok = xi.shape == (2, N) and cm.allclose(xi[0], m1, 0, 1e-12) and cm.allclose(xi[1], m2, 0, 1e-12) \
        and (all(F(float(a)) == b for a, b in zip(di, me)) if exact_e else cm.allclose(di, me, 1e-14, 1e-300))
    ok = ok and np.asarray(nearest.points).shape == (N, 2) and np.array_equal(np.asarray(nearest.points).T, xi) \
        and np.array_equal(np.asarray(nearest.values).ravel(), di)
    if not ok:
        ctx.disagree('fit', f'fit nodes differ: implementation {xi.shape[1]} nodes, model {N} '
                     f'(grid {spec["n1"]}x{spec["n2"]}, dup={spec["dup"]})', rep)
        return None
    return c1, c2


def _wrap_exempt(spec, q, c):
    """generic regime: the model's a + c within 1e-9 of an integer -> float may wrap the other way."""
    if spec['regime'] == 'dyadic':
        return False
    t = F(q) + F(c)
    return abs(t - round(t)) < F(1, 10 ** 9)


def _egsf_case(ctx, spec, g, rec, cs, queries, via='a12', xname='default', obj=False):
    """E_gsf through one of its three entry points (`a1=,a2=` | `pos=` | `x=,y=[,xvect=]`): the query is reduced
    to fractional coordinates by the model (`Query.toA12?`), wrapped and blended by the model with the
    interpolant values the implementation used."""
    np = _np()
    c1, c2 = cs
    q1 = np.array([p[0] for p in queries], dtype=float)
    q2 = np.array([p[1] for p in queries], dtype=float)
    rec.calls.clear()
    rep = {'op': 'egsf', 'spec': spec, 'queries': [list(p) for p in queries], 'via': via, 'xvect': xname}
    exact = spec['regime'] == 'dyadic' and via == 'a12'
    if via == 'a12':
        impl = call(g.E_gsf, a1=q1.copy(), a2=q2.copy())
        fr = [(F(float(a)), F(float(b))) for a, b in zip(q1, q2)]
    else:
        A1, A2, _ = cart_vects(spec)
        head = cm.frs(A1) + ' ' + cm.frs(A2)
        m = len(queries)
        P = np.array([float(t) for t in cm.unfrs(ctx.driver.ask(f'{_gl(obj, "a2p", head)} {m} ' + cm.frs([t for p in queries for t in p])))]).reshape(m, 3)
        if via == 'pos':
            impl = call(g.E_gsf, pos=P.copy())
            o2 = ctx.driver.ask(f'{_gl(obj, "q2apos", head)} {m} ' + cm.frs(P))
        elif via in ('vects', 'posvec', 'xyvec'):
            # the a1vect= / a2vect= keywords (crystal vectors of ANOTHER basis of the plane): fractional coordinates are
            # relative to it ('vects'); a Cartesian position stays absolute ('posvec'); plotting coordinates take the
            # given a1vect as default x axis ('xyvec')
            v1, v2 = np.array(vec3(spec['a1vect'])), np.array(vec3(spec['a2vect']))
            w1, w2 = {'sum': (v1 + v2, v2), 'swap': (v2, v1), 'shear': (v1, v2 - 2 * v1), 'a1only': (v1 + v2, None)}[xname]
            B = np.eye(3) if spec['box'] is None else np.array(spec['box'], dtype=float)
            B1 = np.array([float(t) for t in cm.unfrs(ctx.driver.ask('cart ' + cm.frs(w1) + ' ' + cm.frs(B)))])
            B2 = A2 if w2 is None else np.array([float(t) for t in cm.unfrs(ctx.driver.ask('cart ' + cm.frs(w2) + ' ' + cm.frs(B)))])
            kwv = dict(a1vect=w1, **({} if w2 is None else {'a2vect': w2}))
            if via == 'vects':
                impl = call(g.E_gsf, a1=q1.copy(), a2=q2.copy(), **kwv)
                o2 = ctx.driver.ask(f'{_gl(obj, "q2avec", head)} {cm.frs(B1)} {cm.frs(B2)} {m} ' + cm.frs([t for p in queries for t in p]))
            elif via == 'posvec':
                impl = call(g.E_gsf, pos=P.copy(), **kwv)
                o2 = ctx.driver.ask(f'{_gl(obj, "q2aopos", head)} {cm.frs(B1)} {cm.frs(B2)} {m} ' + cm.frs(P))
            else:
                nn = float(np.linalg.norm(np.cross(A1, A2)))
                nrm = cm.frs([nn] + list(_norms_spec(A1, A2, B1) if obj else _norms(g, B1)))
                o1 = ctx.driver.ask(f'{"g" if obj else ""}p2xy some {cm.frs(B1)}{"" if obj else " " + head} {nrm} {m} ' + cm.frs(P))
                xy = np.array([float(t) for t in cm.unfrs(o1)]).reshape(m, 2)
                impl = call(g.E_gsf, x=xy[:, 0].copy(), y=xy[:, 1].copy(), **kwv)
                o2 = ctx.driver.ask(f'{_gl(obj, "q2aoxy", head)} {cm.frs(B1)} {cm.frs(B2)} {nrm} {m} ' + cm.frs(xy))
        else:
            X = {'default': None, 'a2': A2.copy(), 'mix': A1 * 0.5 - A2 * 1.5}[xname]
            Xv = A1 if X is None else X
            nn = float(np.linalg.norm(np.cross(A1, A2)))
            nx, ny, nz = _norms_spec(A1, A2, Xv) if obj else _norms(g, Xv)
            hd = ('none' if X is None else 'some ' + cm.frs(Xv)) + ('' if obj else ' ' + head) + ' ' + cm.frs([nn, nx, ny, nz])
            pre = 'g' if obj else ''
            o1 = ctx.driver.ask(f'{pre}p2xy {hd} {m} ' + cm.frs(P))
            xy = np.array([float(t) for t in cm.unfrs(o1)]).reshape(m, 2)
            impl = call(g.E_gsf, x=xy[:, 0].copy(), y=xy[:, 1].copy(), **({} if X is None else {'xvect': X}))
            o2 = ctx.driver.ask(f'{pre}q2axy {hd} {m} ' + cm.frs(xy))
        if o2.startswith('err:') or isinstance(impl, Raised):
            ctx.stats.case('egsf:' + via, (via, xname, spec['tag'], tuple(map(tuple, queries))))
            if not (isinstance(impl, Raised) and impl.cls == o2):
                ctx.disagree('egsf:' + via, f'E_gsf({via}, xvect={xname}, {spec["tag"]}): implementation '
                             f'{impl if isinstance(impl, Raised) else "returned"}, model {o2[:60]}', rep)
            return
        t = cm.unfrs(o2)
        fr = [(t[2 * k], t[2 * k + 1]) for k in range(m)]
    if isinstance(impl, Raised):
        ctx.disagree('egsf:raises', f'E_gsf({via}) {impl}', rep)
        return
    impl = np.asarray(impl, dtype=float)
    if len(rec.calls) != 4:
        ctx.disagree('egsf:calls', f'E_gsf made {len(rec.calls)} interpolant calls, model has 4 blend nodes', rep)
        return
    (a1w, a2w), f00 = rec.calls[0]
    offs = [(0, 0), (0, 1), (1, 0), (1, 1)]
    for k, (o1, o2) in enumerate(offs):
        (b1, b2), _ = rec.calls[k]
        if not (np.array_equal(b1, a1w + o1) and np.array_equal(b2, a2w + o2)):
            ctx.disagree('egsf:offset', f'interpolant call {k} is not at the wrapped point + {(o1, o2)}', rep)
            return
    scale = max(1.0, max(abs(v) for v in spec['E']))
    m = len(queries)
    rows = []
    for i in range(m):
        rows += [fr[i][0], fr[i][1]] + [F(float(rec.calls[k][1][i])) for k in range(4)]
    line = f'egsf {c1} {c2} {m} ' + cm.frs(rows)
    out = ctx.driver.ask(line)
    if out.startswith('err:'):
        ctx.disagree('egsf:driver-error', f'model refused: {out}', rep)
        return
    vals = cm.unfrs(out)
    kind = ('egsf' if via == 'a12' else 'egsf:' + via) + (':obj' if obj else '')
    for i in range(m):
        w1, w2, x, y, e = vals[5 * i:5 * i + 5]
        ex = (not exact) and any(abs(F(q) + F(c) - round(F(q) + F(c))) < F(1, 10 ** 9) for q, c in ((fr[i][0], c1), (fr[i][1], c2)))
        ctx.stats.case(kind, (line[:40], i, float(q1[i]), float(q2[i]), spec['tag'], spec['n1'], spec['n2'], spec['dup'], via, xname),
                       nontrivial=not ex,
                       sample={'op': 'E_gsf', 'via': via, 'a1': float(q1[i]), 'a2': float(q2[i]), 'grid': [spec['n1'], spec['n2']],
                               'wrapped': [float(w1), float(w2)], 'weights': [float(x), float(y)]})
        if ex:
            continue
        if exact:
            okw = F(float(a1w[i])) == w1 and F(float(a2w[i])) == w2
        else:
            okw = cm.close(a1w[i], w1, 0, 1e-9) and cm.close(a2w[i], w2, 0, 1e-9)
        if not okw:
            ctx.disagree('egsf:wrap', f'wrapped query differs at ({q1[i]!r}, {q2[i]!r}) via {via}: implementation '
                         f'({a1w[i]!r}, {a2w[i]!r}), model ({float(w1)!r}, {float(w2)!r})',
                         dict(rep, index=i))
            continue
        if not cm.close(impl[i], e, 1e-9, 1e-10 * scale):
            ctx.disagree('egsf:value', f'E_gsf({q1[i]!r}, {q2[i]!r}) via {via} = {impl[i]!r}, model blend of the same '
                         f'interpolant values = {float(e)!r} (weights {float(x)}, {float(y)})', dict(rep, index=i))


def _delta_case(ctx, spec, g, recd, queries):
    np = _np()
    q1 = np.array([p[0] for p in queries], dtype=float)
    q2 = np.array([p[1] for p in queries], dtype=float)
    recd.calls.clear()
    impl = call(g.delta, a1=q1.copy(), a2=q2.copy())
    rep = {'op': 'delta', 'spec': spec, 'queries': [list(p) for p in queries]}
    if isinstance(impl, Raised):
        ctx.disagree('delta:raises', f'delta(a1=, a2=) {impl}', rep)
        return
    impl = np.asarray(impl, dtype=float)
    if len(recd.calls) != 1:
        ctx.disagree('delta:calls', f'delta made {len(recd.calls)} interpolant calls, model 1', rep)
        return
    (a1w, a2w), fv = recd.calls[0]
    rows = []
    for i in range(len(queries)):
        rows += [q1[i], q2[i]]
    out = ctx.driver.ask(f'delta {len(queries)} ' + cm.frs(rows))
    vals = cm.unfrs(out)
    exact = spec['regime'] == 'dyadic'
    for i in range(len(queries)):
        w1, w2 = vals[2 * i], vals[2 * i + 1]
        near = (not exact) and any(abs(F(q) - round(F(q))) < F(1, 10 ** 9) for q in (q1[i], q2[i]))
        ctx.stats.case('delta', ('delta', i, float(q1[i]), float(q2[i]), spec['tag'], spec['n1'], spec['n2']), nontrivial=not near)
        if near:
            continue
        ok = (F(float(a1w[i])) == w1 and F(float(a2w[i])) == w2) if exact else \
            (cm.close(a1w[i], w1, 0, 1e-9) and cm.close(a2w[i], w2, 0, 1e-9))
        if not ok or impl[i] != fv[i]:
            ctx.disagree('delta:wrap', f'delta wrap differs at ({q1[i]!r}, {q2[i]!r}): implementation '
                         f'({a1w[i]!r}, {a2w[i]!r}), model ({float(w1)!r}, {float(w2)!r})', dict(rep, index=i))


def _norms(g, X):
    np = _np()
    yv = np.cross(g.planenormal, X)
    tr = np.array([X, yv, g.planenormal])
    return np.linalg.norm(tr, axis=1)


def _norms_spec(A1, A2, X):
    """the same three row norms from the shift vectors of the DATA (not from attributes of the object)."""
    np = _np()
    N = np.cross(A1, A2)
    N = N / np.linalg.norm(N)
    return np.linalg.norm(np.array([X, np.cross(N, X), N]), axis=1)


def _conv_case(ctx, spec, g, rng, obj=False):
    """coordinate conversions: model vs implementation on the same exact inputs.  Every call into atomman is
    guarded: an exception is an outcome that is compared with the model's."""
    np = _np()
    A1, A2, B = cart_vects(spec)
    rep = {'op': 'conv', 'spec': {k: spec[k] for k in ('a1vect', 'a2vect', 'box', 'tag')}}
    # cart
    for v in (vec3(spec['a1vect']), vec3(spec['a2vect'])):
        out = ctx.driver.ask('cart ' + cm.frs(v) + ' ' + cm.frs(B))
        impl = np.dot(np.array(v, dtype=float), g.box.vects)
        ctx.stats.case('cart', (tuple(v), spec['tag']))
        if not cm.allclose(impl, cm.unfrs(out), 1e-12, 1e-12):
            ctx.disagree('cart', f'crystal->Cartesian vector differs for {v}', rep)
    head = cm.frs(A1) + ' ' + cm.frs(A2)
    m = rng.choice([1, 1, 2, 5, 9])
    dy = spec['regime'] == 'dyadic'
    pts = [(cm.dyadic(rng, -3, 3, 4), cm.dyadic(rng, -3, 3, 4)) if dy else (rng.uniform(-3, 3), rng.uniform(-3, 3))
           for _ in range(m)]
    q1 = np.array([p[0] for p in pts])
    q2 = np.array([p[1] for p in pts])
    scale = max(1.0, float(np.abs(A1).max()), float(np.abs(A2).max())) * 4
    # a12 -> pos
    single = (m == 1 and rng.random() < 0.5)
    pos = call(g.a12_to_pos, q1[0], q2[0]) if single else call(g.a12_to_pos, q1, q2)
    K_ = ':obj' if obj else ''
    out = ctx.driver.ask(f'{_gl(obj, "a2p", head)} {m} ' + cm.frs([v for p in pts for v in p]))
    ctx.stats.case('a2p' + K_, (spec['tag'], tuple(pts)), sample={'op': 'a12_to_pos', 'vects': spec['tag'], 'points': m})
    if isinstance(pos, Raised) or np.shape(pos) != (m, 3) or not cm.allclose(np.ravel(pos), cm.unfrs(out), 1e-12, 1e-12 * scale):
        ctx.disagree('a12_to_pos', f'a12_to_pos differs ({spec["tag"]}, {m} points): implementation '
                     f'{pos if isinstance(pos, Raised) else np.asarray(pos).tolist()}, model {out[:80]}', dict(rep, pts=pts))
        # continue with the model's positions so that the remaining conversions are still compared
        pos = np.array([float(v) for v in cm.unfrs(out)]).reshape(m, 3)
    # pos -> a12 on those and on arbitrary in-plane points; out-of-plane point must be refused
    variants = [('many', pos)] + ([('one', pos[0])] if m >= 1 else [])
    for name, P in variants:
        r = call(g.pos_to_a12, P)
        impl = r.cls if isinstance(r, Raised) else np.array([np.ravel(r[0]), np.ravel(r[1])]).T.ravel()
        PP = np.atleast_2d(P)
        out = ctx.driver.ask(f'{_gl(obj, "p2a", head)} {len(PP)} ' + cm.frs(PP))
        ctx.stats.case('p2a' + K_, (spec['tag'], name, tuple(pts)), sample={'op': 'pos_to_a12', 'vects': spec['tag'], 'shape': list(np.shape(P))})
        if isinstance(impl, str) or out.startswith('err:'):
            if impl != out:
                ctx.disagree('pos_to_a12', f'pos_to_a12 ({name}) implementation {r}, model {out[:60]}', dict(rep, pos=PP.tolist()))
        elif not cm.allclose(impl, cm.unfrs(out), 1e-9, 1e-10):
            ctx.disagree('pos_to_a12', f'pos_to_a12 ({name}) differs ({spec["tag"]})', dict(rep, pos=PP.tolist()))
    cvec = np.cross(A1, A2)
    cn = float(np.linalg.norm(cvec))
    # off the plane by a multiple of A1 x A2 | by h sqrt|A1 x A2| along the normal, h well above / below the tolerance 1e-6 max(1, |a|)
    for off in (pos[0] + cvec * rng.choice([0.5, -1.0, 1e-3]), pos[0] + cvec / cn * math.sqrt(cn) * rng.choice([1e-4, -3e-5, 0.25]),
                pos[0] + cvec / cn * math.sqrt(cn) * rng.choice([1e-8, -1e-9, 1e-7])):
        r = call(g.pos_to_a12, off)
        impl = r.cls if isinstance(r, Raised) else 'ok'
        out = ctx.driver.ask(f'{_gl(obj, "p2a", head)} 1 ' + cm.frs(off))
        ctx.stats.case('p2a:offplane', (spec['tag'], tuple(off)))
        if (impl == 'err:assert') != (out == 'err:assert') or (impl not in ('ok', 'err:assert')):
            ctx.disagree('pos_to_a12:assert', f'out-of-plane position: implementation {r if isinstance(r, Raised) else impl}, '
                         f'model {out[:60]}', dict(rep, pos=off.tolist()))
    # xy conversions with the default (xvect=None -> Cartesian a1vect, `xyDefaultX` of the model) and with
    # alternative in-plane x axes; an out-of-plane axis must be refused by both directions
    nn = float(np.linalg.norm(np.cross(A1, A2)))
    for xname, X in (('default', None), ('a2', A2.copy()), ('mix', A1 * 0.5 - A2 * 1.5), ('offplane', A1 + np.cross(A1, A2)),
                     ('tilted', A1 + cvec / cn * float(np.linalg.norm(A1)) * rng.choice([1e-5, 0.3, -1e-3])),
                     ('hair', A2 - A1 + cvec / cn * float(np.linalg.norm(A2 - A1)) * rng.choice([1e-11, -1e-12]))):
        Xv = A1 if X is None else X
        nx, ny, nz = _norms_spec(A1, A2, Xv) if obj else _norms(g, Xv)
        xtok = 'none' if X is None else 'some ' + cm.frs(Xv)
        hd = xtok + ('' if obj else ' ' + head) + ' ' + cm.frs([nn, nx, ny, nz])
        pre = 'g' if obj else ''
        r = call(g.pos_to_xy, pos, xvect=X)
        impl = r.cls if isinstance(r, Raised) else np.array([np.ravel(r[0]), np.ravel(r[1])]).T.ravel()
        out = ctx.driver.ask(f'{pre}p2xy {hd} {m} ' + cm.frs(pos))
        ctx.stats.case('p2xy' + K_, (spec['tag'], xname, tuple(pts)), sample={'op': 'pos_to_xy', 'vects': spec['tag'], 'xvect': xname})
        if isinstance(impl, str) or out.startswith('err:'):
            if impl != out:
                ctx.disagree('pos_to_xy', f'pos_to_xy xvect={xname} ({spec["tag"]}): implementation {r}, model {out[:60]}', rep)
        elif not cm.allclose(impl, cm.unfrs(out), 1e-9, 1e-10 * scale):
            ctx.disagree('pos_to_xy', f'pos_to_xy differs ({spec["tag"]}, xvect={xname})', dict(rep, pts=pts))
        xs = [cm.dyadic(rng, -4, 4, 3) for _ in range(m)]
        ys = [cm.dyadic(rng, -4, 4, 3) for _ in range(m)]
        r = call(g.xy_to_pos, np.array(xs), np.array(ys), xvect=X)
        impl = r.cls if isinstance(r, Raised) else np.ravel(r)
        out = ctx.driver.ask(f'{pre}xy2p {hd} {m} ' + cm.frs([v for p in zip(xs, ys) for v in p]))
        ctx.stats.case('xy2p' + K_, (spec['tag'], xname, tuple(xs), tuple(ys)), sample={'op': 'xy_to_pos', 'vects': spec['tag'], 'xvect': xname})
        if isinstance(impl, str) or out.startswith('err:'):
            if impl != out:
                ctx.disagree('xy_to_pos', f'xy_to_pos xvect={xname} ({spec["tag"]}): implementation {r}, model {out[:60]}',
                             dict(rep, xy=[xs, ys]))
        elif not cm.allclose(impl, cm.unfrs(out), 1e-9, 1e-10 * scale):
            ctx.disagree('xy_to_pos', f'xy_to_pos differs ({spec["tag"]}, xvect={xname}): implementation '
                         f'{np.round(impl[:3], 6).tolist()}, model {[round(float(v), 6) for v in cm.unfrs(out)[:3]]}',
                         dict(rep, xy=[xs, ys]))


# -- the GammaSurface OBJECT under reloads (set() / model(model=...) into a used object) -------------

# 4-index (Miller-Bravais) shift vectors in a hexagonal cell: basal <a> directions, a prismatic setting with <c>
HEXBOX = [[3.0, 0.0, 0.0], [-1.5, 2.598076211353316, 0.0], [0.0, 0.0, 5.0]]
VECTS4 = [
    ([0.75, -0.375, -0.375, 0.0], [-0.375, 0.75, -0.375, 0.0], HEXBOX, 'hex4-basal'),
    ([1.0, -1.0, 0.0, 0.0], [0.0, 0.0, 0.0, 1.0], HEXBOX, 'hex4-prism'),
    ([0.25, 0.25, -0.5, 0.0], [0.5, -0.25, -0.25, 1.0], HEXBOX, 'hex4-pyramidal'),
]
UNITS_E = ['mJ/m^2', 'eV/angstrom^2', 'J/m^2']
UNITS_L = ['angstrom', 'nm', 'pm']


def related_vects(rng, spec, kind):
    """shift-vector setting for a RELOAD of an object that holds `spec`: anything else | the same vectors |
    other vectors spanning the SAME plane in the same cell | the same crystal vectors in a rescaled cell."""
    np = _np()
    if kind == 'other':
        return rng.choice(VECTS + VECTS4)
    v1, v2 = np.array(vec3(spec['a1vect'])), np.array(vec3(spec['a2vect']))
    box, tag = spec['box'], spec['tag'].split('~')[0]
    if kind == 'same':
        return (v1.tolist(), v2.tolist(), box, tag)
    if kind == 'plane':
        w1, w2 = rng.choice([(v1 + v2, v2), (v2, v1), (2 * v1, v2 - v1), (v1 - v2, 0.5 * v1 + 0.5 * v2), (v1, v2 + 0.5 * v1)])
        return (np.asarray(w1, dtype=float).tolist(), np.asarray(w2, dtype=float).tolist(), box, tag + '~plane')
    if kind == 'box':
        f = rng.choice([1.25, 0.5, 2.0])
        B = np.eye(3) if box is None else np.array(box, dtype=float)
        return (v1.tolist(), v2.tolist(), (B * f).tolist(), tag + '~box')
    raise ValueError(kind)


def gen_reload_specs(rng, regime=None, first=None, steps=None):
    """a first data set and 1-2 further ones to be loaded into the SAME object."""
    regime = regime or rng.choice(['dyadic', 'generic'])
    first = first or rng.choice(VECTS + VECTS4)
    specs = [gen_gamma_spec(rng, regime=regime, vects=first, grid=rng.choice(GRIDS_DYADIC[:4] if regime == 'dyadic' else GRIDS_GENERIC[:6]))]
    for k in range(steps or rng.choice([1, 2])):
        kind = rng.choice(['plane', 'plane', 'box', 'same', 'other'])
        reg = regime if rng.random() < 0.7 else ('generic' if regime == 'dyadic' else 'dyadic')
        specs.append(gen_gamma_spec(rng, regime=reg, vects=related_vects(rng, specs[-1], kind),
                                    grid=rng.choice(GRIDS_DYADIC[:4] if reg == 'dyadic' else GRIDS_GENERIC[:6])))
    return specs


def gen_reload_how(rng):
    if rng.random() < 0.45:
        return {'kind': 'set'}
    return {'kind': 'model', 'form': rng.choice(['dm', 'json', 'xml']), 'lu': rng.choice(UNITS_L), 'eu': rng.choice(UNITS_E)}


def reload_gamma(g, spec, how):
    """load `spec` into the EXISTING object `g` the way `how` says; returns the DataModelDict used (or None)."""
    import atomman as am
    np = _np()
    box = mk_box(spec)
    if how['kind'] == 'set':
        g.set(spec['a1vect'], spec['a2vect'], np.array(spec['a1']), np.array(spec['a2']), np.array(spec['E']), box=box,
              delta=None if spec['delta'] is None else np.array(spec['delta']))
        return None
    mdl = mk_gamma(spec).model(length_unit=how['lu'], energyperarea_unit=how['eu'])
    g.model(model={'dm': mdl, 'json': mdl.json(), 'xml': mdl.xml()}[how['form']])
    return mdl


def _rec_wire(ctx, box, v1, v2, a1, a2, e, delta):
    np = _np()
    B = np.eye(3) if box is None else np.array(box, dtype=float)
    w = []
    for v in (v1, v2):
        v = list(np.ravel(v))
        w.append(cm.frs(v) if len(v) == 3 else ctx.driver.ask('v4to3 ' + cm.frs(v)))
    return (f'{cm.frs(B)} {w[0]} {w[1]} {len(a1)} {cm.frs(a1)} {cm.frs(a2)} {cm.frs(e)} '
            + ('0' if delta is None else '1 ' + cm.frs(delta)))


def _gobj_state_case(ctx, spec, g, rep, how, mdl):
    """after a (re)load: shift vectors, box, data and the generated model of the real object vs the model object."""
    import atomman as am
    np = _np()
    uc = am.unitconvert
    ctx.stats.case('gobj:state', (spec['tag'], spec['n1'], spec['n2'], str(how), tuple(spec['E'][:4])),
                   sample={'op': 'reload of a used GammaSurface', 'how': how, 'vects': spec['tag'], 'grid': [spec['n1'], spec['n2']]})
    what = f'after {how} of {spec["tag"]} {spec["n1"]}x{spec["n2"]} into a used object'
    r = call(lambda: np.concatenate([np.dot(g.a1vect, g.box.vects), np.dot(g.a2vect, g.box.vects)]))
    out = ctx.driver.ask('gcart')
    scale = max(1.0, float(np.abs(g.box.vects).max()))
    if isinstance(r, Raised) or out.startswith('err:') or not cm.allclose(r, cm.unfrs(out), 1e-12, 1e-13 * scale):
        ctx.disagree('gobj:cart', f'{what}: Cartesian shift vectors {r if isinstance(r, Raised) else np.round(r, 6).tolist()}, '
                     f'model object {out[:80]}', rep)
        return False
    out = cm.unfrs(ctx.driver.ask('gdata'))
    n = int(out[0])
    has = int(out[1 + 3 * n])
    d = g.data
    impl = np.concatenate([d.a1.values, d.a2.values, d.E_gsf.values] + ([d.delta.values] if 'delta' in d else []))
    if len(d) != n or ('delta' in d) != bool(has) or not cm.allclose(impl, out[1:1 + 3 * n] + out[2 + 3 * n:], 1e-14, 1e-300):
        ctx.disagree('gobj:data', f'{what}: stored data differ from the model object (rows {len(d)} vs {n}, delta {"delta" in d} vs {bool(has)})', rep)
        return False
    # the model generated from the CURRENT state, in other units
    lu, eu = UNITS_L[(n + len(spec['tag'])) % 3], UNITS_E[n % 3]
    m2 = call(g.model, length_unit=lu, energyperarea_unit=eu)
    out = cm.unfrs(ctx.driver.ask(f'gmodel {cm.fr(uc.set_in_units(1.0, eu))} {cm.fr(uc.set_in_units(1.0, lu))}'))
    ctx.stats.case('gobj:model', (spec['tag'], lu, eu, tuple(spec['E'][:4])))
    if isinstance(m2, Raised):
        ctx.disagree('gobj:model', f'{what}: model(length_unit={lu!r}, energyperarea_unit={eu!r}) {m2}', rep)
        return False
    sfm = m2['stacking-fault-map']
    rel = sfm['stacking-fault-relation']
    impl = np.concatenate([np.ravel(rel['shift-vector-1-fraction']), np.ravel(rel['shift-vector-2-fraction']), np.ravel(rel['energy']['value'])]
                          + ([np.ravel(rel['plane-separation']['value'])] if 'plane-separation' in rel else []))
    okm = (rel['energy']['unit'] == eu and ('plane-separation' not in rel or rel['plane-separation']['unit'] == lu)
           and ('plane-separation' in rel) == bool(has) and cm.allclose(impl, out[1:1 + 3 * n] + out[2 + 3 * n:], 1e-13, 1e-300)
           and np.allclose(np.array([sfm['box']['avect'], sfm['box']['bvect'], sfm['box']['cvect']], dtype=float), g.box.vects, rtol=1e-13, atol=1e-13)
           and np.allclose(np.array(sfm['shift-vector-1'], dtype=float), g.a1vect) and np.allclose(np.array(sfm['shift-vector-2'], dtype=float), g.a2vect))
    if not okm:
        ctx.disagree('gobj:model', f'{what}: model(length_unit={lu!r}, energyperarea_unit={eu!r}) of the object differs from that of the model object', rep)
    return True


def _gseq_case(ctx, rng, specs, hows):
    """ONE real GammaSurface and ONE model object: query (every query form) -> reload -> query again."""
    import atomman as am
    np = _np()
    uc = am.unitconvert
    rep = {'op': 'gseq', 'specs': specs, 'hows': hows}
    g = None
    for k, spec in enumerate(specs):
        how = {'kind': 'new'} if k == 0 else hows[k - 1]
        if k == 0:
            g = call(mk_gamma, spec)
            r = g
        else:
            r = call(reload_gamma, g, spec, how)
        if isinstance(r, Raised):
            ctx.disagree('gobj:raises', f'{how} of {spec["tag"]} {spec["n1"]}x{spec["n2"]}: {r}', rep)
            return
        if k > 0 and how['kind'] == 'model':
            rel = r['stacking-fault-map']['stacking-fault-relation']
            sfm = r['stacking-fault-map']
            line = (f'gload {cm.fr(uc.set_in_units(1.0, how["eu"]))} {cm.fr(uc.set_in_units(1.0, how["lu"]))} '
                    + _rec_wire(ctx, [sfm['box']['avect'], sfm['box']['bvect'], sfm['box']['cvect']], sfm['shift-vector-1'], sfm['shift-vector-2'],
                                np.ravel(rel['shift-vector-1-fraction']), np.ravel(rel['shift-vector-2-fraction']), np.ravel(rel['energy']['value']),
                                np.ravel(rel['plane-separation']['value']) if 'plane-separation' in rel else None))
        else:
            line = 'gset ' + _rec_wire(ctx, spec['box'], spec['a1vect'], spec['a2vect'], spec['a1'], spec['a2'], spec['E'], spec['delta'])
        out = ctx.driver.ask(line)
        if out != 'ok':
            ctx.disagree('gobj:driver', f'model object refused {how}: {out}', rep)
            return
        exact_e = how['kind'] != 'model'
        if not _gobj_state_case(ctx, spec, g, rep, how, r if k > 0 else None):
            return
        cs = guarded(ctx, 'gobj:fit', rep, _fit_case, ctx, spec, g, 'E', True, exact_e)
        has = call(g.delta, a1=0.125, a2=0.375)
        if isinstance(has, Raised) != (spec['delta'] is None):
            ctx.disagree('gobj:delta', f'after {how}: delta() {has if isinstance(has, Raised) else "answers"} although the data now '
                         f'{"have no" if spec["delta"] is None else "have"} plane-separation values', rep)
        if spec['delta'] is not None:
            guarded(ctx, 'gobj:fit', rep, _fit_case, ctx, spec, g, 'delta', True, exact_e)
        if cs is None:
            return
        rec, recd = spy(g)
        qs = gen_queries(rng, spec, ctx.n(6, 16), F(cs[0]), F(cs[1]))
        guarded(ctx, 'gobj:egsf', rep, _egsf_case, ctx, spec, g, rec, cs, qs, 'a12', 'default', True)
        guarded(ctx, 'gobj:egsf:pos', rep, _egsf_case, ctx, spec, g, rec, cs, qs, 'pos', 'default', True)
        guarded(ctx, 'gobj:egsf:xy', rep, _egsf_case, ctx, spec, g, rec, cs, qs, 'xy', rng.choice(['default', 'a2', 'mix']), True)
        guarded(ctx, 'gobj:egsf:vects', rep, _egsf_case, ctx, spec, g, rec, cs, qs, 'vects', rng.choice(['sum', 'swap', 'shear', 'a1only']), True)
        guarded(ctx, 'gobj:egsf:posvec', rep, _egsf_case, ctx, spec, g, rec, cs, qs, rng.choice(['posvec', 'xyvec']), rng.choice(['sum', 'swap', 'shear', 'a1only']), True)
        if recd is not None and spec['delta'] is not None:
            guarded(ctx, 'gobj:delta', rep, _delta_case, ctx, spec, g, recd, gen_queries(rng, spec, ctx.n(6, 16), F(0), F(0)))
        rn, rnd = spy_nearest(g)
        guarded(ctx, 'gobj:nearest', rep, _nearest_case, ctx, spec, g, rn, gen_queries(rng, spec, ctx.n(5, 12), F(0), F(0)))
        guarded(ctx, 'gobj:conv', rep, _conv_case, ctx, spec, g, rng, True)


# -- SDVPN ---------------------------------------------------------------------------------

SYSTEMS = ['iso-edge', 'iso-screw', 'iso-mixed-rot', 'cubic-edge', 'cubic-mixed-fcc', 'cubic-yz', 'hex-basal-edge']


def mk_volterra(name, LU=1.0, PU=1.0):
    """(volterra solution, shift-vector setting) of a named configuration (deterministic).  `LU`, `PU`: magnitude of
    one angstrom / one eV/angstrom^3 in the numbers to use (the iso-* systems only: lengths x LU, moduli x PU)."""
    import atomman as am
    np = _np()
    if (LU, PU) != (1.0, 1.0):
        C = am.ElasticConstants(E=1.2 * PU, nu=0.3)
        if name == 'iso-edge':
            return (am.defect.solve_volterra_dislocation(C, burgers=[2.5 * LU, 0, 0], transform=np.eye(3)),
                    ([2.5 * LU, 0.0, 0.0], [0.0, 0.0, 4.0 * LU], None, 'rect-xz'))
        if name == 'iso-screw':
            return (am.defect.solve_volterra_dislocation(C, burgers=[0, 0, 3.0 * LU], transform=np.eye(3)),
                    ([0.0, 0.0, 3.0 * LU], [2.0 * LU, 0.0, 0.0], None, 'rect-zx'))
        if name == 'iso-mixed-rot':
            T = np.array([[0.8, 0.0, 0.6], [0.0, 1.0, 0.0], [-0.6, 0.0, 0.8]])
            return (am.defect.solve_volterra_dislocation(C, burgers=[2.0 * LU, 0, 0], transform=T),
                    ([2.0 * LU, 0.0, 0.0], [0.5 * LU, 0.0, 3.0 * LU], None, 'oblique-xz'))
        raise ValueError(name)
    if name.startswith('iso'):
        C = am.ElasticConstants(E=1.2, nu=0.3)
    elif name.startswith('hex'):
        C = am.ElasticConstants(C11=1.6, C12=0.9, C13=0.6, C33=1.8, C44=0.45)
    else:
        C = am.ElasticConstants(C11=1.6, C12=1.0, C44=0.7)
    if name == 'iso-edge' or name == 'cubic-edge':
        v = am.defect.solve_volterra_dislocation(C, burgers=[2.5, 0, 0], transform=np.eye(3))
        vects = ([2.5, 0.0, 0.0], [0.0, 0.0, 4.0], None, 'rect-xz')
    elif name == 'iso-screw':
        v = am.defect.solve_volterra_dislocation(C, burgers=[0, 0, 3.0], transform=np.eye(3))
        vects = ([0.0, 0.0, 3.0], [2.0, 0.0, 0.0], None, 'rect-zx')
    elif name == 'iso-mixed-rot':
        # dislocation frame rotated about y by a 3-4-5 angle
        T = np.array([[0.8, 0.0, 0.6], [0.0, 1.0, 0.0], [-0.6, 0.0, 0.8]])
        v = am.defect.solve_volterra_dislocation(C, burgers=[2.0, 0, 0], transform=T)
        vects = ([2.0, 0.0, 0.0], [0.5, 0.0, 3.0], None, 'oblique-xz')
    elif name == 'cubic-mixed-fcc':
        box = am.Box.cubic(a=4.0)
        v = am.defect.solve_volterra_dislocation(C, burgers=[0.5, 0.0, -0.5], ξ_uvw=[1, -1, 0], slip_hkl=[1, 1, 1], box=box)
        vects = ([0.5, 0.0, -0.5], [0.5, -1.0, 0.5], [[4.0, 0.0, 0.0], [0.0, 4.0, 0.0], [0.0, 0.0, 4.0]], 'fcc111')
    elif name == 'cubic-yz':
        # m = y, n = z, line along x
        v = am.defect.solve_volterra_dislocation(C, burgers=[0, 2.0, 0], transform=np.eye(3), m=[0, 1, 0], n=[0, 0, 1])
        vects = ([0.0, 2.0, 0.0], [1.5, 0.5, 0.0], None, 'oblique-xy')
    elif name == 'hex-basal-edge':
        # hexagonal cell (vects not symmetric), basal slip, a-type Burgers vector, line along [120]
        hb = [[3.0, 0.0, 0.0], [-1.5, 2.598076211353316, 0.0], [0.0, 0.0, 5.0]]
        box = am.Box(avect=hb[0], bvect=hb[1], cvect=hb[2])
        v = am.defect.solve_volterra_dislocation(C, burgers=[1, 0, 0], ξ_uvw=[1, 2, 0], slip_hkl=[0, 0, 1], box=box)
        vects = ([1.0, 0.0, 0.0], [0.0, 1.0, 0.0], hb, 'hex-basal')
    else:
        raise ValueError(name)
    return v, vects


def mk_system(name, rng=None, sinus=0.05, grid=(8, 3)):
    """(volterra, gamma spec) for a named configuration."""
    v, vects = mk_volterra(name)
    rngl = rng or random.Random(0)
    spec = gen_gamma_spec(rngl, regime='generic', vects=vects, grid=grid, dup=False, delta=False, sinus=sinus)
    return v, spec


def gen_profile(rng, pn, n=None, dyadic=False):
    """uniform grid and a random disregistry (y component zero)."""
    np = _np()
    n = n or rng.randint(5, 12)
    dx = rng.choice([0.25, 0.5, 0.125]) if dyadic else rng.choice([0.2, 0.3, 0.45, 0.1])
    x0 = -dx * (n - 1) / 2 + (rng.choice([0.0, 0.5, -1.25]) if rng.random() < 0.4 else 0.0)
    x = np.array([x0 + i * dx for i in range(n)]) if dyadic else np.linspace(x0, x0 + dx * (n - 1), n)
    b = pn.burgers
    t = np.linspace(0, 1, n)
    d = np.outer(t ** rng.choice([1, 2]), b)
    for i in range(n):
        d[i, 0] += cm.dyadic(rng, -0.5, 0.5, 4) if dyadic else rng.uniform(-0.4, 0.4)
        d[i, 2] += cm.dyadic(rng, -0.5, 0.5, 4) if dyadic else rng.uniform(-0.4, 0.4)
    d[:, 1] = 0.0
    return x, d


def _gen_tau(rng):
    """the applied stress: ANY 3 x 3 array ("all stress settings"; the setter takes every 3 x 3 array and the documented
    terms read the second ROW tau_2l only).  Drawn as a general NON-symmetric matrix whose second row differs from its
    second column in both off-diagonal places (so that a row / column or an index slip shows for every flag
    combination); one case in five is symmetrised."""
    np = _np()
    while True:
        tau = np.array([[cm.dyadic(rng, -1, 1, 5) * 0.05 for _ in range(3)] for _ in range(3)])
        if rng.random() < 0.2:
            tau = (tau + tau.T) / 2
            if not any(tau[1]):
                tau[1, 0] = tau[0, 1] = 0.0125
            return tau
        if tau[1, 0] != tau[0, 1] and tau[1, 2] != tau[2, 1] and tau[1, 0] != 0.0 and tau[1, 2] != 0.0:
            return tau


def gen_settings(rng, pn, symmetric_beta=False):
    np = _np()
    tau = _gen_tau(rng)
    beta = np.array([[cm.dyadic(rng, -1, 1, 4) * 0.3 for _ in range(3)] for _ in range(3)])
    if symmetric_beta:
        beta = (beta + beta.T) / 2
    k = rng.choice([1, 1, 2, 3])
    alpha = [cm.dyadic(rng, -1, 1, 4) * 0.2 for _ in range(k)]
    pn.tau = tau
    pn.beta = beta
    pn.alpha = alpha if rng.random() < 0.8 else alpha[0]
    pn.cutofflongrange = rng.choice([1000.0, 50.0, 2.5, 1.0, 0.5])
    pn.fullstress = rng.random() < 0.6
    pn.cdiffelastic = rng.random() < 0.5
    pn.cdiffsurface = rng.random() < 0.5
    pn.cdiffstress = rng.random() < 0.5
    return {'tau': tau.tolist(), 'beta': beta.tolist(), 'alpha': list(pn.alpha), 'cutoff': pn.cutofflongrange,
            'fullstress': pn.fullstress, 'cdiffelastic': pn.cdiffelastic, 'cdiffsurface': pn.cdiffsurface,
            'cdiffstress': pn.cdiffstress}


def _b(v):
    return '1' if v else '0'


def fcross(a, b):
    return [a[1] * b[2] - a[2] * b[1], a[2] * b[0] - a[0] * b[2], a[0] * b[1] - a[1] * b[0]]


def fdot(a, b):
    return sum(x * y for x, y in zip(a, b))


def exact_a12(A1, A2, pos):
    """exact (Fraction) solution of pos = a1 A1 + a2 A2 + a3 (A1 x A2)."""
    A1 = [F(float(v)) for v in A1]
    A2 = [F(float(v)) for v in A2]
    p = [F(v) if isinstance(v, Fraction) else F(float(v)) for v in pos]
    A3 = fcross(A1, A2)
    det = fdot(A1, fcross(A2, A3))
    return (fdot(p, fcross(A2, A3)) / det, fdot(p, fcross(A3, A1)) / det, fdot(p, fcross(A1, A2)) / det)


def misfit_exempt(pn, spec, cs, d):
    """a row of the profile maps within 1e-9 of the wrap boundary (float and exact wrap may differ by 1)."""
    A1, A2, _ = cart_vects(spec)
    T = [[F(float(v)) for v in row] for row in pn.transform]
    for row in d:
        dr = [F(float(row[0])), F(0), F(float(row[2]))]
        pos = [sum(dr[l] * T[l][k] for l in range(3)) for k in range(3)]
        a = exact_a12(A1, A2, pos)
        for q, c in ((a[0], cs[0]), (a[1], cs[1])):
            t = q + F(c)
            if abs(t - round(t)) < F(1, 10 ** 9):
                return True
    return False


def model_terms(ctx, pn, rec, cs, spec, x, d):
    """ask the driver for every energy term of the current settings.  Returns dict name -> Fraction | 'err:..'."""
    np = _np()
    n = len(x)
    xs, ds = cm.frs(x), cm.frs(d)
    pi = cm.fr(np.pi)
    Kt = cm.frs(pn.K_tensor)
    dx = x[1] - x[0]
    res = {}
    nrho = n - (2 if pn.cdiffelastic else 1)
    logs = [float(np.log(np.abs(k) * dx)) for k in range(1, nrho + 1)]
    lines = {
        'elastic': f'elastic {_b(pn.cdiffelastic)} {pi} {n} {xs} {ds} {Kt} ' + cm.frs(logs),
        'longrange': f'long {pi} {cm.fr(float(np.log(pn.cutofflongrange)))} {cm.frs(pn.burgers)} {Kt}',
        'stress': f'stressT {_b(pn.fullstress)} {_b(pn.cdiffstress)} {n} {xs} {ds} ' + cm.frs(np.asarray(pn.tau, dtype=float)),     # the whole array: the model picks the row
        'surface': f'surface {_b(pn.cdiffsurface)} {n} {xs} {ds} ' + cm.frs(pn.beta),
        'nonlocal': f'nonlocal {n} {xs} {ds} {len(pn.alpha)} ' + cm.frs(list(pn.alpha)),
    }
    # misfit: the interpolant values the implementation used are the table of f
    rec.calls.clear()
    impl_misfit = float(pn.misfit_energy(x, d))
    A1, A2, _ = cart_vects(spec)
    if len(rec.calls) == 4:
        rows = []
        for i in range(n):
            rows += [d[i, 0], d[i, 2]] + [rec.calls[k][1][i] for k in range(4)]
        lines['misfit'] = (f'misfit {cm.frs(pn.transform)} {cm.frs(A1)} {cm.frs(A2)} {cs[0]} {cs[1]} {n} {xs} '
                           + cm.frs(rows))
    names = list(lines)
    outs = ctx.driver.ask_many([lines[k] for k in names])
    for k, o in zip(names, outs):
        res[k] = o if o.startswith('err:') else Fraction(o)
    return res, impl_misfit, lines


def _sdvpn_case(ctx, name, pn, rec, cs, spec, rng, dyadic):
    np = _np()
    x, d = gen_profile(rng, pn, dyadic=dyadic)
    st = gen_settings(rng, pn)
    rep = {'op': 'sdvpn', 'system': name, 'x': x.tolist(), 'disregistry': d.tolist(), 'settings': st}
    n = len(x)
    # dislocation density
    xnu = np.cumsum([cm.dyadic(rng, 0.125, 1.5, 3) for _ in range(n)]) - 2.0     # NON-uniform grid (explicit arguments only)
    for cd in (False, True):
        for xx in (x, xnu):
            r = call(pn.disldensity, xx, d, cdiff=cd)
            out = ctx.driver.ask(f'dens {_b(cd)} {n} {cm.frs(xx)} {cm.frs(d)}')
            ctx.stats.case('disldensity', (name, cd, tuple(xx), tuple(d.ravel())))
            wantx = xx[1:-1] if cd else xx[1:]
            if isinstance(r, Raised) or out.startswith('err:') or not cm.allclose(np.ravel(r[1]), cm.unfrs(out), 1e-11, 1e-12) \
                    or not np.array_equal(np.asarray(r[0]), wantx):
                ctx.disagree('disldensity', f'disldensity(cdiff={cd}) differs ({name}, n={n}, {"uniform" if xx is x else "non-uniform"} grid): '
                             f'{r if isinstance(r, Raised) else ""}', dict(rep, x=xx.tolist()))
    terms, impl_misfit, lines = model_terms(ctx, pn, rec, cs, spec, x, d)
    rho_scale = float(np.abs(pn.disldensity(x, d)[1]).max()) + 1e-30
    kmax = float(np.abs(pn.K_tensor).max())
    dx = x[1] - x[0]
    lscale = max(abs(math.log(dx)), abs(math.log(n * dx)), 1.5)
    tol = {'elastic': 1e-9 * n * n * dx * dx * lscale * kmax * rho_scale ** 2 * n,
           'longrange': 1e-12, 'stress': 1e-10, 'surface': 1e-10, 'nonlocal': 1e-10,
           'misfit': 1e-9 * max(1.0, max(abs(v) for v in spec['E'])) * n * abs(dx)}
    impl = {'elastic': pn.elastic_energy(x, d), 'longrange': pn.longrange_energy(),
            'stress': pn.stress_energy(x, d), 'surface': pn.surface_energy(x, d),
            'nonlocal': pn.nonlocal_energy(x, d), 'misfit': impl_misfit}
    total_model = F(0)
    complete = True
    mex = misfit_exempt(pn, spec, cs, d)
    for k in ('misfit', 'elastic', 'longrange', 'stress', 'nonlocal', 'surface'):
        if k == 'misfit' and mex:
            ctx.stats.case('term:misfit:boundary-exempt', (name, tuple(d.ravel())), nontrivial=False)
            complete = False
            continue
        ctx.stats.case('term:' + k, (name, lines.get(k, '')[:2000]),
                       sample={'op': k + '_energy', 'system': name, 'n': n, 'settings': {kk: st[kk] for kk in ('fullstress', 'cdiffelastic', 'cdiffsurface', 'cdiffstress')}})
        if k not in terms:
            ctx.disagree('misfit:calls', 'misfit_energy did not make 4 interpolant calls', rep)
            complete = False
            continue
        if isinstance(terms[k], str):
            ctx.disagree(f'{k}:driver-error', f'model refused {k}: {terms[k]}', rep)
            complete = False
            continue
        total_model += terms[k]
        if not cm.close(float(impl[k]), terms[k], 1e-9, tol[k]):
            ctx.disagree(k, f'{k}_energy = {float(impl[k])!r}, model {float(terms[k])!r} ({name}, n={n}, {st})',
                         dict(rep, term=k))
    if complete:
        tot = float(pn.total_energy(x, d))
        ctx.stats.case('term:total', (name, tuple(x), tuple(d.ravel()), str(st)))
        if not cm.close(tot, total_model, 1e-9, sum(tol.values())):
            ctx.disagree('total', f'total_energy = {tot!r}, sum of the model terms {float(total_model)!r}', rep)


class _FakeMin:
    """stands in for scipy.optimize.minimize: returns an arbitrary vector of the right length."""

    def __init__(self, rng):
        self.rng = rng
        self.x0 = None
        self.args = None
        self.out = None

    def __call__(self, fun, x0, args=(), method=None, options=None, **kw):
        np = _np()
        from scipy.optimize import OptimizeResult
        self.x0 = np.array(x0, dtype=float).copy()
        self.args = args
        self.out = np.array([cm.dyadic(self.rng, -4, 4, 4) for _ in range(len(x0))])
        fun(self.out, *args)       # the objective must accept it
        return OptimizeResult(x=self.out, success=True, nfev=1)


def _solve_embed_case(ctx, name, pn, rng):
    """solve() with the minimiser replaced by an arbitrary-output stub: decompose/recompose vs the model."""
    np = _np()
    mod = sys.modules['atomman.defect.SDVPN']
    x, d = gen_profile(rng, pn, dyadic=True)
    d[0, 1] = 0.0
    fake = _FakeMin(rng)
    orig = mod.minimize
    mod.minimize = fake
    rep = {'op': 'solve-embed', 'system': name, 'x': x.tolist(), 'disregistry': d.tolist()}
    try:
        pn.solve(x=x, disregistry=d.copy())
    except Exception as e:  # noqa
        ctx.disagree('solve:raises', f'solve with a stub minimiser raised {type(e).__name__}: {e}', rep)
        return
    finally:
        mod.minimize = orig
    n = len(x)
    out0 = ctx.driver.ask(f'decompose {n} ' + cm.frs(d))
    out1 = ctx.driver.ask(f'recompose {len(fake.out)} {cm.frs(fake.out)} {cm.frs(d[0])} {cm.frs(d[-1])}')
    ctx.stats.case('solve-embed', (name, tuple(x), tuple(d.ravel()), tuple(fake.out)),
                   sample={'op': 'solve(stub minimiser)', 'system': name, 'n': n})
    if out0.startswith('err:') or [F(float(v)) for v in fake.x0] != cm.unfrs(out0):
        ctx.disagree('solve:decompose', f'optimisation vector differs: implementation length {len(fake.x0)}, '
                     f'model {out0[:80]}', rep)
        return
    got = np.asarray(pn.disregistry)
    if out1.startswith('err:') or got.shape != (n, 3) or [F(float(v)) for v in got.ravel()] != cm.unfrs(out1):
        ctx.disagree('solve:recompose', 'disregistry stored by solve is not the optimiser output embedded between '
                     'the fixed end rows', dict(rep, res=fake.out.tolist(), got=got.tolist()))


def _arctan_case(ctx, rng):
    np = _np()
    import atomman as am
    n = rng.randint(3, 12)
    hw = rng.choice([1.0, 0.5, 2.0, 0.3, 1.7])
    center = rng.choice([0.0, 0.0, 0.25, -1.0])
    b = rng.choice([[1.0, 0.0, 0.0], [2.5, 0.0, 0.0], [0.0, 0.0, 3.0], [1.5, 0.0, -2.0], [0.5, 0.25, 1.0]])
    normalize = rng.random() < 0.6
    shift = rng.random() < 0.6
    mode = rng.choice(['x', 'xmax-xnum', 'xstep-xnum', 'xmax-xstep'])
    dx = rng.choice([0.25, 0.5, 0.1, 0.3])
    xmax = dx * (n - 1) / 2
    kw = {'x': {'x': np.linspace(-xmax + 0.3, xmax + 0.3, n)}, 'xmax-xnum': {'xmax': xmax, 'xnum': n},
          'xstep-xnum': {'xstep': dx, 'xnum': n}, 'xmax-xstep': {'xmax': xmax, 'xstep': dx}}[mode]
    rep = {'op': 'arctan', 'kw': {k: (v.tolist() if hasattr(v, 'tolist') else v) for k, v in kw.items()},
           'burgers': b, 'center': center, 'halfwidth': hw, 'normalize': normalize, 'shift': shift}
    try:
        x, d = am.defect.pn_arctan_disregistry(burgers=b, center=center, halfwidth=hw, normalize=normalize,
                                                shift=shift, **kw)
        x2, rho = am.defect.pn_arctan_disldensity(burgers=b, center=center, halfwidth=hw, normalize=normalize, **kw)
    except Exception as e:  # noqa
        ctx.disagree('arctan:raises', f'pn_arctan_* raised {type(e).__name__}: {e}', rep)
        return
    bb = np.asarray(b)
    at = np.arctan((x - center) / hw)
    raw = np.outer(at, bb / np.pi) + bb / 2
    normB = float(np.linalg.norm(bb))
    normLast = float(np.linalg.norm((raw - raw[0])[-1]))
    normInt = float(np.linalg.norm(raw[-1] - raw[0]))
    if len(x) != n or not np.array_equal(x, x2):
        ctx.disagree('arctan:x', f'x grid has {len(x)} points, expected {n}', rep)
        return
    line = (f'arctan {n} {cm.frs(x)} {cm.frs(at)} {cm.fr(np.pi)} {cm.frs(bb)} {cm.fr(center)} {cm.fr(hw)} '
            f'{_b(normalize)} {_b(shift)} {cm.fr(normB)} {cm.fr(normLast)}')
    out = ctx.driver.ask(line)
    ctx.stats.case('arctan', line, sample=rep)
    if out.startswith('err:') or not cm.allclose(d.ravel(), cm.unfrs(out), 1e-11, 1e-13):
        ctx.disagree('pn_arctan_disregistry', f'profile differs from the model ({rep})', rep)
    line = (f'arctandens {n} {cm.frs(x)} {cm.fr(np.pi)} {cm.frs(bb)} {cm.fr(center)} {cm.fr(hw)} '
            f'{_b(normalize)} {cm.fr(normB)} {cm.fr(normInt)}')
    out = ctx.driver.ask(line)
    ctx.stats.case('arctandens', line)
    if out.startswith('err:') or not cm.allclose(rho.ravel(), cm.unfrs(out), 1e-11, 1e-13):
        ctx.disagree('pn_arctan_disldensity', f'density differs from the model ({rep})', rep)


# -- the SDVPN object under edit sequences (setters, solve(**kwargs), load) ---------------------

FLAGS = ('fullstress', 'cdiffelastic', 'cdiffsurface', 'cdiffstress')
WIRE = {'tau': 'tau', 'alpha': 'alpha', 'beta': 'beta', 'cutofflongrange': 'logL', 'fullstress': 'full',
        'cdiffelastic': 'cde', 'cdiffsurface': 'cds', 'cdiffstress': 'cdt'}


def rand_settings(rng, flags=None, physical=False):
    """a JSON-able settings record (what is SET on an object; the oracle and the model never read it back).
    `physical`: alpha, beta >= 0 and a small stress, so that the total energy is bounded below (a real minimiser run
    on an unbounded energy walks off to disregistries of 1e8 b, where the O(|a|) wrap loop of E_gsf never ends)."""
    np = _np()
    tau = _gen_tau(rng)
    beta = [[cm.dyadic(rng, -1, 1, 4) * 0.3 for _ in range(3)] for _ in range(3)]
    k = rng.choice([1, 1, 2, 3])
    alpha = [cm.dyadic(rng, -1, 1, 4) * 0.2 for _ in range(k)]
    fl = flags if flags is not None else [rng.random() < 0.5 for _ in range(4)]
    if physical:
        beta = [[abs(t) / 4 for t in r] for r in beta]
        alpha = [abs(t) / 4 for t in alpha]
        tau = tau / 4
    st = {'tau': tau.tolist(), 'beta': beta, 'alpha': alpha,
          'cutofflongrange': rng.choice([1000.0, 250.0, 50.0, 37.5, 2.5, 1.0, 0.5])}
    st.update(dict(zip(FLAGS, [bool(v) for v in fl])))
    return st


def new_pn(v, g, st):
    import atomman as am
    np = _np()
    return am.defect.SDVPN(volterra=v, gamma=g, tau=np.array(st['tau']), alpha=list(st['alpha']),
                           beta=np.array(st['beta']), cutofflongrange=st['cutofflongrange'],
                           fullstress=st['fullstress'], cdiffelastic=st['cdiffelastic'],
                           cdiffsurface=st['cdiffsurface'], cdiffstress=st['cdiffstress'])


def _val_wire(attr, value):
    np = _np()
    if attr == 'tau':
        return cm.frs(np.array(value)[1, :])
    if attr == 'alpha':
        return f'{len(value)} ' + cm.frs(list(value))
    if attr == 'beta':
        return cm.frs(np.array(value))
    if attr == 'cutofflongrange':
        return cm.fr(float(np.log(value)))
    return _b(value)


def settings_wire(K, b, T, st):
    np = _np()
    return ' '.join([cm.frs(K), cm.frs(b), cm.frs(T), cm.fr(np.pi)] + [_val_wire(a, st[a]) for a in
                    ('tau', 'alpha', 'beta', 'cutofflongrange') + FLAGS])


def rand_op(rng, st, n):
    """one edit of an SDVPN object: a property setter, `solve(**kwargs)` or `load`."""
    k = rng.random()
    fresh = rand_settings(rng)
    if k < 0.5:
        attr = rng.choice(['cutofflongrange', 'cutofflongrange', 'tau', 'alpha', 'beta'] + list(FLAGS))
        val = (not st[attr]) if attr in FLAGS else fresh[attr]
        return {'kind': 'set', 'attr': attr, 'value': val}
    if k < 0.8:
        names = rng.sample(['cutofflongrange', 'tau', 'alpha', 'beta'] + list(FLAGS), rng.randint(0, 3))
        if rng.random() < 0.5 and 'cutofflongrange' not in names:
            names.append('cutofflongrange')
        return {'kind': 'solve', 'kw': {a: ((not st[a]) if a in FLAGS else fresh[a]) for a in names},
                'newprofile': rng.random() < 0.5}
    return {'kind': 'load', 'settings': fresh, 'form': rng.choice(['dm', 'json', 'xml']),
            'units': [rng.choice(['Å', 'nm', 'pm']), rng.choice(['GPa', 'MPa', 'eV/Å^3'])]}


def alt_profile(x, d):
    """another grid / another disregistry with as many rows as the given ones (deterministic; uniform grid, y = 0)."""
    np = _np()
    x, d = np.asarray(x, dtype=float), np.asarray(d, dtype=float)
    x2 = x * 1.5 + 0.25
    i = np.arange(len(d), dtype=float)
    d2 = d * 0.75
    d2[:, 0] += 0.125 * i
    d2[:, 2] -= 0.0625 * i * ((-1.0) ** i)
    d2[:, 1] = 0.0
    return x2, d2


MODES = ('both', 'none', 'x', 'd')


def mode_args(mode, x, d, stored):
    """(kwargs of the call, effective x, effective disregistry) for a subset of the optional arguments:
    'both' = (x, d) given; 'none' = stored profile; 'x' = another grid only (stored disregistry); 'd' = another
    disregistry only (stored grid)."""
    if mode == 'both':
        return {'x': x, 'disregistry': d}, x, d
    sx, sd = stored
    if mode == 'none':
        return {}, sx, sd
    x2, d2 = alt_profile(sx, sd)
    if mode == 'x':
        return {'x': x2}, x2, sd
    return {'disregistry': d2}, sx, d2


def _eval_obj(ctx, name, pn, x, d, mode, rep, step, stored=None, gam=None):
    """the energy-term METHOD CALLS of the real object vs `Obj.call` of the model object, now, for one subset of
    the optional arguments; `gam` = (Rbf recorder, cushions, gamma spec) adds the misfit term."""
    np = _np()
    if mode is True or mode is False:
        mode = 'both' if mode else 'none'
    if mode != 'both' and stored is None:
        return
    kw, x, d = mode_args(mode, np.asarray(x), np.asarray(d), stored)
    x, d = np.asarray(x, dtype=float), np.asarray(d, dtype=float)
    n = len(x)
    prof = ' '.join(['1 ' + f'{n} {cm.frs(x)}' if 'x' in kw else '0', '1 ' + f'{n} {cm.frs(d)}' if 'disregistry' in kw else '0'])
    cde = pn.cdiffelastic
    dx = x[1] - x[0]
    nrho = n - (2 if cde else 1)
    logs = [float(np.log(np.abs(k) * dx)) for k in range(1, nrho + 1)]
    names = ['long', 'stress', 'surface', 'nonlocal', 'elastic']
    lines = [f'ocall {t} {prof}' + (' ' + cm.frs(logs) if t == 'elastic' else '') for t in names]
    impl = {'long': call(pn.longrange_energy), 'stress': call(pn.stress_energy, **kw),
            'surface': call(pn.surface_energy, **kw), 'nonlocal': call(pn.nonlocal_energy, **kw),
            'elastic': call(pn.elastic_energy, **kw)}
    rho_scale = float(np.abs(np.diff(np.asarray(d), axis=0)).max() / abs(dx)) + 1e-30
    kmax = float(np.abs(pn.K_tensor).max())
    lscale = max(abs(math.log(dx)), abs(math.log(n * dx)), 1.5)
    tol = {'elastic': 1e-9 * n ** 3 * dx * dx * lscale * kmax * rho_scale ** 2, 'long': 1e-11, 'stress': 1e-10,
           'surface': 1e-10, 'nonlocal': 1e-10}
    if gam is not None:
        rec, cs, spec = gam
        rec.calls.clear()
        impl['misfit'] = call(pn.misfit_energy, **kw)
        if len(rec.calls) == 4 and len(rec.calls[0][1]) == n and not misfit_exempt(pn, spec, cs, d):
            A1, A2, _ = cart_vects(spec)
            rows = [rec.calls[k][1][i] for i in range(n) for k in range(4)]
            names.append('misfit')
            lines.append(f'ocall misfit {prof} {cm.frs(A1)} {cm.frs(A2)} {cs[0]} {cs[1]} {n} ' + cm.frs(rows))
            tol['misfit'] = 1e-9 * max(1.0, max(abs(v) for v in spec['E'])) * n * abs(dx)
        elif isinstance(impl['misfit'], Raised) or len(rec.calls) != 4 or len(rec.calls[0][1]) != n:
            ctx.disagree('obj:misfit', f'misfit_energy({sorted(kw)}) after step {step}: {impl["misfit"] if isinstance(impl["misfit"], Raised) else "interpolant asked for " + str(len(rec.calls[0][1]) if rec.calls else 0) + " points, effective profile has " + str(n)}',
                         dict(rep, step=step, term='misfit', mode=mode))
    outs = ctx.driver.ask_many(lines)
    what = f'({", ".join(k + "=" for k in kw)})'
    for t, o in zip(names, outs):
        ctx.stats.case('obj:' + t, (name, step, mode, prof[:400], o[:60]),
                       sample={'op': f'{t}_energy{what} after edit sequence', 'system': name, 'step': step, 'arguments': mode})
        if isinstance(impl[t], Raised) or o.startswith('err:'):
            ctx.disagree('obj:' + t, f'{t}_energy{what} after step {step} ({rep["ops"][step - 1] if step else "fresh"}): '
                         f'implementation {impl[t]}, model {o[:60]}', dict(rep, step=step, term=t, mode=mode))
        elif not cm.close(float(impl[t]), Fraction(o), 1e-9, tol[t]):
            ctx.disagree('obj:' + t, f'{t}_energy{what} after step {step} ({rep["ops"][step - 1] if step else "fresh object"}) = '
                         f'{float(impl[t])!r}, model object {float(Fraction(o))!r} ({name}; arguments given: {mode})', dict(rep, step=step, term=t, mode=mode))
    # disldensity(x=, disregistry=, cdiff=) with the same subset: coordinates and density
    for cd in (False, True):
        r = call(pn.disldensity, cdiff=cd, **kw)
        o = ctx.driver.ask(f'ocall dens {prof} {_b(cd)}')
        ctx.stats.case('obj:dens', (name, step, mode, cd, prof[:400]))
        if isinstance(r, Raised) or o.startswith('err:'):
            ctx.disagree('obj:dens', f'disldensity{what} cdiff={cd} after step {step}: implementation {r}, model {o[:60]}', dict(rep, step=step, mode=mode))
            continue
        mv = cm.unfrs(o)
        k = int(mv[0])
        if np.shape(r[0]) != (k,) or np.shape(r[1]) != (k, 3) or not cm.allclose(r[0], mv[1:1 + k], 1e-12, 1e-13) \
                or not cm.allclose(np.ravel(r[1]), mv[1 + k:], 1e-11, 1e-12):
            ctx.disagree('obj:dens', f'disldensity{what} cdiff={cd} after step {step}: coordinates / density differ from the model object '
                         f'({name}; arguments given: {mode})', dict(rep, step=step, mode=mode))


# ---- refusals of the profile setters and of solve(): which inputs raise, at which statement, what is stored then
REFUSAL_OF = {'xAssert': ('err:assert', 'x values must'), 'xIndex': ('err:raised', 'IndexError'), 'dAssert': ('err:assert', 'out-of-plane'),
              'dValue': ('err:value', 'zero-size'), 'lengths': ('err:value', 'not of the same length')}


def gen_x_variant(rng, n=None):
    """(kind, x) — grids the x setter accepts (uniform dyadic / decimal, one point moved by 1e-7 … 1e-6 of the step, any origin
    and scale) or refuses (a point moved by 1e-4 … 0.3 of the step, decreasing, repeated points, fewer than two points)."""
    np = _np()
    n = n or rng.randint(3, 9)
    dx = rng.choice([0.25, 0.5, 1.0, 0.1, 0.3, 2.0 ** -30, 2.0 ** 40, 1e-10])
    x0 = rng.choice([0.0, -1.0, 0.3]) * dx * rng.choice([1, 7])
    x = x0 + dx * np.arange(n, dtype=float)
    kind = rng.choice(['uniform', 'uniform', 'moved-small', 'moved-big', 'decreasing', 'repeated', 'one-point', 'empty', 'two-point', 'last-moved'])
    if kind == 'moved-small':
        x[rng.randrange(n)] += rng.choice([1e-7, 1e-6, -1e-6]) * dx
    elif kind == 'moved-big':
        x[rng.randrange(n)] += rng.choice([1e-4, -1e-3, 0.1, 0.3]) * dx
    elif kind == 'last-moved':
        x[-1] += rng.choice([1e-4, 1e-6, -0.5, 2.0]) * dx
    elif kind == 'decreasing':
        x = x[::-1].copy()
    elif kind == 'repeated':
        x = np.full(n, x0)
    elif kind == 'one-point':
        x = x[:1]
    elif kind == 'empty':
        x = x[:0]
    elif kind == 'two-point':
        x = x[:2]
    return kind, x


def gen_d_variant(rng, n, bmag):
    """(kind, d) — profiles the disregistry setter accepts (planar; y up to 1e-9 of the largest entry; all zeros) or refuses
    (y from 1e-7 of the largest entry; empty array), at several magnitudes."""
    np = _np()
    s = bmag * rng.choice([1.0, 2.0 ** -40, 2.0 ** 30, 1e-10])
    d = np.zeros((n, 3))
    d[:, 0] = s * np.array([cm.dyadic(rng, -1, 2, 4) for _ in range(n)])
    d[:, 2] = s * np.array([cm.dyadic(rng, -1, 1, 4) for _ in range(n)])
    if n:
        d[rng.randrange(n), 0] = s * 2.0      # the largest entry, exactly
    if n > 1 and rng.random() < 0.5:
        # the usual physical profile starts at zero disregistry: the FIRST row is exactly zero, the largest entry is elsewhere
        d[0, :] = 0.0
        d[rng.randrange(1, n), 0] = s * 2.0
    kind = rng.choice(['planar', 'planar', 'y-small', 'y-big', 'zeros', 'empty', 'y-end-small'])
    if kind == 'y-small' and n:
        d[rng.randrange(n), 1] = rng.choice([1e-10, -1e-9]) * 2.0 * s
    elif kind == 'y-big' and n:
        d[rng.randrange(n), 1] = rng.choice([1e-7, -1e-6, 0.1]) * 2.0 * s
    elif kind == 'y-end-small' and n:
        d[rng.choice([0, n - 1]), 1] = 1e-9 * 2.0 * s
    elif kind == 'zeros':
        d[:] = 0.0
    elif kind == 'empty':
        d = np.zeros((0, 3))
    return kind, d


class _ScaledMin:
    """stub minimiser returning the start vector times a factor (a tiny factor makes the END rows dominate the result)."""

    def __init__(self, factor):
        self.factor, self.out = factor, None

    def __call__(self, fun, x0, args=(), method=None, options=None, **kw):
        from scipy.optimize import OptimizeResult
        np = _np()
        self.out = np.array(x0, dtype=float) * self.factor
        return OptimizeResult(x=self.out, success=True, nfev=0)


def _refusal_case(ctx, name, v, g, spec, rng):
    """ONE real object and ONE model object: guarded profile setters and solve(x=, disregistry=, tau=) with a stub minimiser;
    outcome (accepted / which exception, from which statement) and the stored x / disregistry / tau afterwards."""
    np = _np()
    mod = sys.modules['atomman.defect.SDVPN']
    st = rand_settings(rng)
    pn = new_pn(v, g, st)
    K0, b0, T0 = pn.K_tensor.copy(), pn.burgers.copy(), pn.transform.copy()
    x, d = gen_profile(rng, pn, dyadic=True)
    pn.x, pn.disregistry = x.copy(), d.copy()
    steps = []
    rep = {'op': 'refusal', 'system': name, 'spec': spec, 'settings0': dict(st), 'x': x.tolist(), 'd': d.tolist(), 'steps': steps}
    ctx.driver.ask('onew ' + settings_wire(K0, b0, T0, st))
    ctx.driver.ask(f'oset x {len(x)} {cm.frs(x)}')
    ctx.driver.ask(f'oset d {len(d)} {cm.frs(d)}')
    bmag = float(np.abs(pn.burgers).max())

    def outcome(r):
        return 'ok' if not isinstance(r, Raised) else r

    def agree(r, code):
        if code == 'ok' or not isinstance(r, Raised):
            return code == 'ok' and not isinstance(r, Raised)
        cls, text = REFUSAL_OF.get(code, ('?', '?'))
        return r.cls == cls and text in r.text

    def state_ok():
        out = ctx.driver.ask('oeval state 0')
        if out.startswith('err:'):
            return f'model state: {out}'
        mv = cm.unfrs(out)
        na = int(mv[3])
        tau1 = mv[0:3]
        k = 3 + 1 + na + 9 + 1 + 4
        nx = int(mv[k])
        mx, md = mv[k + 1:k + 1 + nx], mv[k + 1 + nx:]
        sx, sd = np.asarray(pn.x, dtype=float), np.asarray(pn.disregistry, dtype=float)
        if [F(float(t)) for t in sx] != mx:
            return f'stored x is {sx.tolist()}, model object holds {[float(t) for t in mx]}'
        if [F(float(t)) for t in sd.ravel()] != md:
            return f'stored disregistry is {sd.tolist()}, model object holds {[float(t) for t in md]}'
        if [F(float(t)) for t in np.asarray(pn.tau)[1]] != tau1:
            return f'tau[1] is {np.asarray(pn.tau)[1].tolist()}, model object holds {[float(t) for t in tau1]}'
        return None
    for step in range(rng.randint(3, 6)):
        k = rng.random()
        if k < 0.3:
            kind, xv = gen_x_variant(rng)
            steps.append({'kind': 'set-x', 'variant': kind, 'x': xv.tolist()})
            r = call(setattr, pn, 'x', xv.copy())
            code = ctx.driver.ask(f'oset2 x {len(xv)} {cm.frs(xv)}')
            pure = ctx.driver.ask(f'oguard x {len(xv)} {cm.frs(xv)}')
            what = f'obj.x = {kind} grid {xv.tolist()}'
            if pure != code:
                ctx.disagree('refusal:model', f'{what}: xSetter? says {pure}, the object {code}', dict(rep, step=step))
        elif k < 0.55:
            kind, dv = gen_d_variant(rng, rng.randint(3, 8), bmag)
            steps.append({'kind': 'set-d', 'variant': kind, 'd': dv.tolist()})
            r = call(setattr, pn, 'disregistry', dv.copy())
            code = ctx.driver.ask(f'oset2 d {len(dv)} {cm.frs(dv)}')
            what = f'obj.disregistry = {kind} profile {dv.tolist()}'
        else:
            n = rng.randint(3, 8)
            akw, wire = {}, []
            desc = {}
            if rng.random() < 0.7:
                kind, xv = gen_x_variant(rng, n)
                if rng.random() < 0.6:
                    kind, xv = 'uniform', float(rng.choice([0.25, 0.5, 0.1])) * np.arange(n, dtype=float)
                akw['x'], desc['x'] = xv, kind
            if rng.random() < 0.7:
                kind, dv = gen_d_variant(rng, n + (1 if rng.random() < 0.15 else 0), bmag)
                if rng.random() < 0.5:
                    kind, dv = 'planar', gen_d_variant(rng, n, bmag)[1] * np.array([1.0, 0.0, 1.0])
                akw['disregistry'], desc['disregistry'] = dv, kind
            tau = None
            if rng.random() < 0.6:
                tau = np.array(_gen_tau(rng), dtype=float)
            factor = rng.choice([1.0, 1.0, 2.0 ** -60, 0.0, -0.5])
            fake = _ScaledMin(factor)
            steps.append({'kind': 'solve', 'variants': desc, 'x': akw['x'].tolist() if 'x' in akw else None,
                          'd': akw['disregistry'].tolist() if 'disregistry' in akw else None, 'tau': None if tau is None else tau.tolist(),
                          'factor': factor})
            stored_d = np.asarray(pn.disregistry, dtype=float).copy()
            orig = mod.minimize
            mod.minimize = fake
            try:
                r = call(pn.solve, **{k_: np.array(v_).copy() for k_, v_ in akw.items()}, **({} if tau is None else {'tau': tau.copy()}))
            finally:
                mod.minimize = orig
            # what the stub would return for the model: the decomposed effective guess times the factor (the effective guess is
            # the given or stored profile; if the call was refused before the minimiser the value is irrelevant)
            eff = np.asarray(akw['disregistry'], dtype=float) if 'disregistry' in akw else stored_d
            inner = eff[1:-1] if len(eff) >= 2 else eff[:0]
            res = np.concatenate([inner[:, 0], inner[:, 2]]) * factor if fake.out is None else fake.out
            line = ('osolve2 ' + (f'1 {len(akw["x"])} {cm.frs(akw["x"])} ' if 'x' in akw else '0 ')
                    + (f'1 {len(akw["disregistry"])} {cm.frs(akw["disregistry"])} ' if 'disregistry' in akw else '0 ')
                    + ('1 ' + cm.frs(tau[1]) if tau is not None else '0') + ' 0 0 0 0 0 0 0 ' + f'{len(res)} ' + cm.frs(res))
            code = ctx.driver.ask(line)
            what = f'solve({", ".join(f"{a}={desc[a]}" for a in desc)}{", tau=…" if tau is not None else ""}) with a stub minimiser (result = start x {factor})'
        ctx.stats.case('refusal', (name, steps[-1]['kind'], str(steps[-1])[:300], code),
                       sample={'op': steps[-1]['kind'], 'variant': steps[-1].get('variant', steps[-1].get('variants')), 'model': code})
        if code.startswith('err:'):
            ctx.disagree('refusal:driver', f'{what}: model {code}', dict(rep, step=step))
            return
        if not agree(r, code):
            ctx.disagree('refusal:outcome', f'{what}: implementation {outcome(r)}, model {code} [{name}]', dict(rep, step=step))
            return
        w = state_ok()
        if w:
            ctx.disagree('refusal:state', f'after {what} (outcome {code}): {w} [{name}]', dict(rep, step=step))
            return


def _seq_case(ctx, name, v, g, spec, rng, gam=None):
    """ONE real object and ONE model object under the same edit sequence; energies compared after every step, with
    every subset of the optional arguments of the term methods once the object has a stored profile."""
    import atomman as am
    np = _np()
    mod = sys.modules['atomman.defect.SDVPN']
    st = rand_settings(rng)
    pn = new_pn(v, g, st)
    x, d = gen_profile(rng, pn, dyadic=True)
    ops = []
    rep = {'op': 'seq', 'system': name, 'spec': spec, 'settings0': dict(st), 'x': x.tolist(), 'd': d.tolist(), 'ops': ops}
    K0, b0, T0 = pn.K_tensor.copy(), pn.burgers.copy(), pn.transform.copy()
    ctx.driver.ask('onew ' + settings_wire(K0, b0, T0, st))
    _eval_obj(ctx, name, pn, x, d, True, rep, 0, gam=gam)
    stored = None

    def eval_all(step):
        for mode in MODES:
            _eval_obj(ctx, name, pn, x, d, mode, rep, step, stored, gam)
    for step in range(1, rng.randint(2, 5) + 1):
        if rng.random() < 0.2:
            x2, d2 = rescaled_profile(rng, pn, x)
            x, d = np.array(x2), np.array(d2)
            ops.append({'kind': 'profile', 'x': x2, 'd': d2})
            eval_all(step)
            continue
        if stored is None and rng.random() < 0.6 or rng.random() < 0.1:
            # the property setters obj.x = ..., obj.disregistry = ... (one or both once a profile is stored)
            sx, sd = gen_profile(rng, pn, n=(None if stored is None or rng.random() < 0.5 else len(stored[0])), dyadic=True)
            which = 'xd' if stored is None or len(sx) != len(stored[0]) else rng.choice(['xd', 'x', 'd'])
            ops.append({'kind': 'store', 'which': which, 'x': sx.tolist(), 'd': sd.tolist()})
            for f, val, wire in (('x', sx, f'{len(sx)} {cm.frs(sx)}'), ('d', sd, f'{len(sd)} {cm.frs(sd)}')):
                if f in which:
                    r = call(setattr, pn, 'x' if f == 'x' else 'disregistry', val.copy())
                    out = ctx.driver.ask(f'oset {f} {wire}')
                    if isinstance(r, Raised) or out != 'ok':
                        ctx.disagree('obj:set', f'setting the stored {f}: implementation {r}, model {out}', dict(rep, step=step))
                        return
            stored = (sx if 'x' in which else stored[0], sd if 'd' in which else stored[1])
            eval_all(step)
            continue
        op = rand_op(rng, st, len(x))
        ops.append(op)
        if op['kind'] == 'set':
            r = call(setattr, pn, op['attr'], np.array(op['value']) if op['attr'] in ('tau', 'beta') else op['value'])
            out = ctx.driver.ask(f'oset {WIRE[op["attr"]]} ' + _val_wire(op['attr'], op['value']))
            st[op['attr']] = op['value']
            if isinstance(r, Raised) or out != 'ok':
                ctx.disagree('obj:set', f'setting {op["attr"]}: implementation {r}, model {out}', dict(rep, step=step))
                return
        elif op['kind'] == 'solve':
            if op['newprofile']:
                x, d = gen_profile(rng, pn, dyadic=True)
            kw = {a: (np.array(val) if a in ('tau', 'beta') else val) for a, val in op['kw'].items()}
            fake = _FakeMin(rng)
            orig = mod.minimize
            mod.minimize = fake
            # solve(x=, disregistry=) with any subset of the two once a profile is stored
            smode = rng.choice(MODES) if stored is not None else 'both'
            akw, x, d = mode_args(smode, np.asarray(x, dtype=float), np.asarray(d, dtype=float), stored)
            x, d = np.array(x, dtype=float), np.array(d, dtype=float)
            op['args'] = smode
            try:
                r = call(pn.solve, **{k_: np.array(v_).copy() for k_, v_ in akw.items()}, **kw)
            finally:
                mod.minimize = orig
            st.update(op['kw'])
            if isinstance(r, Raised):
                ctx.disagree('obj:solve', f'solve({sorted(op["kw"])}) with a stub minimiser: {r}', dict(rep, step=step))
                return
            opt = lambda a: ('1 ' + _val_wire(a, op['kw'][a])) if a in op['kw'] else '0'   # noqa: E731
            line = ('osolve ' + (f'1 {len(x)} {cm.frs(x)} ' if 'x' in akw else '0 ') + (f'1 {len(x)} {cm.frs(d)} ' if 'disregistry' in akw else '0 ')
                    + ' '.join(opt(a) for a in
                    ('tau', 'alpha', 'beta', 'cutofflongrange') + FLAGS) + f' {len(fake.out)} ' + cm.frs(fake.out))
            out = ctx.driver.ask(line)
            got = np.asarray(pn.disregistry)
            ctx.stats.case('obj:solve', (name, line[:600]), sample={'op': 'solve(**kwargs), stub minimiser', 'kwargs': sorted(op['kw']) + sorted(akw)})
            if out.startswith('err:') or [F(float(t)) for t in got.ravel()] != cm.unfrs(out):
                ctx.disagree('obj:solve', 'disregistry stored by solve(**kwargs) differs from the model object',
                             dict(rep, step=step, got=got.tolist()))
                return
            op['res'] = fake.out.tolist()
            d = got.copy()
            stored = (np.array(x, dtype=float), d.copy())
        else:
            st2 = op['settings']
            src = new_pn(v, g, st2)
            x, d = gen_profile(rng, src, dyadic=True)
            src.x, src.disregistry = x, d
            m = src.model(include_gamma=False, length_unit=op['units'][0], pressure_unit=op['units'][1])
            form = {'dm': m, 'json': m.json(), 'xml': m.xml()}[op['form']]
            r = call(pn.load, form, gamma=g)
            out = ctx.driver.ask('oload ' + settings_wire(K0, b0, T0, st2) + f' {len(x)} {cm.frs(x)} {cm.frs(d)}')
            st.clear()
            st.update(st2)
            if isinstance(r, Raised) or out != 'ok':
                ctx.disagree('obj:load', f'load({op["form"]}) into an existing object: implementation {r}, model {out}', dict(rep, step=step))
                return
            sx, sd = np.asarray(pn.x), np.asarray(pn.disregistry)
            if sx.shape != x.shape or not np.allclose(sx, x, rtol=1e-12, atol=1e-13) or not np.allclose(sd, d, rtol=1e-12, atol=1e-13):
                ctx.disagree('obj:load', 'x / disregistry after load differ from the saved ones', dict(rep, step=step))
                return
            x, d = sx.copy(), sd.copy()
            op['x'], op['d'] = x.tolist(), d.tolist()
            stored = (x.copy(), d.copy())
        # frame: what was not edited is unchanged; what was edited is what was set
        bad = [a for a in ('tau', 'beta') if not np.allclose(np.asarray(getattr(pn, a)), np.array(st[a]), rtol=1e-12, atol=1e-15)]
        bad += [a for a in FLAGS if getattr(pn, a) is not st[a]]
        if not np.allclose(np.asarray(pn.alpha, dtype=float), np.array(st['alpha']), rtol=1e-12, atol=1e-15):
            bad.append('alpha')
        if not cm.close(pn.cutofflongrange, F(st['cutofflongrange']), 1e-12, 0):
            bad.append('cutofflongrange')
        if bad:
            ctx.disagree('obj:frame', f'after {op["kind"]} the attributes {bad} are not what was set ({name})', dict(rep, step=step))
        eval_all(step)


def correspond(ctx):
    import atomman as am
    np = _np()
    rng = ctx.rng
    t0 = time.time()
    # ---- gamma surfaces
    n_g = ctx.n(22, 160)
    specs = []
    for it in range(n_g):
        vects = VECTS[it % len(VECTS)]
        regime = 'dyadic' if (it // len(VECTS) + it) % 2 == 0 else 'generic'
        grid = rng.choice(GRIDS_ANISO[regime]) if it % 4 == 3 else None
        specs.append(gen_gamma_spec(rng, regime=regime, vects=vects, grid=grid, dup=(it % 3 == 1), delta=(it % 4 < 2)))
    for spec in specs:
        g = call(mk_gamma, spec)
        if isinstance(g, Raised):
            ctx.disagree('gamma:raises', f'GammaSurface construction {g}', {'op': 'fit', 'spec': spec})
            continue
        rep = {'op': 'gamma', 'spec': spec}
        cs = guarded(ctx, 'fit', rep, _fit_case, ctx, spec, g, 'E')
        if spec['delta'] is not None:
            guarded(ctx, 'fit', rep, _fit_case, ctx, spec, g, 'delta')
        rec, recd = spy(g)
        if cs is not None:
            for rep_ in range(ctx.n(2, 4)):
                qs = gen_queries(rng, spec, ctx.n(10, 40), F(cs[0]), F(cs[1]))
                guarded(ctx, 'egsf', rep, _egsf_case, ctx, spec, g, rec, cs, qs)
            qs = gen_queries(rng, spec, ctx.n(5, 12), F(cs[0]), F(cs[1]))
            guarded(ctx, 'egsf:pos', rep, _egsf_case, ctx, spec, g, rec, cs, qs, 'pos')
            for xname in ('default', rng.choice(['a2', 'mix'])):
                guarded(ctx, 'egsf:xy', rep, _egsf_case, ctx, spec, g, rec, cs, qs, 'xy', xname)
            guarded(ctx, 'egsf:vects', rep, _egsf_case, ctx, spec, g, rec, cs, qs, 'vects', rng.choice(['sum', 'swap', 'shear', 'a1only']))
            guarded(ctx, 'egsf:posvec', rep, _egsf_case, ctx, spec, g, rec, cs, qs, rng.choice(['posvec', 'xyvec']), rng.choice(['sum', 'swap', 'shear', 'a1only']))
            if recd is not None:
                guarded(ctx, 'delta', rep, _delta_case, ctx, spec, g, recd, gen_queries(rng, spec, ctx.n(10, 30), F(0), F(0)))
        rn, rnd = spy_nearest(g)
        guarded(ctx, 'nearest', rep, _nearest_case, ctx, spec, g, rn, gen_queries(rng, spec, ctx.n(8, 20), F(0), F(0)))
        if rnd is not None:
            guarded(ctx, 'nearest', rep, _nearest_case, ctx, spec, g, rnd, gen_queries(rng, spec, ctx.n(4, 10), F(0), F(0)), 'delta')
        guarded(ctx, 'conv', rep, _conv_case, ctx, spec, g, rng)
    # ONE call with a number of points at which block-wise evaluation would switch on (2^11 +- 1, 2^12 + 1, 3 * 2^11 + 1):
    # still exactly four interpolant calls, every point blended by the model
    for it in range(ctx.n(1, 4)):
        spec = gen_gamma_spec(rng, regime='dyadic', vects=VECTS[rng.randrange(len(VECTS))], grid=rng.choice([(4, 4), (2, 8), (2, 2)]), dup=(it % 2 == 1), delta=False)
        g = call(mk_gamma, spec)
        if isinstance(g, Raised):
            continue
        rep = {'op': 'gamma', 'spec': spec}
        cs = guarded(ctx, 'fit', rep, _fit_case, ctx, spec, g, 'E')
        if cs is None:
            continue
        rec, _ = spy(g)
        m_ = [2049, 4097, 2047, 6145][it % 4]
        qs = gen_queries(rng, spec, 64, F(cs[0]), F(cs[1]))
        qs = [(qs[i % 64][0] + (i // 64) % 3, qs[i % 64][1] - (i // 192) % 2) for i in range(m_)]
        guarded(ctx, 'egsf', rep, _egsf_case, ctx, spec, g, rec, cs, qs, 'a12' if it % 2 == 0 else 'pos')
    # the conversions and their two refusals with the whole geometry scaled by 2^k (model: `guards_scale_free`)
    for it in range(ctx.n(8, 40)):
        k = rng.choice([-200, -100, -33, -10, 10, 33, 100, 200])
        spec = scale_spec(gen_gamma_spec(rng, regime='dyadic', vects=VECTS[it % len(VECTS)], grid=(4, 4), dup=False, delta=False), 2.0 ** k, 1.0)
        spec['tag'] += f'*2^{k}'
        gs_ = call(mk_gamma, spec)
        if isinstance(gs_, Raised):
            ctx.disagree('conv:scaled', f'GammaSurface in a cell scaled by 2^{k}: {gs_}', {'op': 'conv', 'spec': spec})
            continue
        guarded(ctx, 'conv', {'op': 'conv', 'spec': spec}, _conv_case, ctx, spec, gs_, rng)
    ctx.extra['t_gamma_s'] = round(time.time() - t0, 2)
    # ---- ONE GammaSurface object under reloads: query -> set()/model(model=) with other vectors, box, data -> query
    t0 = time.time()
    firsts = VECTS + VECTS4
    for it in range(ctx.n(10, 60)):
        specs = gen_reload_specs(rng, regime=('dyadic' if it % 2 == 0 else 'generic'), first=firsts[(it * 5) % len(firsts)])
        hows = [gen_reload_how(rng) for _ in specs[1:]]
        guarded(ctx, 'gobj', {'op': 'gseq', 'specs': specs, 'hows': hows}, _gseq_case, ctx, rng, specs, hows)
    # 4-index shift vectors: accepted iff u + v + t = 0
    for it in range(ctx.n(6, 30)):
        u, v_ = cm.dyadic(rng, -2, 2, 3), cm.dyadic(rng, -2, 2, 3)
        t_ = -(u + v_) + rng.choice([0.0, 0.0, 0.0, 0.5, 1e-9, -1e-7])
        vec = [u, v_, t_, cm.dyadic(rng, -2, 2, 2)]
        sp = gen_gamma_spec(rng, regime='dyadic', vects=(vec, [0.0, 0.0, 0.0, 1.0] if abs(vec[3]) < 0.1 else [1.0, -1.0, 0.0, 0.0], HEXBOX, 'hex4-random'), grid=(4, 4))
        gg = call(mk_gamma, sp)
        out = ctx.driver.ask('v4to3 ' + cm.frs(vec))
        ctx.stats.case('v4to3', tuple(vec), sample={'op': 'GammaSurface(a1vect=[u, v, t, w])', 'a1vect': vec})
        got = gg.cls if isinstance(gg, Raised) else None
        if (got is not None or out.startswith('err:')) and got != out:
            if not (isinstance(gg, Raised) and not out.startswith('err:') and 'Singular' in gg.text):
                ctx.disagree('v4to3', f'GammaSurface(a1vect={vec}): implementation {gg if isinstance(gg, Raised) else "accepts"}, model {out[:60]}', {'op': 'v4to3', 'vec': vec})
        elif got is None and not cm.allclose(gg.a1vect, cm.unfrs(out), 1e-14, 1e-15):
            ctx.disagree('v4to3', f'GammaSurface(a1vect={vec}).a1vect = {gg.a1vect.tolist()}, model {out}', {'op': 'v4to3', 'vec': vec})
    ctx.extra['t_gamma_obj_s'] = round(time.time() - t0, 2)
    # ---- SDVPN
    t1 = time.time()
    for si, name in enumerate(SYSTEMS):
        rep = {'op': 'sdvpn', 'system': name}
        try:
            v, spec = mk_system(name, rng, grid=rng.choice([(8, 3), (6, 4), (10, 3)]))
            g = mk_gamma(spec)
            cs = _fit_case(ctx, spec, g, 'E')
            rec, _ = spy(g)
            pn = am.defect.SDVPN(volterra=v, gamma=g)
        except cm.InfraError:
            raise
        except Exception as e:  # noqa
            ctx.disagree('sdvpn:raises', f'constructing {name} raised {type(e).__name__}: {e}', rep)
            continue
        if cs is None:
            continue
        out = ctx.driver.ask('frame ' + ' '.join(cm.frs(t) for t in (np.array([v.m, v.n, v.ξ]), v.K_tensor, v.burgers, v.transform)))
        ctx.stats.case('frame', (name,), sample={'op': 'SDVPN(volterra=): K_tensor, burgers, transform in the [m, n, xi] frame', 'system': name})
        got = np.concatenate([np.ravel(pn.K_tensor), np.ravel(pn.burgers), np.ravel(pn.transform)])
        if out.startswith('err:') or not cm.allclose(got, cm.unfrs(out), 1e-12, 1e-13):
            ctx.disagree('frame', f'K_tensor / burgers / transform of SDVPN(volterra=) differ from M K M^T, M b, M T ({name})', rep)
        for it in range(ctx.n(5, 40)):
            guarded(ctx, 'sdvpn', rep, _sdvpn_case, ctx, name, pn, rec, cs, spec, rng, dyadic=(it % 2 == 0))
        for it in range(ctx.n(2, 10)):
            guarded(ctx, 'solve-embed', rep, _solve_embed_case, ctx, name, pn, rng)
        for it in range(ctx.n(3, 20)):
            guarded(ctx, 'obj', rep, _seq_case, ctx, name, v, g, spec, rng, (rec, cs, spec))
        for it in range(ctx.n(4, 30)):
            guarded(ctx, 'refusal', rep, _refusal_case, ctx, name, v, g, spec, rng)
    for it in range(ctx.n(30, 300)):
        guarded(ctx, 'arctan', {'op': 'arctan'}, _arctan_case, ctx, rng)
    ctx.extra['t_sdvpn_s'] = round(time.time() - t1, 2)


# ----------------------------------------------------------------------------------------
# failing-input search: the clauses of the property evaluated on the REAL code against an independent
# oracle (exact Fractions for everything algebraic; `log`, `sqrt`, `atan`, `pi` from `math`).
# Every case is a JSON-able dict; `replay` re-runs the same `chk_*` function on the stored dict.
# ----------------------------------------------------------------------------------------

EPS = 2.0 ** -52


def FF(v):
    return v if isinstance(v, Fraction) else Fraction(float(v))


def fvec(v):
    return [FF(t) for t in v]


def o_cart(spec):
    """exact Cartesian shift vectors `a1vect . vects`, `a2vect . vects` (rows of vects are a, b, c)."""
    B = [[F(1), F(0), F(0)], [F(0), F(1), F(0)], [F(0), F(0), F(1)]] if spec['box'] is None else [fvec(r) for r in spec['box']]
    a1, a2 = fvec(vec3(spec['a1vect'])), fvec(vec3(spec['a2vect']))
    A1 = [sum(a1[k] * B[k][c] for k in range(3)) for c in range(3)]
    A2 = [sum(a2[k] * B[k][c] for k in range(3)) for c in range(3)]
    return A1, A2


def o_pos(A1, A2, a):
    return [FF(a[0]) * A1[c] + FF(a[1]) * A2[c] for c in range(3)]


def o_axes(A1, A2, X):
    """unit plotting axes (floats) for the in-plane x axis X: x^ = X/|X|, y^ = (N x X)/|N x X|, N = A1 x A2."""
    N = fcross(A1, A2)
    Y = fcross(N, X)
    (mx, nx), (my, ny) = _fnorm(X), _fnorm(Y)
    return [float(t / mx) / nx for t in X], [float(t / my) / ny for t in Y]


def _fnorm(v):
    """(m, n) with |v| = m * n for an exact vector v: m = largest |component| (a Fraction), n = norm of v / m in double
    (no overflow / underflow whatever the magnitude of v)."""
    m = max(abs(t) for t in v)
    return m, math.sqrt(sum(float(t / m) ** 2 for t in v))


def o_xy(A1, A2, X, pos):
    """plotting coordinates of an exact position: x = pos . X/|X|, y = pos . (N x X)/|N x X|."""
    N = fcross(A1, A2)
    Y = fcross(N, X)
    (mx, nx), (my, ny) = _fnorm(X), _fnorm(Y)
    return (float(fdot(pos, X) / mx) / nx, float(fdot(pos, Y) / my) / ny)


def o_xvect(A1, A2, xname):
    if xname == 'default':
        return list(A1)
    if xname == 'a2':
        return list(A2)
    if xname == 'mix':
        return [A1[c] / 2 - A2[c] * F(3, 2) for c in range(3)]
    raise ValueError(xname)


def _cmp(a, b, rtol, atol):
    """largest violation of |a-b| <= atol + rtol |b| over two equally shaped float sequences; None if fine."""
    np = _np()
    a = np.ravel(np.asarray(a, dtype=float))
    b = np.ravel(np.asarray(b, dtype=float))
    if a.shape != b.shape:
        return f'shape {a.shape} vs {b.shape}'
    if not np.all(np.isfinite(a)):
        return 'non-finite value'
    bad = np.abs(a - b) > atol + rtol * np.abs(b)
    if bad.any():
        k = int(np.argmax(np.abs(a - b) - (atol + rtol * np.abs(b))))
        return f'index {k}: {a[k]!r} vs {b[k]!r}'
    return None


def o_fit_cond(spec):
    """condition number of the multiquadric system of the DOCUMENTED fit, set up independently: the sampled points
    without the duplicated a = 1 edge, tiled 3 x 3, kept from one sample below 0 to one sample above 1 in each
    direction; phi(r) = sqrt((r/eps)^2 + 1), eps = (bounding-box area / N)^(1/2) (scipy Rbf defaults).  The
    interpolation tolerance is derived from THIS number, not from whatever system the implementation solved."""
    np = _np()
    rows = [(a, b) for a, b in zip(spec['a1'], spec['a2']) if abs(a - 1.0) > 1e-6 and abs(b - 1.0) > 1e-6]
    pts = np.array([(a + i, b + j) for i in (-1, 0, 1) for j in (-1, 0, 1) for a, b in rows])
    keep = np.ones(len(pts), dtype=bool)
    for c in (0, 1):
        u = np.unique(np.round(pts[:, c], 9))
        lo = u[u < -1e-6].max() - 1e-6
        hi = u[u > 1 + 1e-6].min() + 1e-6
        keep &= (pts[:, c] >= lo) & (pts[:, c] <= hi)
    pts = pts[keep]
    edges = pts.max(axis=0) - pts.min(axis=0)
    eps = math.sqrt(float(np.prod(edges)) / len(pts))
    r = np.sqrt(((pts[:, None, :] - pts[None, :, :]) ** 2).sum(axis=2))
    return float(np.linalg.cond(np.sqrt((r / eps) ** 2 + 1)))


def chk_gamma(ctx, case):
    """gamma-surface clauses: reproduces its input at the sampled shifts, periodic, the three kinds of
    coordinates interchangeable (one or many positions), conversions mutual inverses, data-model round trip."""
    spec = case['spec']
    g = call(mk_gamma, spec)
    if isinstance(g, Raised):
        ctx.violate('gamma:construct', f'GammaSurface(...) {g} [{spec["tag"]} grid {spec["n1"]}x{spec["n2"]} dup={spec["dup"]}]', case)
        return
    _gamma_clauses(ctx, case, case, g, '')


def chk_gseq(ctx, case):
    """ONE GammaSurface object: data set 0 -> every clause (which queries it in every form) -> set() / model(model=)
    with other shift vectors / box / sampling / data INTO THE SAME OBJECT -> every clause again, against the exact
    oracle of the NEW data and against a fresh object built from them."""
    np = _np()
    specs = case['specs']
    g = call(mk_gamma, specs[0])
    if isinstance(g, Raised):
        ctx.violate('gamma:construct', f'GammaSurface(...) {g} [{specs[0]["tag"]}]', case)
        return
    n0 = len(ctx.violations)
    _gamma_clauses(ctx, case, dict(case['sub'][0], spec=specs[0]), g, '')
    if len(ctx.violations) > n0:
        return          # the first data set already fails on a fresh object: reported there
    hist = f'{specs[0]["tag"]} {specs[0]["n1"]}x{specs[0]["n2"]}'
    for k in range(1, len(specs)):
        how, spec = case['hows'][k - 1], specs[k]
        hw = 'set(...)' if how['kind'] == 'set' else f'model(model=<{how["form"]}, {how["lu"]}, {how["eu"]}>)'
        when = f'ONE object: [{hist}] queried, then {hw} with [{spec["tag"]} {spec["n1"]}x{spec["n2"]}]: '
        ctx.stats.case('s:gseq', (hist, hw, spec['tag'], spec['n1'], spec['n2'], tuple(spec['E'][:4])))
        r = call(reload_gamma, g, spec, how)
        if isinstance(r, Raised):
            ctx.violate('gamma:reload', f'{when}{r}', case)
            return
        fresh = call(mk_gamma, spec)
        _gamma_clauses(ctx, case, dict(case['sub'][k], spec=spec), g, when, None if isinstance(fresh, Raised) else fresh,
                       loose=(how['kind'] == 'model'))
        hist += f' -> {spec["tag"]} {spec["n1"]}x{spec["n2"]}'


def _gamma_clauses(ctx, top, case, g, when, fresh=None, loose=False, unit=(1.0, 1.0)):
    """the gamma-surface clauses on the object `g`, which is supposed to hold `case['spec']` now.
    `unit` = (length, energy per area) magnitudes the data are expressed in (1, 1: numbers of order one): every absolute
    tolerance is a multiple of them, so that the same clauses are decided at any scale / in any working units."""
    import atomman as am
    np = _np()
    spec = case['spec']

    def bad(key, what):
        ctx.violate('gamma:' + key, f'{when}{what} [{spec["tag"]} grid {spec["n1"]}x{spec["n2"]} dup={spec["dup"]}]', top)

    uL, uE = float(unit[0]), float(unit[1])
    # the state the object reports: shift vectors, box, plane normal, data
    A1, A2 = o_cart(spec)
    N_ = fcross(A1, A2)
    mN_, nN_ = _fnorm(N_)
    st_ = call(lambda: (np.asarray(g.a1vect, dtype=float), np.asarray(g.a2vect, dtype=float), np.asarray(g.box.vects, dtype=float),
                        np.asarray(g.planenormal, dtype=float), g.data))
    ctx.stats.case('s:state', (spec['tag'], spec['n1'], spec['n2'], when[:80]))
    if isinstance(st_, Raised):
        bad('state', f'a1vect / a2vect / box / planenormal / data {st_}')
        return
    Bw = np.eye(3) if spec['box'] is None else np.array(spec['box'], dtype=float)
    w = (_cmp(st_[0], vec3(spec['a1vect']), 1e-14, 0) or _cmp(st_[1], vec3(spec['a2vect']), 1e-14, 0) or _cmp(st_[2], Bw, 1e-13, 1e-14 * uL)
         or _cmp(st_[3], [float(t / mN_) / nN_ for t in N_], 1e-12, 1e-13)
         or _cmp(st_[4].a1.values, spec['a1'], 1e-14, 1e-15) or _cmp(st_[4].a2.values, spec['a2'], 1e-14, 1e-15)
         or _cmp(st_[4].E_gsf.values, spec['E'], 1e-13 if loose else 0, 0)
         or (('delta' in st_[4]) != (spec['delta'] is not None) and 'plane-separation column lost/kept')
         or (spec['delta'] is not None and _cmp(st_[4].delta.values, spec['delta'], 1e-13 if loose else 0, 0)))
    if w:
        bad('state', f'a1vect / a2vect / box.vects / planenormal / data of the object are not those of the data it was given: {w}')
        return
    if spec['delta'] is None:
        r = call(g.delta, a1=0.25, a2=0.375)
        if not isinstance(r, Raised):
            bad('state', f'delta(a1=0.25, a2=0.375) = {r!r} although the object holds no plane-separation data')
    scale = max(uE, max(abs(v) for v in spec['E']))
    L = max(uL, max(abs(float(t)) for t in A1 + A2))
    cond = o_fit_cond(spec)
    # interpolation: backward-stable solve of the Rbf system, error <= c*eps*cond; evaluation at a point moved by
    # an ulp changes the value by <= Lipschitz*ulp, covered by 1e-9
    tolE = 256 * EPS * cond * scale + 1e-9 * scale
    has_d = spec['delta'] is not None
    dscale = max(uL, max(abs(v) for v in spec['delta'])) if has_d else uL
    tolD = 256 * EPS * cond * dscale + 1e-9 * dscale
    periods = case['periods']
    ns = len(spec['a1'])
    # -- (1) reproduces the input energies at the sampled shifts, any integer period away; many and one
    s1 = np.array([spec['a1'][i] + periods[i % len(periods)][0] for i in range(ns)])
    s2 = np.array([spec['a2'][i] + periods[i % len(periods)][1] for i in range(ns)])
    ctx.stats.case('s:interpolates', (spec['tag'], spec['n1'], spec['n2'], spec['dup'], tuple(spec['E'][:6])))
    r = call(g.E_gsf, a1=s1.copy(), a2=s2.copy())
    w = str(r) if isinstance(r, Raised) else _cmp(r, spec['E'], 0, tolE)
    if w:
        bad('interpolates', f'E_gsf at the sampled shifts (+ integer periods) does not reproduce the input energies: {w}')
    for i in case['singles']:
        r = call(g.E_gsf, a1=float(s1[i % ns]), a2=float(s2[i % ns]))
        w = str(r) if isinstance(r, Raised) else _cmp(r, [spec['E'][i % ns]], 0, tolE)
        if w:
            bad('interpolates', f'E_gsf(a1={float(s1[i % ns])!r}, a2={float(s2[i % ns])!r}) (scalars) != input energy {spec["E"][i % ns]!r}: {w}')
    r = call(g.E_gsf, a1=s1.copy(), a2=s2.copy(), smooth=False)
    w = str(r) if isinstance(r, Raised) else _cmp(r, spec['E'], 1e-13 if loose else 0, 0)       # loose: values went through a unit conversion
    if w:
        bad('interpolates', f'E_gsf(smooth=False) (nearest measured value) at the sampled shifts is not the input energy: {w}')
    if has_d:
        r = call(g.delta, a1=s1.copy(), a2=s2.copy())
        w = str(r) if isinstance(r, Raised) else _cmp(r, spec['delta'], 0, tolD)
        if w:
            bad('delta-interpolates', f'delta at the sampled shifts does not reproduce the input: {w}')
        r = call(g.delta, a1=s1.copy(), a2=s2.copy(), smooth=False)
        w = str(r) if isinstance(r, Raised) else _cmp(r, spec['delta'], 1e-13 if loose else 0, 0)
        if w:
            bad('delta-interpolates', f'delta(smooth=False) at the sampled shifts is not the input: {w}')
    # -- (2) periodic in both shift vectors
    q = case['queries']
    q1 = np.array([t[0] for t in q], dtype=float)
    q2 = np.array([t[1] for t in q], dtype=float)
    m = len(q)
    Ea = call(g.E_gsf, a1=q1.copy(), a2=q2.copy())
    if isinstance(Ea, Raised):
        bad('raises', f'E_gsf(a1=, a2=) {Ea}')
        return
    Ea = np.asarray(Ea, dtype=float)
    if fresh is not None:
        # the same data in a fresh object: identical fit, identical answers (generic points, all entry points)
        for nm, kw in (('E_gsf(a1=, a2=)', {}), ('E_gsf(a1=, a2=, smooth=False)', {'smooth': False})):
            r1, r2 = call(g.E_gsf, a1=q1.copy(), a2=q2.copy(), **kw), call(fresh.E_gsf, a1=q1.copy(), a2=q2.copy(), **kw)
            w = str(r1) if isinstance(r1, Raised) else str(r2) if isinstance(r2, Raised) else _cmp(r1, r2, 0, tolE if loose else 1e-12 * scale)
            if w:
                bad('reload-fresh', f'{nm} differs from a fresh object holding the same data: {w}; a1={q1.tolist()}, a2={q2.tolist()}')
    Da = None
    if has_d:
        # delta is compared off the lattice lines only (on a line a = n the code evaluates the interpolant at 0
        # or 1 depending on the side: equal only as far as the Rbf is periodic, not claimed)
        offl = np.array([abs(a - round(a)) > 1e-6 and abs(b - round(b)) > 1e-6 for a, b in zip(q1, q2)])
        Da = call(g.delta, a1=q1.copy(), a2=q2.copy())
        if isinstance(Da, Raised):
            bad('raises', f'delta(a1=, a2=) {Da}')
            Da = None
    for (n_, m_) in periods:
        ctx.stats.case('s:periodic', (spec['tag'], n_, m_, tuple(q1), tuple(q2)))
        r = call(g.E_gsf, a1=q1 + n_, a2=q2 + m_)
        w = str(r) if isinstance(r, Raised) else _cmp(r, Ea, 0, tolE)
        if w:
            bad('periodic', f'E_gsf(a1 + {n_}, a2 + {m_}) != E_gsf(a1, a2): {w}; a1={q1.tolist()}, a2={q2.tolist()}')
        if Da is not None and offl.any():
            r = call(g.delta, a1=(q1 + n_)[offl], a2=(q2 + m_)[offl])
            w = str(r) if isinstance(r, Raised) else _cmp(r, np.asarray(Da)[offl], 0, tolD)
            if w:
                bad('delta-periodic', f'delta(a1 + {n_}, a2 + {m_}) != delta(a1, a2): {w}')
    # With the duplicated a = 1 edge in the data the cushion is 0: no blending, and E_gsf jumps at the cell edge by the
    # Rbf's own non-periodicity (~1e-3 relative).  A query ON the edge that goes through a float solve (pos=, x=/y=,
    # a1vect=) may land on either side: such points are exempt from the value comparisons below (not from the
    # conversions), exactly the discontinuity the model places there.
    c1_, c2_ = (1 - max(spec['a1'])) / 2, (1 - max(spec['a2'])) / 2
    inner = np.array([not ((c1_ < 1e-9 and abs(a - round(a)) < 1e-9) or (c2_ < 1e-9 and abs(b_ - round(b_)) < 1e-9))
                      for a, b_ in zip(q1, q2)])
    # -- (3)+(4) conversions against the exact oracle, mutual inverses, interchangeable entry points
    P = [o_pos(A1, A2, (FF(a), FF(b))) for a, b in zip(q1, q2)]
    Pf = np.array([[float(t) for t in p_] for p_ in P])
    tolP = 1e-12 * L * (1 + float(np.abs(q1).max()) + float(np.abs(q2).max()))
    ctx.stats.case('s:conv', (spec['tag'], tuple(q1), tuple(q2)))

    def conv(key, what, got, want, atol):
        w = str(got) if isinstance(got, Raised) else _cmp(got, want, 1e-9, atol)
        if w:
            bad('conv:' + key, f'{what}: {w}')
        return not w

    conv('a12_to_pos', f'a12_to_pos({q1.tolist()}, {q2.tolist()}) != a1*A1 + a2*A2', call(g.a12_to_pos, q1, q2), Pf, tolP)
    conv('a12_to_pos', f'a12_to_pos({q1[0]!r}, {q2[0]!r}) (one point)', call(g.a12_to_pos, q1[0], q2[0]), Pf[:1], tolP)
    r = call(g.pos_to_a12, Pf.copy())
    conv('pos_to_a12', 'pos_to_a12(a1*A1 + a2*A2) != (a1, a2) (many positions)',
         r if isinstance(r, Raised) else np.array([np.ravel(r[0]), np.ravel(r[1])]), np.array([q1, q2]), 1e-9)
    r = call(g.pos_to_a12, Pf[0].copy())
    conv('pos_to_a12', 'pos_to_a12(one position) != (a1, a2)',
         r if isinstance(r, Raised) else np.array([np.ravel(r[0]), np.ravel(r[1])]), np.array([q1[:1], q2[:1]]), 1e-9)
    r = call(lambda: g.a12_to_pos(*g.pos_to_a12(Pf.copy())))
    conv('a12-pos-roundtrip', 'a12_to_pos(pos_to_a12(pos)) != pos', r, Pf, 1e-9 * L)
    for xname in case['xvects']:
        X = o_xvect(A1, A2, xname)
        Xf = None if xname == 'default' else np.array([float(t) for t in X])
        kw = {} if Xf is None else {'xvect': Xf}
        XY = np.array([o_xy(A1, A2, X, p_) for p_ in P])
        tolXY = 1e-9 * L * (1 + float(np.abs(q1).max()) + float(np.abs(q2).max()))
        ctx.stats.case('s:xy', (spec['tag'], xname, tuple(q1), tuple(q2)))
        r = call(g.pos_to_xy, Pf.copy(), **kw)
        conv('pos_to_xy', f'pos_to_xy(pos, xvect={xname}) != (pos.x^, pos.y^) (many)',
             r if isinstance(r, Raised) else np.array([np.ravel(r[0]), np.ravel(r[1])]).T, XY, tolXY)
        r = call(g.pos_to_xy, Pf[0].copy(), **kw)
        conv('pos_to_xy', f'pos_to_xy(one position, xvect={xname})',
             r if isinstance(r, Raised) else np.array([np.ravel(r[0]), np.ravel(r[1])]).T, XY[:1], tolXY)
        r = call(g.xy_to_pos, XY[:, 0].copy(), XY[:, 1].copy(), **kw)
        conv('xy_to_pos', f'xy_to_pos(x, y, xvect={xname}) != x x^ + y y^ (many): x={XY[:, 0].tolist()}, y={XY[:, 1].tolist()}', r, Pf, tolXY)
        r = call(g.xy_to_pos, float(XY[0, 0]), float(XY[0, 1]), **kw)
        conv('xy_to_pos', f'xy_to_pos({float(XY[0, 0])!r}, {float(XY[0, 1])!r}, xvect={xname}) (one point)', r, Pf[:1], tolXY)
        r = call(lambda: g.xy_to_pos(*g.pos_to_xy(Pf.copy(), **kw), **kw))
        conv('xy-pos-roundtrip', f'xy_to_pos(pos_to_xy(pos)) != pos (xvect={xname}); pos={Pf.tolist()}', r, Pf, tolXY)
        r = call(lambda: np.array(g.pos_to_xy(g.xy_to_pos(XY[:, 0].copy(), XY[:, 1].copy(), **kw), **kw)).T)
        conv('pos-xy-roundtrip', f'pos_to_xy(xy_to_pos(x, y)) != (x, y) (xvect={xname})', r, XY, tolXY)
        r = call(g.a12_to_xy, q1, q2, **kw)
        conv('a12_to_xy', f'a12_to_xy(a1, a2, xvect={xname})', r if isinstance(r, Raised) else np.array([np.ravel(r[0]), np.ravel(r[1])]).T, XY, tolXY)
        r = call(g.xy_to_a12, XY[:, 0].copy(), XY[:, 1].copy(), **kw)
        conv('xy_to_a12', f'xy_to_a12(x, y, xvect={xname}) != (a1, a2)',
             r if isinstance(r, Raised) else np.array([np.ravel(r[0]), np.ravel(r[1])]), np.array([q1, q2]), 1e-9)
        # interchangeable: the same physical points asked for in plotting coordinates
        r = call(g.E_gsf, x=XY[:, 0].copy(), y=XY[:, 1].copy(), **kw)
        w = str(r) if isinstance(r, Raised) else _cmp(np.asarray(r)[inner], Ea[inner], 0, tolE)
        if w:
            bad('interchangeable', f'E_gsf(x=, y=, xvect={xname}) != E_gsf(a1=, a2=) for the same points: {w}; '
                                   f'a1={q1.tolist()}, a2={q2.tolist()}, x={XY[:, 0].tolist()}, y={XY[:, 1].tolist()}')
        r = call(g.E_gsf, x=float(XY[0, 0]), y=float(XY[0, 1]), **kw)
        w = str(r) if isinstance(r, Raised) else _cmp(r, Ea[:1], 0, tolE) if inner[0] else None
        if w:
            bad('interchangeable', f'E_gsf(x={float(XY[0, 0])!r}, y={float(XY[0, 1])!r}, xvect={xname}) (one point) != E_gsf(a1={q1[0]!r}, a2={q2[0]!r}): {w}')
        if Da is not None and offl.any():
            r = call(g.delta, x=XY[offl, 0].copy(), y=XY[offl, 1].copy(), **kw)
            w = str(r) if isinstance(r, Raised) else _cmp(r, np.asarray(Da)[offl], 0, tolD)
            if w:
                bad('interchangeable', f'delta(x=, y=, xvect={xname}) != delta(a1=, a2=): {w}')
    r = call(g.E_gsf, pos=Pf.copy())
    w = str(r) if isinstance(r, Raised) else _cmp(np.asarray(r)[inner], Ea[inner], 0, tolE)
    if w:
        bad('interchangeable', f'E_gsf(pos=) != E_gsf(a1=, a2=) for the same points: {w}; a1={q1.tolist()}, a2={q2.tolist()}')
    # fractional coordinates relative to another basis of the plane (a1vect=, a2vect= keywords): with
    # B1 = v1 + v2, B2 = v2 the point (a1, a2) is the surface's own (a1, a1 + a2); B1 = v2, B2 = v1 swaps them
    v1, v2 = np.array(vec3(spec['a1vect']), dtype=float), np.array(vec3(spec['a2vect']), dtype=float)
    for nm, kw, (o1, o2) in (('a1vect=v1+v2, a2vect=v2', {'a1vect': v1 + v2, 'a2vect': v2}, (q1, q1 + q2)),
                              ('a1vect=v1+v2', {'a1vect': v1 + v2}, (q1, q1 + q2)),
                              ('a1vect=v2, a2vect=v1', {'a1vect': v2, 'a2vect': v1}, (q2, q1)),
                              ('a2vect=v2-2v1', {'a2vect': v2 - 2 * v1}, (q1 - 2 * q2, q2))):
        want = call(g.E_gsf, a1=np.array(o1, dtype=float), a2=np.array(o2, dtype=float))
        r = call(g.E_gsf, a1=q1.copy(), a2=q2.copy(), **kw)
        inn = np.array([not ((c1_ < 1e-9 and abs(a - round(a)) < 1e-9) or (c2_ < 1e-9 and abs(b_ - round(b_)) < 1e-9))
                        for a, b_ in zip(np.ravel(o1), np.ravel(o2))])
        w = str(r) if isinstance(r, Raised) else str(want) if isinstance(want, Raised) else _cmp(np.asarray(r)[inn], np.asarray(want)[inn], 0, tolE)
        if w:
            bad('interchangeable', f'E_gsf(a1=, a2=, {nm}) != E_gsf of the same points in the own basis: {w}; a1={q1.tolist()}, a2={q2.tolist()}')
    # ... and the same keywords with a Cartesian position (absolute: keywords irrelevant) or with plotting coordinates
    # (x axis along the given a1vect): the points (a1, a2) of the basis B1 = v1 + v2, B2 = v2
    Bo1 = [A1[c] + A2[c] for c in range(3)]
    Po = [o_pos(Bo1, A2, (FF(a), FF(b_))) for a, b_ in zip(q1, q2)]
    Pof = np.array([[float(t) for t in p_] for p_ in Po])
    XYo = np.array([o_xy(A1, A2, Bo1, p_) for p_ in Po])
    want = call(g.E_gsf, a1=q1.copy(), a2=(q1 + q2).copy())
    inn = np.array([not ((c1_ < 1e-9 and abs(a - round(a)) < 1e-9) or (c2_ < 1e-9 and abs(b_ - round(b_)) < 1e-9)) for a, b_ in zip(q1, q1 + q2)])
    for nm, kw in (('pos=P', {'pos': Pof.copy()}), ('x=, y=', {'x': XYo[:, 0].copy(), 'y': XYo[:, 1].copy()})):
        for nv, kv in (('a1vect=v1+v2, a2vect=v2', {'a1vect': v1 + v2, 'a2vect': v2}), ('a1vect=v1+v2', {'a1vect': v1 + v2})):
            r = call(g.E_gsf, **kw, **kv)
            w = str(r) if isinstance(r, Raised) else str(want) if isinstance(want, Raised) else _cmp(np.asarray(r)[inn], np.asarray(want)[inn], 0, tolE)
            if w:
                bad('interchangeable', f'E_gsf({nm}, {nv}) != E_gsf(a1=, a2=, {nv}) for the same points P = a1 (A1 + A2) + a2 A2: {w}; '
                                       f'a1={q1.tolist()}, a2={q2.tolist()}, P={Pof.tolist()}')
            if Da is not None:
                offo = np.array([abs(a - round(a)) > 1e-6 and abs(b_ - round(b_)) > 1e-6 for a, b_ in zip(q1, q1 + q2)])
                if offo.any():
                    kwo = {k: val[offo] for k, val in kw.items()}
                    r, wd = call(g.delta, **kwo, **kv), call(g.delta, a1=q1[offo].copy(), a2=(q1 + q2)[offo].copy())
                    w = str(r) if isinstance(r, Raised) else str(wd) if isinstance(wd, Raised) else _cmp(r, wd, 0, tolD)
                    if w:
                        bad('interchangeable', f'delta({nm}, {nv}) != delta(a1=, a2=, {nv}) for the same points: {w}')
    # 2-D arrays of queries (what the surface plots pass): element-wise the same as the flat query
    if m >= 2 and m % 2 == 0:
        sh = (2, m // 2)
        for nm, kw, ref in (('E_gsf(a1=2-D, a2=2-D)', {}, Ea), ('E_gsf(a1=2-D, a2=2-D, smooth=False)', {'smooth': False}, None),
                            ('E_gsf(a1=2-D, a2=2-D, a1vect=v1+v2)', {'a1vect': v1 + v2}, want)):
            if ref is None:
                ref = call(g.E_gsf, a1=q1.copy(), a2=q2.copy(), smooth=False)
            r = call(g.E_gsf, a1=q1.reshape(sh).copy(), a2=q2.reshape(sh).copy(), **kw)
            w = str(r) if isinstance(r, Raised) else str(ref) if isinstance(ref, Raised) else \
                (f'shape {np.shape(r)}' if np.shape(r) != sh else _cmp(np.asarray(r).ravel()[inn if 'a1vect' in kw else inner], np.asarray(ref)[inn if 'a1vect' in kw else inner], 0, tolE))
            if w:
                bad('many', f'{nm} of shape {sh} is not element-wise the flat query: {w}; a1={q1.tolist()}, a2={q2.tolist()}')
        if Da is not None:
            r = call(g.delta, a1=q1.reshape(sh).copy(), a2=q2.reshape(sh).copy())
            w = str(r) if isinstance(r, Raised) else (f'shape {np.shape(r)}' if np.shape(r) != sh else _cmp(np.asarray(r).ravel(), Da, 0, tolD))
            if w:
                bad('many', f'delta(a1=2-D, a2=2-D) of shape {sh} is not element-wise the flat query: {w}')
    r = call(g.E_gsf, pos=Pf[0].copy())
    w = str(r) if isinstance(r, Raised) else _cmp(r, Ea[:1], 0, tolE) if inner[0] else None
    if w:
        bad('interchangeable', f'E_gsf(pos=one position) != E_gsf(a1={q1[0]!r}, a2={q2[0]!r}): {w}')
    if Da is not None and offl.any():
        r = call(g.delta, pos=Pf[offl].copy())
        w = str(r) if isinstance(r, Raised) else _cmp(r, np.asarray(Da)[offl], 0, tolD)
        if w:
            bad('interchangeable', f'delta(pos=) != delta(a1=, a2=): {w}')
    # -- (5) data-model round trip (DataModelDict, JSON text, XML text; several units)
    for form, lu, eu in case['models']:
        ctx.stats.case('s:model', (spec['tag'], form, lu, eu, spec['n1'], spec['n2'], has_d))

        def trip():
            mdl = g.model(length_unit=lu, energyperarea_unit=eu)
            return am.defect.GammaSurface(model={'dm': mdl, 'json': mdl.json(), 'xml': mdl.xml()}[form])
        g2 = call(trip)
        if isinstance(g2, Raised):
            bad('model', f'GammaSurface(model=g.model(length_unit={lu!r}, energyperarea_unit={eu!r}) as {form}) {g2}')
            continue
        w = (_cmp(g2.data.a1.values, spec['a1'], 1e-14, 1e-15) or _cmp(g2.data.a2.values, spec['a2'], 1e-14, 1e-15)
             or _cmp(g2.data.E_gsf.values, spec['E'], 1e-12, 1e-14 * scale)
             or _cmp(g2.a1vect, vec3(spec['a1vect']), 1e-14, 0) or _cmp(g2.a2vect, vec3(spec['a2vect']), 1e-14, 0)
             or _cmp(g2.box.vects, g.box.vects, 1e-12, 1e-14 * L)
             or (('delta' in g2.data) != has_d and 'plane-separation data lost/invented')
             or (has_d and _cmp(g2.data.delta.values, spec['delta'], 1e-12, 1e-14 * uL)))
        if w:
            bad('model', f'data-model round trip ({form}, {lu}, {eu}) changes the data: {w}')
            continue
        r = call(g2.E_gsf, a1=q1.copy(), a2=q2.copy())
        w = str(r) if isinstance(r, Raised) else _cmp(r, Ea, 0, tolE)
        if w:
            bad('model', f'E_gsf of the reloaded surface ({form}) differs: {w}')


# -- SDVPN: every energy term from its documented formula ---------------------------------------

def o_density(x, d, cdiff):
    k = 2 if cdiff else 1
    return [[(d[i + k][c] - d[i][c]) / (x[i + k] - x[i]) for c in range(3)] for i in range(len(x) - k)]


def o_terms(K, b, st, x, d):
    """(value, sum of |summands|) of elastic, longrange, stress, surface, nonlocal for settings `st`:
    E_elastic   = 1/(4 pi) sum_i sum_j chi(i,j,dx) K_lm rho_l[i] rho_m[j]
                  chi = 3/2 dx^2 + psi(i-1,j-1) + psi(i,j) - psi(i,j-1) - psi(j,i-1),  psi(i,j) = 1/2 (i-j)^2 dx^2 ln(|i-j| dx)
    E_longrange = 1/(2 pi) K_lm b_l b_m ln(L)
    E_stress    = -1/2 sum_i (x[i]^2 - x[i-1]^2) rho_l[i] tau_2l     (fullstress; rho[i] between x[i-1] and x[i],
                                                                        or centred at x[i] for the central difference)
                | +1/2 sum_i tau_2l (d_l[i] + d_l[i+1]) dx           (Shen-Cheng form, sign of tau flipped as coded)
    E_surface   = sum_j beta_lj / 4 sum_i rho_l[i]^2 dx
    E_nonlocal  = sum_m alpha_m sum_i d[i] . (d[i] - (d[i+m] + d[i-m]) / 2) dx"""
    x = fvec(x)
    d = [fvec(r) for r in d]
    K = [fvec(r) for r in K]
    b = fvec(b)
    n = len(x)
    dx = x[1] - x[0]
    pi = F(math.pi)
    out = {}
    # elastic
    rho = o_density(x, d, st['cdiffelastic'])
    nr = len(rho)
    lg = {k: F(math.log(k * float(dx))) for k in range(1, nr + 2)}

    def psi(i, j):
        return F(0) if i == j else F(1, 2) * (i - j) ** 2 * dx * dx * lg[abs(i - j)]
    tot = ab = F(0)
    Kr = [[sum(r[l] * K[l][m_] for l in range(3)) for m_ in range(3)] for r in rho]
    for i in range(nr):
        for j in range(nr):
            chi = F(3, 2) * dx * dx + psi(i - 1, j - 1) + psi(i, j) - psi(i, j - 1) - psi(j, i - 1)
            t = chi * fdot(Kr[i], rho[j])
            tot += t
            ab += abs(t)
    out['elastic'] = (tot / (4 * pi), ab / (4 * pi))
    # longrange
    v = sum(K[l][m_] * b[l] * b[m_] for l in range(3) for m_ in range(3)) * F(math.log(st['cutofflongrange'])) / (2 * pi)
    out['longrange'] = (v, abs(v))
    # stress
    t2 = fvec(st['tau'][1])
    tot = ab = F(0)
    if st['fullstress']:
        rho = o_density(x, d, st['cdiffstress'])
        for i in range(1, len(rho) + 1):
            t = -F(1, 2) * (x[i] ** 2 - x[i - 1] ** 2) * fdot(rho[i - 1], t2)
            tot += t
            ab += abs(t)
    else:
        for i in range(n - 1):
            t = F(1, 2) * fdot(t2, [d[i][c] + d[i + 1][c] for c in range(3)]) * dx
            tot += t
            ab += abs(t)
    out['stress'] = (tot, ab)
    # surface
    rho = o_density(x, d, st['cdiffsurface'])
    beta = [fvec(r) for r in st['beta']]
    tot = ab = F(0)
    for r in rho:
        for l in range(3):
            for j in range(3):
                t = beta[l][j] / 4 * r[l] ** 2 * dx
                tot += t
                ab += abs(t)
    out['surface'] = (tot, ab)
    # nonlocal
    tot = ab = F(0)
    for k, a in enumerate(st['alpha']):
        m_ = k + 1
        for i in range(m_, n - m_):
            t = FF(a) * sum(d[i][c] * (d[i][c] - (d[i + m_][c] + d[i - m_][c]) / 2) for c in range(3)) * dx
            tot += t
            ab += abs(t)
    out['nonlocal'] = (tot, ab)
    return out


def o_misfit(g, T, A1, A2, x, d, scale):
    """dx * sum_i gamma(delta_i): the gamma surface asked one point at a time in FRACTIONAL coordinates obtained
    by an exact solve of (dx, 0, dz).T = a1 A1 + a2 A2."""
    np = _np()
    Tq = [fvec(r) for r in T]
    tot = 0.0
    ab = 0.0
    for row in d:
        dr = [FF(row[0]), F(0), FF(row[2])]
        pos = [sum(dr[l] * Tq[l][k] for l in range(3)) for k in range(3)]
        a = exact_a12(A1, A2, pos)
        e = float(np.ravel(g.E_gsf(a1=float(a[0]), a2=float(a[1])))[0])
        tot += e
        ab += abs(e)
    dx = float(x[1]) - float(x[0])
    return tot * dx, (ab + scale * len(d)) * abs(dx)


TERMS = ('misfit', 'elastic', 'longrange', 'stress', 'nonlocal', 'surface')


def _impl_terms(pn, kw):
    return {'misfit': call(pn.misfit_energy, **kw), 'elastic': call(pn.elastic_energy, **kw),
            'longrange': call(pn.longrange_energy), 'stress': call(pn.stress_energy, **kw),
            'nonlocal': call(pn.nonlocal_energy, **kw), 'surface': call(pn.surface_energy, **kw),
            'total': call(pn.total_energy, **kw)}


PRINTED = {'Misfit energy': 'misfit', 'Elastic energy': 'elastic', 'Long-range energy': 'longrange', 'Stress energy': 'stress',
           'Surface energy': 'surface', 'Nonlocal energy': 'nonlocal', 'Total energy': 'total'}


def _printed_energies(pn, kw, unit=None):
    """what check_energies(x=, disregistry=) prints, parsed: {term: value}."""
    import contextlib
    import io
    buf = io.StringIO()
    with contextlib.redirect_stdout(buf):
        pn.check_energies(**kw, **({} if unit is None else {'energyperlength_unit': unit}))
    out = {}
    for line in buf.getvalue().splitlines():
        if '=' in line:
            k, v = line.split('=', 1)
            if k.strip() in PRINTED:
                out[PRINTED[k.strip()]] = float(v)
    return out


def _check_terms(ctx, case, bad, pn, g, K, b, T, A1, A2, st, x, d, mode, when, scale, stored=None, eunit=1.0, punit=None):
    """all six terms and the total of the real object `pn` against the oracle for settings `st`, the methods being
    CALLED with the subset `mode` of their optional arguments (both | none | x only | disregistry only), plus
    disldensity and check_energies with the same subset.  `eunit` = magnitude of one eV/angstrom (energy per length) in
    the numbers at hand: 1 in the default working units; the absolute floor of every tolerance is a multiple of it and
    the summary printed by check_energies (in eV/angstrom) is multiplied by it before it is compared."""
    np = _np()
    punit = eunit if punit is None else punit          # one eV/angstrom in the CURRENT working units (what check_energies divides by)
    if mode is True or mode is False:
        mode = 'both' if mode else 'none'
    kw, x, d = mode_args(mode, np.asarray(x, dtype=float), np.asarray(d, dtype=float), stored)
    x, d = np.asarray(x, dtype=float), np.asarray(d, dtype=float)
    args = '(' + ', '.join(k + '=' for k in kw) + ')'
    if mode != 'both':
        when = f'{when}; methods called as {args} on an object holding a stored x (n={len(stored[0])}) and disregistry'
    impl = _impl_terms(pn, kw)
    want = o_terms(K, b, st, x, d)
    mis = call(o_misfit, g, T, A1, A2, x, d, scale)
    if isinstance(mis, Raised):
        bad('misfit', f'{when}: evaluating the gamma surface point by point {mis}')
        return False
    want['misfit'] = mis
    ok = True
    fl = {k: st[k] for k in FLAGS}
    tot = 0.0
    tol_tot = 0.0
    tols = {}
    for t in TERMS:
        wv, wa = float(want[t][0]), float(want[t][1])
        tol = 1e-9 * wa + 1e-13 * eunit
        tols[t] = tol
        tot += wv
        tol_tot += tol
        ctx.stats.case('s:term:' + t, (case['system'], when, str(fl), wv))
        if isinstance(impl[t], Raised):
            bad(t, f'{when}: {t}_energy{args} {impl[t]} ({fl})')
            ok = False
        elif not abs(float(impl[t]) - wv) <= tol:
            bad(t, f'{when}: {t}_energy{args} = {float(impl[t])!r} but its documented formula on the requested profile gives {wv!r} '
                   f'({fl}, cutofflongrange={st["cutofflongrange"]}, tau[1]={st["tau"][1]}, alpha={st["alpha"]}, n={len(x)}'
                   + (f', x={x.tolist()}, disregistry={d.tolist()}' if mode != 'both' else '') + ')')
            ok = False
    ctx.stats.case('s:term:total', (case['system'], when, str(fl), tot))
    tols['total'] = tol_tot
    if isinstance(impl['total'], Raised):
        bad('total', f'{when}: total_energy{args} {impl["total"]}')
        ok = False
    elif not abs(float(impl['total']) - tot) <= tol_tot:
        bad('total', f'{when}: total_energy{args} = {float(impl["total"])!r} but the sum of the six documented terms is {tot!r} ({fl}, '
                     f'cutofflongrange={st["cutofflongrange"]})')
        ok = False
    if not ok:
        return False
    # the summary printed by check_energies for the same arguments (eV/angstrom = working units)
    pr = call(_printed_energies, pn, kw)
    ctx.stats.case('s:check_energies', (case['system'], when, mode))
    wantp = {t: float(want[t][0]) for t in TERMS}
    wantp['total'] = tot
    if isinstance(pr, Raised) or sorted(pr) != sorted(wantp):
        bad('check_energies', f'{when}: check_energies{args} {pr if isinstance(pr, Raised) else "prints " + str(sorted(pr))}')
        ok = False
    else:
        for t in wantp:
            if not abs(pr[t] * punit - wantp[t]) <= tols[t] + 1e-12 * abs(wantp[t]):
                bad('check_energies', f'{when}: check_energies{args} prints {t} = {pr[t]!r} eV/angstrom, documented formula {wantp[t] / punit!r}')
                ok = False
    # disldensity with the same subset of arguments: coordinates and density
    xf, df = fvec(x), [fvec(r_) for r_ in d]
    for cd in (False, True):
        r = call(pn.disldensity, cdiff=cd, **kw)
        ctx.stats.case('s:disldensity', (case['system'], when, mode, cd))
        rho = [[float(t) for t in row] for row in o_density(xf, df, cd)]
        wx = x[1:-1] if cd else x[1:]
        w = str(r) if isinstance(r, Raised) else (_cmp(r[0], wx, 0, 0) or _cmp(r[1], rho, 1e-12, 1e-13))
        if w:
            bad('disldensity', f'{when}: disldensity({", ".join(list(kw) + ["cdiff=" + str(cd)])}) is not (x[{"1:-1" if cd else "1:"}], '
                               f'(d[i+{2 if cd else 1}] - d[i]) / (x[i+{2 if cd else 1}] - x[i])): {w}')
            ok = False
    return ok


def _system(case):
    """(volterra, gamma, A1, A2, scale) of a case dict."""
    v, _ = mk_volterra(case["system"])
    g = mk_gamma(case['spec'])
    A1, A2 = o_cart(case['spec'])
    return v, g, A1, A2, max(1.0, max(abs(t) for t in case['spec']['E']))


def _apply_op(np, mod, pn, op, st, v, g, x, d, stored):
    """apply one edit to the real object and to the settings record; returns (Raised|None, x, d, stored) where
    (x, d) is the profile to evaluate explicitly and `stored` = (x, d) the object is supposed to hold now (None: none)."""
    if op['kind'] == 'set':
        r = call(setattr, pn, op['attr'], np.array(op['value']) if op['attr'] in ('tau', 'beta') else op['value'])
        st[op['attr']] = op['value']
        return (r if isinstance(r, Raised) else None), x, d, stored
    if op['kind'] == 'store':
        # the property setters obj.x = ..., obj.disregistry = ...
        sx, sd = np.array(op['x'], dtype=float), np.array(op['d'], dtype=float)
        for f in op['which']:
            r = call(setattr, pn, 'x' if f == 'x' else 'disregistry', (sx if f == 'x' else sd).copy())
            if isinstance(r, Raised):
                return r, x, d, stored
        return None, x, d, (sx if 'x' in op['which'] else stored[0], sd if 'd' in op['which'] else stored[1])
    if op['kind'] == 'solve':
        kw = {a: (np.array(val) if a in ('tau', 'beta') else val) for a, val in op['kw'].items()}
        if op.get('x') is not None:
            x, d = np.array(op['x']), np.array(op['d'])
        akw, x, d = mode_args(op.get('args', 'both') if stored is not None else 'both', np.asarray(x, dtype=float), np.asarray(d, dtype=float), stored)
        x, d = np.array(x, dtype=float), np.array(d, dtype=float)
        if 'disregistry' not in akw:
            # the guess solve() starts from IS the profile the object holds (after a load written in other units it may differ
            # from the saved numbers in the last place): the ends must be exactly THOSE
            d0 = call(lambda: np.asarray(pn.disregistry, dtype=float).copy())
            if not isinstance(d0, Raised) and d0.shape == d.shape and np.allclose(d0, d, rtol=1e-12, atol=0.0):
                d = d0
        r = call(pn.solve, **{k_: np.array(v_).copy() for k_, v_ in akw.items()}, min_method=op.get('method', 'Nelder-Mead'),
                 min_options=dict(op.get('options', {'maxfev': 10})), **kw)
        st.update(op['kw'])
        if isinstance(r, Raised):
            return r, x, d, stored
        got = call(lambda: np.asarray(pn.disregistry, dtype=float).copy())
        if isinstance(got, Raised) or got.shape != np.shape(d):
            return Raised(ValueError(f'disregistry after solve: {got if isinstance(got, Raised) else got.shape}')), x, d, stored
        if not (np.array_equal(got[0], d[0]) and np.array_equal(got[-1], d[-1])):
            return Raised(ValueError(f'solve({", ".join(k_ + "=" for k_ in akw)}) moved an end disregistry of the guess it was to start from: '
                                     f'{d[0].tolist()} -> {got[0].tolist()}, {d[-1].tolist()} -> {got[-1].tolist()}')), x, d, stored
        return None, np.array(x, dtype=float), got, (np.array(x, dtype=float), got.copy())
    if op['kind'] == 'profile':
        # no edit of the object: the next evaluation uses another profile with the SAME number of points and a
        # different grid spacing (anything remembered per length of the profile would be stale)
        return None, np.array(op['x']), np.array(op['d']), stored
    if op['kind'] == 'load':
        src = new_pn(v, g, op['settings'])
        src.x, src.disregistry = np.array(op['x']), np.array(op['d'])
        un = op.get('units', ['Å', 'GPa', 'eV/Å^2'])
        m = src.model(include_gamma=bool(op.get('include_gamma')), length_unit=un[0], pressure_unit=un[1],
                      **({'energyperarea_unit': un[2]} if len(un) > 2 else {}))
        form = {'dm': m, 'json': m.json(), 'xml': m.xml()}[op['form']]
        r = call(pn.load, form, **({} if op.get('include_gamma') else {'gamma': g}))
        st.clear()
        st.update(op['settings'])
        if isinstance(r, Raised):
            return r, x, d, stored
        # the oracle uses the profile that was SAVED (a unit slip in x / disregistry shows up in every term)
        sx, sd = np.array(op['x'], dtype=float), np.array(op['d'], dtype=float)
        return None, sx, sd, (sx.copy(), sd.copy())
    raise ValueError(op['kind'])


def chk_sdvpn(ctx, case):
    """each energy term = independent evaluation of its documented formula; total = sum; on a fresh object and
    after every step of an edit sequence on ONE object (setters, solve(**kwargs), load), where the same
    settings on a fresh object must give the same energies."""
    np = _np()

    def bad(key, what):
        ctx.violate('sdvpn:' + key, f'{what} [{case["system"]}]', case)

    try:
        v, g, A1, A2, scale = _system(case)
        st = dict(case['settings'])
        pn = new_pn(v, g, st)
    except cm.InfraError:
        raise
    except Exception as e:  # noqa
        bad('construct', f'constructing the SDVPN object raised {type(e).__name__}: {e}')
        return
    mod = sys.modules['atomman.defect.SDVPN']
    # the object's K_tensor / burgers / transform: the Volterra solution's, expressed in its [m, n, xi] frame
    # (K' = M K M^T, b' = M b, T' = M T with rows of M = m, n, xi) -- own exact evaluation
    M = [fvec(v.m), fvec(v.n), fvec(v.ξ)]
    Kv, bv, Tv = [fvec(r_) for r_ in v.K_tensor], fvec(v.burgers), [fvec(r_) for r_ in v.transform]
    K = np.array([[float(sum(M[i][k] * Kv[k][l] * M[j][l] for k in range(3) for l in range(3))) for j in range(3)] for i in range(3)])
    b = np.array([float(sum(M[i][k] * bv[k] for k in range(3))) for i in range(3)])
    T = np.array([[float(sum(M[i][k] * Tv[k][j] for k in range(3))) for j in range(3)] for i in range(3)])
    ctx.stats.case('s:frame-setup', (case['system'],))
    w = (_cmp(pn.K_tensor, K, 1e-12, 1e-14) or _cmp(pn.burgers, b, 1e-12, 1e-14) or _cmp(pn.transform, T, 1e-12, 1e-14))
    if w:
        bad('frame-setup', f'K_tensor / burgers / transform of the object are not the Volterra solution\'s in its [m, n, xi] frame: {w}')
        return
    x, d = np.array(case['x'], dtype=float), np.array(case['d'], dtype=float)
    _check_terms(ctx, case, bad, pn, g, K, b, T, A1, A2, st, x, d, True, 'fresh object', scale)
    # disldensity on a NON-uniform grid (explicit arguments): rho[i] = (d[i+k] - d[i]) / (x[i+k] - x[i]), k = 1 | 2
    if case.get('xnu') is not None:
        xnu = np.array(case['xnu'], dtype=float)
        for cd in (False, True):
            r = call(pn.disldensity, xnu, d, cdiff=cd)
            ctx.stats.case('s:disldensity:nonuniform', (case['system'], tuple(xnu), cd))
            rho = [[float(t) for t in row] for row in o_density(fvec(xnu), [fvec(r_) for r_ in d], cd)]
            w = str(r) if isinstance(r, Raised) else (_cmp(r[0], xnu[1:-1] if cd else xnu[1:], 0, 0) or _cmp(r[1], rho, 1e-12, 1e-13))
            if w:
                bad('disldensity', f'disldensity(x, disregistry, cdiff={cd}) on the non-uniform grid x={xnu.tolist()} is not the '
                                   f'{"central" if cd else "neighbour"} difference quotient: {w}')
    stored = None
    for k, op in enumerate(case.get('ops', [])):
        when = f'after step {k + 1} of {[o["kind"] + (":" + o["attr"] if o["kind"] == "set" else ":" + ",".join(sorted(o["kw"]) + (["args given: " + o["args"]] if o.get("args", "both") != "both" else [])) if o["kind"] == "solve" else ":" + o["which"] if o["kind"] == "store" else ":" + o["form"] + "," + "/".join(o.get("units", [])) if o["kind"] == "load" else "") for o in case["ops"][:k + 1]]} on one object'
        r, x, d, stored = _apply_op(np, mod, pn, op, st, v, g, x, d, stored)
        given = stored is None
        if r is not None:
            bad('seq:raises', f'{when}: {r}')
            return
        okf = (np.allclose(pn.K_tensor, K, rtol=1e-12, atol=1e-14) and np.allclose(pn.burgers, b, rtol=1e-12, atol=1e-14)
               and np.allclose(pn.transform, T, rtol=1e-12, atol=1e-14))
        if not okf:
            bad('seq:frame', f'{when}: K_tensor / burgers / transform changed')
            return
        ok = _check_terms(ctx, case, bad, pn, g, K, b, T, A1, A2, st, x, d, True, when, scale)
        if not given:
            # every other subset of the optional arguments: none / x only / disregistry only
            for mode in MODES[1:]:
                ok = _check_terms(ctx, case, bad, pn, g, K, b, T, A1, A2, st, x, d, mode, when, scale, stored) and ok
        # the same settings on a fresh object
        fresh = call(new_pn, v, g, st)
        if not isinstance(fresh, Raised):
            e1, e2 = call(pn.total_energy, x, d), call(fresh.total_energy, x, d)
            ctx.stats.case('s:seq:fresh', (case['system'], when, repr(e2)))
            if isinstance(e1, Raised) or isinstance(e2, Raised) or not abs(float(e1) - float(e2)) <= 1e-10 * (abs(float(e2)) + 1.0):
                bad('seq:fresh', f'{when}: total_energy = {e1!s} but a fresh object with the same settings gives {e2!s}')
        if not ok:
            return


def chk_elastic(ctx, case):
    """the elastic term is a quadratic form of the density (parallelogram law, scaling) and does not change under
    a rigid shift of the disregistry."""
    np = _np()

    def bad(key, what):
        ctx.violate('elastic:' + key, f'{what} [{case["system"]}, cdiffelastic={case["cdiff"]}]', case)
    try:
        v, g, A1, A2, scale = _system(case)
        import atomman as am
        pn = am.defect.SDVPN(volterra=v, gamma=g, cdiffelastic=case['cdiff'])
    except cm.InfraError:
        raise
    except Exception as e:  # noqa
        bad('construct', f'{type(e).__name__}: {e}')
        return
    x = np.array(case['x'])
    d1, d2 = np.array(case['d']), np.array(case['d2'])
    c = np.array(case['shift'])
    s_ = case['scale']
    E = lambda dd: call(pn.elastic_energy, x, dd)   # noqa: E731
    q1, q2, qp, qm, qs, qsh = E(d1), E(d2), E(d1 + d2), E(d1 - d2), E(s_ * d1), E(d1 + c)
    ctx.stats.case('s:elastic', (case['system'], case['cdiff'], tuple(x), tuple(d1.ravel()), tuple(c)))
    if any(isinstance(t, Raised) for t in (q1, q2, qp, qm, qs, qsh)):
        bad('raises', f'elastic_energy raised: {[str(t) for t in (q1, q2, qp, qm, qs, qsh) if isinstance(t, Raised)][:1]}')
        return
    mag = abs(q1) + abs(q2) + abs(qp) + abs(qm) + 1e-30
    if abs(qsh - q1) > 1e-9 * (abs(q1) + 1e-30) + 1e-9 * mag * 1e-3:
        bad('shift', f'elastic_energy changes under the rigid shift {c.tolist()} of the disregistry: {q1!r} -> {qsh!r}')
    if abs(qp + qm - 2 * q1 - 2 * q2) > 1e-9 * mag:
        bad('quadratic', f'parallelogram law fails: Q(d1+d2) + Q(d1-d2) = {qp + qm!r}, 2Q(d1) + 2Q(d2) = {2 * q1 + 2 * q2!r}')
    if abs(qs - s_ * s_ * q1) > 1e-9 * (abs(s_ * s_ * q1) + 1e-30):
        bad('quadratic', f'Q({s_} d) = {qs!r} != {s_}^2 Q(d) = {s_ * s_ * q1!r}')


def chk_solve(ctx, case):
    """the real minimiser: the total energy never rises, the end disregistries (and x) stay, interior y stays 0."""
    np = _np()

    def bad(key, what):
        ctx.violate('solve:' + key, f'{what} [{case["system"]}, method {case["method"]} {case["options"]}]', case)
    try:
        v, g, A1, A2, scale = _system(case)
        pn = new_pn(v, g, case['settings'])
    except cm.InfraError:
        raise
    except Exception as e:  # noqa
        bad('construct', f'{type(e).__name__}: {e}')
        return
    x, d = np.array(case['x']), np.array(case['d'])
    e0 = call(pn.total_energy, x, d)
    r = call(pn.solve, x=x.copy(), disregistry=d.copy(), min_method=case['method'], min_options=dict(case['options']))
    ctx.stats.case('s:solve', (case['system'], case['method'], str(case['options']), tuple(x), tuple(d.ravel())))
    if isinstance(r, Raised) or isinstance(e0, Raised):
        bad('raises', f'solve {r if isinstance(r, Raised) else e0}')
        return
    got = np.asarray(pn.disregistry)
    e1 = call(pn.total_energy)
    e1x = call(pn.total_energy, x, got)
    if isinstance(e1, Raised) or isinstance(e1x, Raised):
        bad('raises', f'total_energy after solve {e1}')
        return
    if got.shape != d.shape or not np.array_equal(got[0], d[0]) or not np.array_equal(got[-1], d[-1]):
        bad('ends', f'solve moved an end disregistry: first {d[0].tolist()} -> {got[0].tolist()}, last {d[-1].tolist()} -> {got[-1].tolist()}')
    elif np.any(got[1:-1, 1] != 0.0):
        bad('ends', 'solve produced a non-zero out-of-plane (y) disregistry')
    if not np.array_equal(np.asarray(pn.x), x):
        bad('ends', 'solve changed the x coordinates')
    if not float(e1) <= float(e0) + 1e-12 * (abs(float(e0)) + 1.0):
        bad('raises-energy', f'solve raised the total energy: {float(e0)!r} -> {float(e1)!r}')
    if abs(float(e1) - float(e1x)) > 1e-12 * (abs(float(e1)) + 1.0):
        bad('stored', f'total_energy() of the stored solution {float(e1)!r} != total_energy(x, disregistry) {float(e1x)!r}')
    # a second solve from the solution must not raise it either
    r = call(pn.solve)
    e2 = call(pn.total_energy)
    if isinstance(r, Raised) or isinstance(e2, Raised):
        bad('raises', f'second solve() {r if isinstance(r, Raised) else e2}')
    elif not float(e2) <= float(e1) + 1e-12 * (abs(float(e1)) + 1.0):
        bad('raises-energy', f'a second solve() raised the total energy: {float(e1)!r} -> {float(e2)!r}')


def chk_halfwidth(ctx, case):
    """sinusoidal misfit law gamma(u) = g0/2 (1 - cos(2 pi u / b)): over arctangent profiles (end disregistries 0 and
    b) the total energy is lowest at the classical half-width zeta = K b^2 / (4 pi^2 g0), K = b.K.b / b^2.
    Stated tolerance: window [-X, X] truncates the profile, which moves the minimum by ~(zeta/X) ln(X/zeta)
    (measured; first order in zeta/X), the grid by (dx/zeta)^2 / 12, the Rbf fit of n1 samples of the cosine by
    < 1 %: |w_min / zeta - 1| <= 1.5 (zeta/X) ln(X/zeta) + (dx/zeta)^2 + 0.02."""
    import atomman as am
    np = _np()

    def bad(key, what):
        ctx.violate('halfwidth:' + key, what, case)
    b, g0 = case['b'], case['g0']
    try:
        C = am.ElasticConstants(E=case['E'], nu=case['nu'])
        if case['kind'] == 'edge':
            v = am.defect.solve_volterra_dislocation(C, burgers=[b, 0, 0], transform=np.eye(3))
            a1v, a2v = [b, 0.0, 0.0], [0.0, 0.0, 4.0]
        else:
            v = am.defect.solve_volterra_dislocation(C, burgers=[0, 0, b], transform=np.eye(3))
            a1v, a2v = [0.0, 0.0, b], [3.0, 0.0, 0.0]
        n1, n2 = case['n1'], 3
        a1 = [i / n1 for i in range(n1) for j in range(n2)]
        a2 = [j / n2 for i in range(n1) for j in range(n2)]
        E = [g0 / 2 * (1 - math.cos(2 * math.pi * p)) for p in a1]
        g = am.defect.GammaSurface(a1vect=a1v, a2vect=a2v, a1=np.array(a1), a2=np.array(a2), E_gsf=np.array(E))
        pn = am.defect.SDVPN(volterra=v, gamma=g)
        bv = np.array(pn.burgers, dtype=float)
        Kbb = float(bv @ pn.K_tensor @ bv) / b ** 2
    except cm.InfraError:
        raise
    except Exception as e:  # noqa
        bad('construct', f'{type(e).__name__}: {e}')
        return
    zeta = Kbb * b * b / (4 * math.pi ** 2 * g0)
    dx = b * case['step_frac']
    X = case['xmax_fac'] * zeta
    nx = int(X / dx)
    x = np.arange(-nx, nx + 1) * dx
    X = nx * dx

    def energy(w):
        xx, d = am.defect.pn_arctan_disregistry(x=x, burgers=bv, halfwidth=w, normalize=True)
        return float(pn.total_energy(xx, d))
    ws = [zeta * (0.5 + 0.0625 * k) for k in range(25)]     # 0.5 .. 2.0 zeta
    Es = call(lambda: [energy(w) for w in ws])
    ctx.stats.case('s:halfwidth', (case['kind'], b, g0, case['E'], case['nu'], n1, case['step_frac'], case['xmax_fac']),
                   sample={'op': 'halfwidth scan', 'zeta': zeta, 'dx': dx, 'X': X, 'points': len(x)})
    if isinstance(Es, Raised):
        bad('raises', f'energy of an arctangent profile {Es}')
        return
    k = int(np.argmin(Es))
    if 0 < k < len(ws) - 1:
        p_ = np.polyfit(ws[k - 1:k + 2], Es[k - 1:k + 2], 2)
        wmin = float(-p_[1] / (2 * p_[0]))
    else:
        wmin = ws[k]
    tol = 1.5 * (zeta / X) * math.log(X / zeta) + (dx / zeta) ** 2 + 0.02
    ctx.extra.setdefault('halfwidth_scans', []).append({'kind': case['kind'], 'zeta': round(zeta, 5), 'wmin_over_zeta': round(wmin / zeta, 4),
                                                         'tolerance': round(tol, 4), 'points': len(x)})
    if abs(wmin / zeta - 1) > tol:
        bad('minimum', f'energy over arctangent profiles is lowest at half-width {wmin!r} = {wmin / zeta:.4f} x the classical '
                       f'K b^2/(4 pi^2 g0) = {zeta!r} (tolerance {tol:.3f}; {case["kind"]}, b={b}, g0={g0}, dx=b*{case["step_frac"]}, X={X:.2f})')


def chk_arctan(ctx, case):
    """analytic arctangent profile and its density against the closed forms (math.atan)."""
    import atomman as am
    np = _np()

    def bad(key, what):
        ctx.violate('arctan:' + key, what, case)
    b = np.array(case['burgers'])
    c, w = case['center'], case['halfwidth']
    if case.get('grid') is not None:
        # the grid given by two of (xmax, xstep, xnum): n points from -xmax to xmax, spacing xstep
        gk = case['grid']
        n_ = gk['n']
        xm = gk['xmax']
        x = np.array([-xm + (2 * xm) * i / (n_ - 1) for i in range(n_)])
        # the number of points as a python int, a WHOLE-NUMBER float (the code documents "round xnum to int if needed"),
        # or the numpy scalars of the two
        xn = {'int': int, 'float': float, 'np.int64': np.int64, 'np.float64': np.float64}[gk.get('xnum_form', 'int')](n_)
        kwx = {k: {'xmax': xm, 'xstep': gk['xstep'], 'xnum': xn}[k] for k in gk['given']}
    else:
        x = np.array(case['x'])
        kwx = {'x': x}
    r = call(am.defect.pn_arctan_disregistry, burgers=b, center=c, halfwidth=w, normalize=case['normalize'], shift=case['shift'], **kwx)
    r2 = call(am.defect.pn_arctan_disldensity, burgers=b, center=c, halfwidth=w, normalize=case['normalize'], **kwx)
    ctx.stats.case('s:arctan', (tuple(x), tuple(b), c, w, case['normalize'], case['shift'], str(sorted(kwx)), (case.get('grid') or {}).get('xnum_form')))
    if case.get('grid') is not None and not isinstance(r, Raised) and not isinstance(r2, Raised):
        wv = _cmp(r[0], x, 1e-13, 1e-13) or _cmp(r2[0], x, 1e-13, 1e-13)
        if wv:
            bad('grid', f'pn_arctan_*({ {k: (repr(kwx[k]) if k == "xnum" else kwx[k]) for k in kwx} }) does not use the {n_} points from -xmax to xmax with spacing xstep: {wv}')
            return
        x = np.asarray(r[0], dtype=float)
    if isinstance(r, Raised) or isinstance(r2, Raised):
        bad('raises', f'pn_arctan_*({"x=..." if "x" in kwx else {k: (repr(v_) if k == "xnum" else v_) for k, v_ in kwx.items()}}) {r if isinstance(r, Raised) else r2}')
        return
    raw = [[bi / math.pi * math.atan((xi - c) / w) + bi / 2 for bi in b] for xi in x]
    nb = math.sqrt(sum(bi * bi for bi in b))
    span = math.sqrt(sum((raw[-1][k] - raw[0][k]) ** 2 for k in range(3)))
    want = [[(row[k] - raw[0][k]) * nb / span for k in range(3)] for row in raw] if case['normalize'] else raw
    if not case['shift']:
        want = [[row[k] - b[k] / 2 for k in range(3)] for row in want]
    wd = [[bi / math.pi * w / ((xi - c) ** 2 + w * w) * (nb / span if case['normalize'] else 1.0) for bi in b] for xi in x]
    wv = _cmp(r[1], want, 1e-11, 1e-13) or _cmp(r[0], x, 0, 0)
    if wv:
        bad('disregistry', f'pn_arctan_disregistry != b/pi atan((x-c)/w) + b/2 (normalize={case["normalize"]}, shift={case["shift"]}): {wv}')
    wv = _cmp(r2[1], wd, 1e-11, 1e-13)
    if wv:
        bad('disldensity', f'pn_arctan_disldensity != b/pi w/((x-c)^2 + w^2) (normalize={case["normalize"]}): {wv}')


# ========================================================================================
# cross-cutting classes (round 4): working units, aliasing, input forms, scales, falsy values, positional order,
# file-like models, repeated solves, observation order.  One search op `xcut`, dispatched on case['kind'].
# ========================================================================================
DEFAULT_UNITS = {'length': 'angstrom', 'mass': 'amu', 'energy': 'eV', 'charge': 'e'}
UNIT_CFGS = [
    {'name': 'SI', 'seed': 'SI'},
    {'name': 'nm-amu-eV-e', 'kw': {'length': 'nm', 'mass': 'amu', 'energy': 'eV', 'charge': 'e'}},
    {'name': 'm-kg-s-C', 'kw': {'length': 'm', 'mass': 'kg', 'time': 's', 'charge': 'C'}},
    {'name': 'pm-J-ps-e', 'kw': {'length': 'pm', 'energy': 'J', 'time': 'ps', 'charge': 'e'}},
    {'name': 'cm-g-s-C', 'kw': {'length': 'cm', 'mass': 'g', 'time': 's', 'charge': 'C'}},
    {'name': 'default', 'kw': DEFAULT_UNITS},
]


def set_units(cfg):
    import atomman.unitconvert as uc
    if 'seed' in cfg:
        uc.reset_units(cfg['seed'])
    else:
        uc.reset_units(**cfg['kw'])


class working_units:
    """`with working_units(cfg):` -- atomman's working units are `cfg` inside and the default ones afterwards, whatever happens."""

    def __init__(self, cfg):
        self.cfg = cfg

    def __enter__(self):
        set_units(self.cfg)
        return self

    def __exit__(self, *a):
        set_units({'kw': DEFAULT_UNITS})
        return False


def unit_factors():
    """magnitudes, in the CURRENT working units, of one angstrom, eV/angstrom^3, eV/angstrom^2, eV/angstrom."""
    import atomman.unitconvert as uc
    return tuple(float(uc.set_in_units(1.0, u)) for u in ('angstrom', 'eV/angstrom^3', 'eV/angstrom^2', 'eV/angstrom'))


def scale_spec(spec, sL, sE):
    """the same gamma surface with every length multiplied by sL and every energy per area by sE."""
    out = dict(spec)
    B = [[1.0, 0.0, 0.0], [0.0, 1.0, 0.0], [0.0, 0.0, 1.0]] if spec['box'] is None else spec['box']
    out['box'] = [[t * sL for t in r] for r in B]
    if spec.get('origin') is not None:
        out['origin'] = [t * sL for t in spec['origin']]
    out['E'] = [t * sE for t in spec['E']]
    out['delta'] = None if spec['delta'] is None else [t * sL for t in spec['delta']]
    return out


def scale_settings(st, LU, PU):
    """settings given in angstrom / eV/angstrom^3 numbers -> numbers in units of (LU, PU)."""
    out = dict(st)
    out['tau'] = [[t * PU for t in r] for r in st['tau']]
    out['beta'] = [[t * PU * LU for t in r] for r in st['beta']]
    out['alpha'] = [t * PU / LU for t in st['alpha']]
    out['cutofflongrange'] = st['cutofflongrange'] * LU
    return out


def exact_frame(v):
    """K_tensor, burgers, transform of a Volterra solution in its [m, n, xi] frame (own exact evaluation)."""
    np = _np()
    M = [fvec(v.m), fvec(v.n), fvec(v.ξ)]
    Kv, bv, Tv = [fvec(r_) for r_ in v.K_tensor], fvec(v.burgers), [fvec(r_) for r_ in v.transform]
    K = np.array([[float(sum(M[i][k] * Kv[k][l] * M[j][l] for k in range(3) for l in range(3))) for j in range(3)] for i in range(3)])
    b = np.array([float(sum(M[i][k] * bv[k] for k in range(3))) for i in range(3)])
    T = np.array([[float(sum(M[i][k] * Tv[k][j] for k in range(3))) for j in range(3)] for i in range(3)])
    return K, b, T


def _rel(a, b, rtol, floor=0.0):
    """None if |a - b| <= rtol * max|b| + floor element-wise (same shapes), else a description."""
    np = _np()
    a, b = np.asarray(a, dtype=float), np.asarray(b, dtype=float)
    if a.shape != b.shape:
        return f'shape {a.shape} vs {b.shape}'
    if a.size == 0:
        return None
    if not np.all(np.isfinite(a)):
        return f'non-finite value {a.ravel()[~np.isfinite(a.ravel())][:1].tolist()}'
    tol = rtol * float(np.abs(b).max()) + floor
    dif = np.abs(a - b)
    if (dif > tol).any():
        k = int(np.argmax(dif))
        return f'index {k}: {a.ravel()[k]!r} vs {b.ravel()[k]!r}'
    return None


def _sdvpn_state(pn):
    """the settings an SDVPN object reports, as plain numbers."""
    np = _np()
    return {'tau': np.array(pn.tau, dtype=float).copy(), 'beta': np.array(pn.beta, dtype=float).copy(),
            'alpha': [float(np.ravel(a)[0]) for a in pn.alpha], 'cutofflongrange': float(pn.cutofflongrange),
            'fullstress': pn.fullstress, 'cdiffelastic': pn.cdiffelastic, 'cdiffsurface': pn.cdiffsurface, 'cdiffstress': pn.cdiffstress}


def _state_diff(got, st, LU=1.0, PU=1.0):
    """compare reported settings with a settings record whose numbers are in units of (LU, PU); None if equal."""
    w = (_rel(got['tau'], st['tau'], 1e-12) or _rel(got['beta'], st['beta'], 1e-12)
         or (f'alpha has {len(got["alpha"])} coefficients, set {len(st["alpha"])}' if len(got['alpha']) != len(st['alpha']) else None)
         or _rel(got['alpha'], st['alpha'], 1e-12) or _rel([got['cutofflongrange']], [st['cutofflongrange']], 1e-12))
    if w:
        return w
    for f in FLAGS:
        if got[f] is not st[f]:
            return f'{f} = {got[f]!r}, set {st[f]!r}'
    return None


def xc_units(ctx, case, bad):
    """ONE non-default set of working units throughout: all gamma-surface clauses, each energy term against its formula,
    the documented default cut-off of 1000 angstrom, check_energies (printed in eV/angstrom), the data-model round trip
    incl. the gamma surface, and a solve (energy not raised, ends fixed) -- on numbers expressed in those units."""
    import atomman as am
    np = _np()
    cfg = case['cfg']
    with working_units(cfg):
        LU, PU, EU, ELU = unit_factors()
        when = f'working units {cfg["name"]} (1 angstrom = {LU!r}, 1 eV/angstrom^2 = {EU!r}): '
        ctx.stats.case('x:units', (cfg['name'], case['system'], case['gspec']['tag'], tuple(case['x'])))
        # (a) the gamma-surface clauses
        gs = scale_spec(case['gspec'], LU, EU)
        g = call(mk_gamma, gs)
        if isinstance(g, Raised):
            bad('construct', f'{when}GammaSurface(...) {g}')
            return
        _gamma_clauses(ctx, case, dict(case['sub'], spec=gs), g, when, unit=(LU, EU))
        # (b) SDVPN
        v, _ = mk_volterra(case['system'], LU, PU)
        sp = scale_spec(case['spec'], LU, EU)
        g2 = mk_gamma(sp)
        st = scale_settings(case['settings'], LU, PU)
        pn = call(new_pn, v, g2, st)
        if isinstance(pn, Raised):
            bad('construct', f'{when}SDVPN(volterra=, gamma=, ...) {pn}')
            return
        K, b, T = exact_frame(v)
        w = _rel(pn.K_tensor, K, 1e-12) or _rel(pn.burgers, b, 1e-12) or _rel(pn.transform, T, 1e-12)
        if w:
            bad('frame', f'{when}K_tensor / burgers / transform are not the Volterra solution\'s in its [m, n, xi] frame: {w}')
            return
        A1, A2 = o_cart(sp)
        x, d = np.array(case['x']) * LU, np.array(case['d']) * LU
        scale = max(EU, max(abs(t) for t in sp['E']))

        def bad2(key, what):
            bad(key, what)
        if not _check_terms(ctx, case, bad2, pn, g2, K, b, T, A1, A2, st, x, d, True, when + 'fresh object', scale, eunit=ELU):
            return
        # the documented default cut-off
        pd = call(lambda: am.defect.SDVPN(volterra=v, gamma=g2))
        if isinstance(pd, Raised) or not abs(pd.cutofflongrange - 1000.0 * LU) <= 1e-12 * 1000.0 * LU:
            bad('default-cutoff', f'{when}SDVPN(volterra=, gamma=) has cutofflongrange = '
                                  f'{pd if isinstance(pd, Raised) else pd.cutofflongrange / LU!r} angstrom, documented default 1000 angstrom')
        # data-model round trip incl. the gamma surface, every form
        pn.x, pn.disregistry = x, d
        e_ref = float(pn.total_energy())
        for form in ('dm', 'json', 'xml', 'bytes'):
            lu, pu, eu = case['model_units']
            ctx.stats.case('x:units:model', (cfg['name'], case['system'], form, lu, pu, eu))

            def trip():
                m = pn.model(length_unit=lu, pressure_unit=pu, energyperarea_unit=eu, include_gamma=True)
                import io
                return am.defect.SDVPN(model={'dm': m, 'json': m.json(), 'xml': m.xml(), 'bytes': io.BytesIO(m.json().encode())}[form])
            p2 = call(trip)
            if isinstance(p2, Raised):
                bad('model', f'{when}SDVPN(model=pn.model(length_unit={lu!r}, pressure_unit={pu!r}, energyperarea_unit={eu!r}, include_gamma=True) as {form}) {p2}')
                continue
            w = (_state_diff(_sdvpn_state(p2), st) or _rel(p2.x, x, 1e-12) or _rel(p2.disregistry, d, 1e-12, 1e-14 * LU)
                 or _rel(p2.K_tensor, K, 1e-12) or _rel(p2.burgers, b, 1e-12, 1e-14 * LU) or _rel(p2.transform, T, 1e-12))
            e2 = call(p2.total_energy)
            if w or isinstance(e2, Raised) or not abs(float(e2) - e_ref) <= 1e-9 * (abs(e_ref) + ELU):
                bad('model', f'{when}data-model round trip ({form}; {lu}, {pu}, {eu}) changes the object: {w or e2} (total energy {e_ref!r} -> {e2!s})')
        # solve in these units
        for method, opts in case['solves']:
            ps = new_pn(v, g2, st)
            e0 = call(ps.total_energy, x, d)
            r = call(ps.solve, x=x.copy(), disregistry=d.copy(), min_method=method, min_options=dict(opts))
            ctx.stats.case('x:units:solve', (cfg['name'], case['system'], method, str(opts)))
            if isinstance(r, Raised) or isinstance(e0, Raised):
                bad('solve', f'{when}solve(min_method={method!r}, min_options={opts}) {r if isinstance(r, Raised) else e0}')
                continue
            got, e1 = np.asarray(ps.disregistry), call(ps.total_energy)
            if got.shape != d.shape or not np.array_equal(got[0], d[0]) or not np.array_equal(got[-1], d[-1]):
                bad('solve', f'{when}solve({method}) moved an end disregistry')
            elif isinstance(e1, Raised) or not float(e1) <= float(e0) + 1e-12 * (abs(float(e0)) + ELU):
                bad('solve', f'{when}solve({method}) raised the total energy: {float(e0) / ELU!r} -> {e1 if isinstance(e1, Raised) else float(e1) / ELU!r} eV/angstrom')


def xc_unitswitch(ctx, case, bad):
    """the working units CHANGE between writing a model and reading it back (module-level state of the first load /
    of the first construction must not survive): physical quantities of the record are preserved; the term methods of
    an object are functions of its stored numbers only; a NEW object gets the documented default cut-off in the NEW units."""
    import atomman as am
    import atomman.unitconvert as uc
    np = _np()
    c1, c2 = case['cfg1'], case['cfg2']
    lu, pu, eu = case['model_units']
    v0, _ = mk_volterra(case['system'])
    K0, b0, T0 = exact_frame(v0)
    try:
        set_units(c1)
        LU, PU, EU, ELU = unit_factors()
        when = f'working units {c1["name"]} -> {c2["name"]}: '
        ctx.stats.case('x:unitswitch', (c1['name'], c2['name'], case['system'], case['form'], lu, pu, eu))
        gs = scale_spec(case['gspec'], LU, EU)
        g = mk_gamma(gs)
        mg = g.model(length_unit=lu, energyperarea_unit=eu)
        v, _ = mk_volterra(case['system'], LU, PU)
        g2 = mk_gamma(scale_spec(case['spec'], LU, EU))
        st = scale_settings(case['settings'], LU, PU)
        pn = new_pn(v, g2, st)
        pn.x, pn.disregistry = np.array(case['x']) * LU, np.array(case['d']) * LU
        mp = pn.model(length_unit=lu, pressure_unit=pu)
        form = case['form']
        src_g = {'dm': mg, 'json': mg.json(), 'xml': mg.xml()}[form]
        src_p = {'dm': mp, 'json': mp.json(), 'xml': mp.xml()}[form]
        # first use under the first units (whatever is remembered at module level is remembered now)
        am.defect.GammaSurface(model=src_g)
        am.defect.SDVPN(model=src_p, gamma=g2)
        am.defect.SDVPN(volterra=v, gamma=g2)
        terms1 = {t: float(val) for t, val in _impl_terms(pn, {}).items()}
        _printed_energies(pn, {})
        # ---- switch
        set_units(c2)
        LU2, PU2, EU2, ELU2 = unit_factors()
        gb = call(lambda: am.defect.GammaSurface(model=src_g))
        if isinstance(gb, Raised):
            bad('gamma', f'{when}GammaSurface(model=<{form}>) {gb}')
        else:
            sp0 = case['gspec']
            w = (_rel(gb.data.E_gsf.values / EU2, sp0['E'], 1e-12) or _rel(gb.data.a1.values, sp0['a1'], 1e-14) or _rel(gb.data.a2.values, sp0['a2'], 1e-14)
                 or (sp0['delta'] is not None and ('delta' not in gb.data and 'plane-separation lost' or _rel(gb.data.delta.values / LU2, sp0['delta'], 1e-12))))
            if w:
                bad('gamma', f'{when}a record written as ({lu}, {eu}) under the first units and read under the second does not hold the same '
                             f'physical energies / plane separations (eV/angstrom^2, angstrom): {w}')
        g3 = mk_gamma(scale_spec(case['spec'], LU2, EU2))
        pb = call(lambda: am.defect.SDVPN(model=src_p, gamma=g3))
        if isinstance(pb, Raised):
            bad('sdvpn', f'{when}SDVPN(model=<{form}>, gamma=) {pb}')
        else:
            st2 = scale_settings(case['settings'], LU2, PU2)
            w = (_state_diff(_sdvpn_state(pb), st2) or _rel(pb.x / LU2, case['x'], 1e-12) or _rel(pb.disregistry / LU2, case['d'], 1e-12, 1e-14)
                 or _rel(pb.K_tensor / PU2, K0, 1e-9) or _rel(pb.burgers / LU2, b0, 1e-12, 1e-14) or _rel(pb.transform, T0, 1e-12))
            if w:
                bad('sdvpn', f'{when}a record written as ({lu}, {pu}) under the first units and read under the second does not hold the same '
                             f'physical settings / profile: {w}')
            else:
                A1, A2 = o_cart(scale_spec(case['spec'], LU2, EU2))
                x2, d2 = np.array(pb.x, dtype=float).copy(), np.array(pb.disregistry, dtype=float).copy()     # verified above to be the physical profile
                _check_terms(ctx, case, bad, pb, g3, K0 * PU2, b0 * LU2, T0, A1, A2, st2, x2, d2, 'none', when + 'object loaded under the second units',
                             max(EU2, max(abs(t) for t in case['spec']['E']) * EU2), stored=(x2, d2), eunit=ELU2)
            # ... and WRITTEN again under the second units, in the same named units: the same record values
            mg2, mp2 = call(lambda: gb.model(length_unit=lu, energyperarea_unit=eu)), call(lambda: pb.model(length_unit=lu, pressure_unit=pu))
            if not isinstance(gb, Raised) and not isinstance(mg2, Raised) and not isinstance(mp2, Raised):
                r1_, r2_ = mg['stacking-fault-map']['stacking-fault-relation'], mg2['stacking-fault-map']['stacking-fault-relation']
                p1_, p2_ = mp['semidiscrete-variational-Peierls-Nabarro'], mp2['semidiscrete-variational-Peierls-Nabarro']
                w = _rel(r2_['energy']['value'], r1_['energy']['value'], 1e-12)
                if not w and 'plane-separation' in r1_:
                    w = _rel(r2_['plane-separation']['value'], r1_['plane-separation']['value'], 1e-12)
                for sect, key in (('parameter', 'K_tensor'), ('parameter', 'tau'), ('parameter', 'alpha'), ('parameter', 'beta'), ('parameter', 'cutofflongrange'),
                                  ('parameter', 'burgers'), ('solution', 'x'), ('solution', 'disregistry')):
                    w = w or _rel(np.ravel(p2_[sect][key]['value']), np.ravel(p1_[sect][key]['value']), 1e-9, 1e-13 * float(np.abs(np.ravel(p1_[sect][key]['value'])).max()) + 1e-300)
                    if w:
                        w = f'{key}: {w}'
                        break
                if w:
                    bad('rewrite', f'{when}the record loaded under the second units and written again as ({lu}, {pu}, {eu}) does not hold the values of the original record: {w}')
            elif isinstance(mg2, Raised) or isinstance(mp2, Raised):
                bad('rewrite', f'{when}model() under the second units {mg2 if isinstance(mg2, Raised) else mp2}')
        # the OLD object: its numbers are what they were
        terms2 = _impl_terms(pn, {})
        for t in terms1:
            if isinstance(terms2[t], Raised) or float(terms2[t]) != terms1[t]:
                bad('pure', f'{when}{t}_energy() of an object built before the switch changed from {terms1[t]!r} to {terms2[t]!s} (its stored numbers did not)')
                break
        pr = call(_printed_energies, pn, {})
        if isinstance(pr, Raised) or any(not abs(pr[t] * ELU2 - terms1[t]) <= 1e-9 * abs(terms1[t]) + 1e-12 * abs(terms1['total']) for t in terms1 if t in pr) or len(pr) != 7:
            bad('check_energies', f'{when}check_energies() does not print value / (eV/angstrom in the CURRENT units): {pr if isinstance(pr, Raised) else {t: pr[t] * ELU2 for t in pr}} vs {terms1}')
        v2, _ = mk_volterra(case['system'], LU2, PU2)
        pd = call(lambda: am.defect.SDVPN(volterra=v2, gamma=g3))
        if isinstance(pd, Raised) or not abs(pd.cutofflongrange - 1000.0 * LU2) <= 1e-9 * LU2:
            bad('default-cutoff', f'{when}a new SDVPN(volterra=, gamma=) has cutofflongrange = '
                                  f'{pd if isinstance(pd, Raised) else pd.cutofflongrange / LU2!r} angstrom, documented default 1000 angstrom')
    finally:
        set_units({'kw': DEFAULT_UNITS})


def _snap(objs):
    """bitwise snapshot of a list of arrays / lists / dicts (inputs that must not be modified)."""
    np = _np()
    out = []
    for o in objs:
        if isinstance(o, np.ndarray):
            out.append((o.dtype.str, o.shape, o.tobytes()))
        else:
            out.append(repr(o))
    return out


def _gamma_obs(g, q1, q2, P, XY):
    """what a GammaSurface answers, as a flat dict of arrays (every entry point; data; shift vectors; model)."""
    np = _np()
    o = {'E:a12': g.E_gsf(a1=q1.copy(), a2=q2.copy()), 'E:near': g.E_gsf(a1=q1.copy(), a2=q2.copy(), smooth=False),
         'E:pos': g.E_gsf(pos=P.copy()), 'E:xy': g.E_gsf(x=XY[0].copy(), y=XY[1].copy()),
         'a12_to_pos': g.a12_to_pos(q1, q2), 'pos_to_a12': np.array(g.pos_to_a12(P.copy())), 'pos_to_xy': np.array(g.pos_to_xy(P.copy())),
         'xy_to_pos': g.xy_to_pos(XY[0].copy(), XY[1].copy()), 'a1vect': g.a1vect, 'a2vect': g.a2vect, 'planenormal': g.planenormal,
         'box': g.box.vects, 'data': g.data.values, 'model': np.frombuffer(g.model().json().encode(), dtype=np.uint8)}
    if 'delta' in g.data:
        o['delta'] = g.delta(a1=q1.copy(), a2=q2.copy())
    return {k: np.array(v_, dtype=float if k != 'model' else np.uint8).copy() for k, v_ in o.items()}


def _obs_diff(o0, o1):
    np = _np()
    for k in o0:
        if k not in o1 or o0[k].shape != o1[k].shape or not np.array_equal(o0[k], o1[k]):
            return k
    return None


def xc_alias_gamma(ctx, case, bad):
    """GammaSurface and aliasing: constructor / set() arguments edited by the caller afterwards; inputs of every method
    bitwise unchanged (float, view, integer, read-only arrays); results fresh (scribbled over, called again; two results
    share no memory); the tree returned by model() edited; reads do not write."""
    import atomman as am
    np = _np()
    spec = case['spec']
    ctx.stats.case('x:alias:gamma', (spec['tag'], spec['n1'], spec['n2'], case['via'], tuple(map(tuple, case['queries']))))
    av, bv = np.array(vec3(spec['a1vect']), dtype=float), np.array(vec3(spec['a2vect']), dtype=float)
    a1, a2, E = np.array(spec['a1'], dtype=float), np.array(spec['a2'], dtype=float), np.array(spec['E'], dtype=float)
    D = None if spec['delta'] is None else np.array(spec['delta'], dtype=float)
    box = mk_box(spec)
    if case['via'] == 'ctor':
        g = call(lambda: am.defect.GammaSurface(a1vect=av, a2vect=bv, a1=a1, a2=a2, E_gsf=E, box=box, delta=D))
    else:
        g = call(mk_gamma, case['first'])
        if not isinstance(g, Raised):
            r = call(g.set, av, bv, a1, a2, E, box=box, delta=D)
            g = r if isinstance(r, Raised) else g
    if isinstance(g, Raised):
        bad('construct', f'GammaSurface via {case["via"]} {g}')
        return
    tag = f'[{spec["tag"]} {spec["n1"]}x{spec["n2"]}, data given via {case["via"]}]'
    q1 = np.array([t[0] for t in case['queries']], dtype=float)
    q2 = np.array([t[1] for t in case['queries']], dtype=float)
    A1, A2 = o_cart(spec)
    P = np.array([[float(t) for t in o_pos(A1, A2, (FF(a), FF(b_)))] for a, b_ in zip(q1, q2)])
    XY = np.array([o_xy(A1, A2, A1, [FF(t) for t in p_]) for p_ in P]).T.copy()
    o0 = call(_gamma_obs, g, q1, q2, P, XY)
    if isinstance(o0, Raised):
        bad('raises', f'querying the object {o0} {tag}')
        return
    # -- (1) the caller edits what it had handed over
    av *= 3.0
    bv[:] = bv[::-1] + 1.0
    a1 += 0.125
    a2[:] = a2[::-1]
    E[:] = 7.0
    if D is not None:
        D *= -2.0
    if box is not None:
        box.set(avect=[0.0, 0.0, 7.0], bvect=[1.0, 0.0, 0.5], cvect=[0.0, 2.0, 0.0], origin=[1.0, 1.0, 1.0])
    o1 = call(_gamma_obs, g, q1, q2, P, XY)
    k = str(o1) if isinstance(o1, Raised) else _obs_diff(o0, o1)
    if k:
        bad('input-kept', f'after the CALLER edited the arrays / Box it had given (a1vect *= 3, a2vect reversed, a1 += 0.125, E_gsf[:] = 7, box.set(...)) '
                          f'the object answers differently: {k} {tag}')
        return
    # -- (2) inputs of the methods are not modified; (3) results are fresh
    big = np.zeros(2 * len(q1) + 1)
    big[1::2] = q1
    vq1 = big[1::2]                                    # a strided view
    iq1, iq2 = np.round(q1).astype(np.int64), np.round(q2).astype(np.int32)
    ro1 = q1.copy()
    ro1.flags.writeable = False
    kwv = {'a1vect': av / 3.0 + np.array(vec3(spec['a2vect']), dtype=float)}
    calls = [('E_gsf(a1=, a2=)', lambda: g.E_gsf(a1=q1, a2=q2), [q1, q2]), ('E_gsf(a1=<view>, a2=)', lambda: g.E_gsf(a1=vq1, a2=q2), [big, q2]),
             ('E_gsf(a1=<int64>, a2=<int32>)', lambda: g.E_gsf(a1=iq1, a2=iq2), [iq1, iq2]),
             ('E_gsf(a1=<read-only>, a2=)', lambda: g.E_gsf(a1=ro1, a2=q2), [ro1, q2]),
             ('E_gsf(a1=, a2=, smooth=False)', lambda: g.E_gsf(a1=q1, a2=q2, smooth=False), [q1, q2]),
             ('E_gsf(a1=, a2=, a1vect=)', lambda: g.E_gsf(a1=q1, a2=q2, **kwv), [q1, q2, kwv['a1vect']]),
             ('E_gsf(pos=)', lambda: g.E_gsf(pos=P), [P]), ('E_gsf(pos=, smooth=False)', lambda: g.E_gsf(pos=P, smooth=False), [P]),
             ('E_gsf(x=, y=)', lambda: g.E_gsf(x=XY[0], y=XY[1]), [XY]),
             ('a12_to_pos', lambda: g.a12_to_pos(q1, q2), [q1, q2]), ('pos_to_a12', lambda: g.pos_to_a12(P), [P]),
             ('pos_to_xy', lambda: g.pos_to_xy(P), [P]), ('xy_to_pos', lambda: g.xy_to_pos(XY[0], XY[1]), [XY]),
             ('a12_to_xy', lambda: g.a12_to_xy(q1, q2), [q1, q2]), ('xy_to_a12', lambda: g.xy_to_a12(XY[0], XY[1]), [XY])]
    if D is not None:
        calls += [('delta(a1=, a2=)', lambda: g.delta(a1=q1, a2=q2), [q1, q2]), ('delta(pos=)', lambda: g.delta(pos=P), [P]),
                  ('delta(a1=, a2=, smooth=False)', lambda: g.delta(a1=q1, a2=q2, smooth=False), [q1, q2])]
    for nm, fn, ins in calls:
        before = _snap(ins)
        r1 = call(fn)
        ctx.stats.case('x:alias:call', (spec['tag'], nm, tuple(q1)))
        if isinstance(r1, Raised):
            bad('raises', f'{nm} {r1} {tag}')
            continue
        if _snap(ins) != before:
            bad('input-modified', f'{nm} modified its argument(s): a1={q1.tolist()}, a2={q2.tolist()} {tag}')
            return
        parts = list(r1) if isinstance(r1, tuple) else [r1]
        keep = [np.array(p_, dtype=float).copy() for p_ in parts]
        for p_ in parts:
            if isinstance(p_, np.ndarray) and p_.flags.writeable:
                p_[...] = -77.0
        r2 = call(fn)
        parts2 = list(r2) if isinstance(r2, tuple) else [r2]
        if isinstance(r2, Raised) or any(not np.array_equal(np.asarray(a, dtype=float), b_) for a, b_ in zip(parts2, keep)):
            bad('result-shared', f'{nm}: after the first result was overwritten by the caller, the same call gives '
                                 f'{r2 if isinstance(r2, Raised) else np.ravel(np.asarray(parts2[0], dtype=float))[:3].tolist()} instead of {np.ravel(keep[0])[:3].tolist()} {tag}')
            return
        if any(isinstance(a, np.ndarray) and isinstance(b_, np.ndarray) and a.size and np.shares_memory(a, b_) for a in parts for b_ in parts2):
            bad('result-shared', f'{nm}: two results share memory {tag}')
            return
    o2 = call(_gamma_obs, g, q1, q2, P, XY)
    k = str(o2) if isinstance(o2, Raised) else _obs_diff(o0, o2)
    if k:
        bad('reads-write', f'after queries only (results overwritten by the caller) the object answers differently: {k} {tag}')
        return
    # -- (4) the tree returned by model() belongs to the caller
    m = call(g.model)
    if not isinstance(m, Raised):
        sfm = m['stacking-fault-map']
        sfm['box']['avect'][0] = 99.0
        sfm['shift-vector-1'][0] = 99.0
        rel = sfm['stacking-fault-relation']
        rel['energy']['value'][0] = 99.0
        rel['shift-vector-1-fraction'][1] = 0.77
        o3 = call(_gamma_obs, g, q1, q2, P, XY)
        k = str(o3) if isinstance(o3, Raised) else _obs_diff(o0, o3)
        if k:
            bad('model-shared', f'editing the tree returned by model() changed the object: {k} {tag}')


def _sdvpn_obs(pn):
    np = _np()
    o = {t: np.array([float(val)]) for t, val in _impl_terms(pn, {}).items()}
    s_ = _sdvpn_state(pn)
    o.update({'tau': s_['tau'], 'beta': s_['beta'], 'alpha': np.array(s_['alpha']), 'cutoff': np.array([s_['cutofflongrange']]),
              'x': np.array(pn.x, dtype=float).copy(), 'disregistry': np.array(pn.disregistry, dtype=float).copy(),
              'K': np.array(pn.K_tensor).copy(), 'burgers': np.array(pn.burgers).copy(), 'transform': np.array(pn.transform).copy(),
              'min_options': np.frombuffer(repr(sorted(pn.min_options.items())).encode(), dtype=np.uint8).astype(float),
              'min_kwargs': np.frombuffer(repr(sorted(pn.min_kwargs.items())).encode(), dtype=np.uint8).astype(float)})
    dn = pn.disldensity()
    o['newx'], o['rho'] = np.array(dn[0]).copy(), np.array(dn[1]).copy()
    return o


def xc_alias_sdvpn(ctx, case, bad):
    """SDVPN and aliasing: settings / profile arrays / option dicts edited by the caller after the constructor, a setter or
    solve() took them; the default tau / beta of one object edited in place must not show in another; arguments of the
    energy methods (incl. a disregistry with a y column) bitwise unchanged; results and the model() tree fresh."""
    import atomman as am
    np = _np()
    v, g, A1, A2, scale = _system(case)
    st = case['settings']
    tag = f'[{case["system"]}, settings handed over via {case["via"]}]'
    ctx.stats.case('x:alias:sdvpn', (case['system'], case['via'], tuple(case['x'])))
    tt, bb, al = np.array(st['tau']), np.array(st['beta']), list(st['alpha'])
    xx, dd = np.array(case['x'], dtype=float), np.array(case['d'], dtype=float)
    mo, mk = {'maxfev': 4}, {'tol': 0.5}
    flags = {f: st[f] for f in FLAGS}
    mod = sys.modules['atomman.defect.SDVPN']
    if case['via'] == 'ctor':
        pn = call(lambda: am.defect.SDVPN(volterra=v, gamma=g, tau=tt, alpha=al, beta=bb, cutofflongrange=st['cutofflongrange'],
                                          min_method='Nelder-Mead', min_options=mo, min_kwargs=mk, **flags))
        if not isinstance(pn, Raised):
            pn.x, pn.disregistry = xx, dd
    elif case['via'] == 'setters':
        pn = call(lambda: am.defect.SDVPN(volterra=v, gamma=g))
        if not isinstance(pn, Raised):
            pn.tau, pn.beta, pn.alpha, pn.cutofflongrange = tt, bb, al, st['cutofflongrange']
            pn.min_method, pn.min_options, pn.min_kwargs = 'Nelder-Mead', mo, mk
            for f in FLAGS:
                setattr(pn, f, st[f])
            pn.x, pn.disregistry = xx, dd
    else:
        pn = call(lambda: am.defect.SDVPN(volterra=v, gamma=g))
        if not isinstance(pn, Raised):
            real = mod.minimize
            mod.minimize = _FakeMin(random.Random(case['seed']))
            try:
                r = call(pn.solve, x=xx, disregistry=dd, tau=tt, alpha=al, beta=bb, cutofflongrange=st['cutofflongrange'],
                         min_method='Nelder-Mead', min_options=mo, min_kwargs=mk, **flags)
            finally:
                mod.minimize = real
            pn = r if isinstance(r, Raised) else pn
    if isinstance(pn, Raised):
        bad('construct', f'{pn} {tag}')
        return
    o0 = call(_sdvpn_obs, pn)
    if isinstance(o0, Raised):
        bad('raises', f'evaluating the object {o0} {tag}')
        return
    if case['via'] != 'solve' and not np.array_equal(o0['disregistry'], np.array(case['d'])):
        bad('input-kept', f'stored disregistry is not the one given {tag}')
    keep_in = _snap([tt, bb, xx, dd])
    # -- (1) the caller edits what it had handed over
    tt[1, 0] += 3.0
    bb[0, 0] -= 1.0
    al.append(0.25)
    al[0] = 9.0
    xx *= 2.0
    dd[len(dd) // 2, 0] += 0.5
    mo['maxfev'] = 7000
    mk['tol'] = 1e-30
    o1 = call(_sdvpn_obs, pn)
    k = str(o1) if isinstance(o1, Raised) else _obs_diff(o0, o1)
    if k:
        bad('input-kept', f'after the CALLER edited the tau / beta / alpha / x / disregistry / min_options / min_kwargs objects it had given, '
                          f'the object reports a different {k} {tag}')
        return
    # -- (2) defaults are per object
    p1 = call(lambda: am.defect.SDVPN(volterra=v, gamma=g))
    if not isinstance(p1, Raised):
        p1.tau[1, 0] += 0.5
        p1.beta[0, 0] += 0.25
        try:
            p2 = call(lambda: am.defect.SDVPN(volterra=v, gamma=g))
            if isinstance(p2, Raised) or np.any(p2.tau) or np.any(p2.beta):
                bad('default-shared', f'after one object\'s default tau / beta were edited in place (obj.tau[1, 0] += 0.5), a NEW '
                                      f'SDVPN(volterra=, gamma=) has tau[1] = {p2 if isinstance(p2, Raised) else p2.tau[1].tolist()}, '
                                      f'beta[0] = {"" if isinstance(p2, Raised) else p2.beta[0].tolist()} instead of the documented zeros {tag}')
        finally:
            p1.tau[1, 0] -= 0.5
            p1.beta[0, 0] -= 0.25
    # -- (3) arguments of the methods (disregistry with a y column) are not modified, results are fresh
    x, d = np.array(case['x'], dtype=float), np.array(case['d'], dtype=float)
    d[:, 1] = 0.125 * np.arange(len(d))
    di = np.round(d * 4).astype(np.int64)
    xi = np.arange(len(x), dtype=np.int64)
    big = np.zeros((2 * len(d), 3))
    big[::2] = d
    dv = big[::2]
    methods = [(t + '_energy', getattr(pn, t + '_energy')) for t in ('misfit', 'elastic', 'stress', 'surface', 'nonlocal', 'total')]
    methods += [('disldensity', pn.disldensity), ('disldensity(cdiff=True)', lambda a, b_: pn.disldensity(a, b_, cdiff=True))]
    for nm, fn in methods:
        for form, xa, da, ins in (('float arrays', x, d, [x, d]), ('a strided view', x, dv, [x, big]), ('integer arrays', xi, di, [xi, di])):
            before = _snap(ins)
            r1 = call(fn, xa, da)
            ctx.stats.case('x:alias:call', (case['system'], nm, form))
            if isinstance(r1, Raised):
                bad('raises', f'{nm}(x, disregistry) with {form} {r1} {tag}')
                continue
            if _snap(ins) != before:
                bad('input-modified', f'{nm}(x, disregistry) modified its arguments ({form}; disregistry with a y column) {tag}')
                return
            if isinstance(r1, tuple):
                keep = [np.array(p_).copy() for p_ in r1]
                for p_ in r1:
                    p_[...] = -77
                r2 = call(fn, xa, da)
                if isinstance(r2, Raised) or any(not np.array_equal(a, b_) for a, b_ in zip(r2, keep)):
                    bad('result-shared', f'{nm}: after the first result was overwritten by the caller, the same call gives another result {tag}')
                    return
    # stored profile: results of disldensity() and the model() tree belong to the caller
    for cd in (False, True):
        r1 = call(pn.disldensity, cdiff=cd)
        if not isinstance(r1, Raised):
            for p_ in r1:
                if p_.flags.writeable:
                    p_[...] = -77.0
    m = call(pn.model)
    if not isinstance(m, Raised):
        par = m['semidiscrete-variational-Peierls-Nabarro']['parameter']
        par['min_options']['maxfev'] = 123456
        par['min_options']['zzz'] = 1
        par['tau']['value'][0] = 99.0
        m['semidiscrete-variational-Peierls-Nabarro']['solution']['x']['value'][0] = -1e6
    o2 = call(_sdvpn_obs, pn)
    k = str(o2) if isinstance(o2, Raised) else _obs_diff(o0, o2)
    if k:
        bad('result-shared', f'after the caller overwrote the arrays returned by disldensity() and edited the tree returned by model(), '
                             f'the object reports a different {k} {tag}')
        return
    # solve() must not modify the guess it is given
    xg, dg = np.array(case['x'], dtype=float), np.array(case['d'], dtype=float)
    before = _snap([xg, dg])
    r = call(pn.solve, x=xg, disregistry=dg, min_method='Nelder-Mead', min_options={'maxfev': 6}, min_kwargs={})
    if isinstance(r, Raised):
        bad('raises', f'solve(x=, disregistry=) {r} {tag}')
    elif _snap([xg, dg]) != before:
        bad('input-modified', f'solve(x=, disregistry=) modified the guess arrays it was given {tag}')
    else:
        sol = np.array(pn.disregistry).copy()
        dg += 1.0
        xg -= 3.0
        if not np.array_equal(np.asarray(pn.disregistry), sol) or not np.array_equal(np.asarray(pn.x), np.array(case['x'], dtype=float)):
            bad('input-kept', f'editing the guess arrays after solve() changed the stored solution / x {tag}')


def _forms_1d(np, q):
    """input forms of a 1-D float array `q` holding the same numbers: (name, object)."""
    big = np.zeros(3 * len(q) + 2)
    big[1::3][:len(q)] = q
    ro = q.copy()
    ro.flags.writeable = False
    return [('list', q.tolist()), ('tuple', tuple(q.tolist())), ('strided view', big[1::3][:len(q)]), ('read-only', ro),
            ('list of numpy scalars', [np.float64(t) for t in q]), ('reversed view', q[::-1].copy()[::-1])]


def _forms_nd(np, q, sh):
    """the numbers of `q` as arrays of shape `sh`: C order, Fortran order, a non-contiguous view."""
    c = q.reshape(sh).copy()
    out = [(f'shape {sh}', c), (f'shape {sh} Fortran order', np.asfortranarray(c))]
    if len(sh) >= 2:
        wide = np.zeros(sh[:-1] + (2 * sh[-1],))
        wide[..., ::2] = c
        out.append((f'shape {sh} non-contiguous', wide[..., ::2]))
    return out


def xc_forms_gamma(ctx, case, bad):
    """GammaSurface and input forms: the same numbers handed over as lists / tuples / numpy scalars / integer and
    float32 arrays / 0-d, (n,1), (1,n), rank-3 arrays / strided, Fortran-ordered, read-only arrays must give the values
    (and the shape) of the plain float64 call; data and shift vectors given in these forms build the same surface."""
    import atomman as am
    np = _np()
    spec = case['spec']
    g = call(mk_gamma, spec)
    if isinstance(g, Raised):
        bad('construct', f'{g}')
        return
    tag = f'[{spec["tag"]} {spec["n1"]}x{spec["n2"]} delta={spec["delta"] is not None}]'
    has_d = spec['delta'] is not None
    scale = max(abs(t) for t in spec['E'])
    A1, A2 = o_cart(spec)
    L = max(abs(float(t)) for t in A1 + A2)
    q1 = np.array([t[0] for t in case['queries']], dtype=float)
    q2 = np.array([t[1] for t in case['queries']], dtype=float)
    m = len(q1)
    P = np.array([[float(t) for t in o_pos(A1, A2, (FF(a), FF(b_)))] for a, b_ in zip(q1, q2)])
    XY = np.array([o_xy(A1, A2, A1, [FF(t) for t in p_]) for p_ in P]).T.copy()
    v12 = np.array(vec3(spec['a1vect']), dtype=float) + np.array(vec3(spec['a2vect']), dtype=float)
    fields = [('E_gsf', g.E_gsf, scale)] + ([('delta', g.delta, max(abs(t) for t in spec['delta']) or 1.0)] if has_d else [])
    c1_, c2_ = (1 - max(spec['a1'])) / 2, (1 - max(spec['a2'])) / 2
    n_checked = 0

    def same(nm, got, ref, shape, tol):
        nonlocal n_checked
        n_checked += 1
        ctx.stats.case('x:forms:gamma', (spec['tag'], nm, tuple(q1)))
        if isinstance(got, Raised):
            bad('raises', f'{nm} {got}; the same numbers as float64 arrays are accepted {tag}')
            return False
        if shape is not None and np.shape(got) != tuple(shape):
            bad('shape', f'{nm} returns shape {np.shape(got)}, expected {tuple(shape)} {tag}')
            return False
        w = _rel(np.ravel(np.asarray(got, dtype=float)), np.ravel(ref), 0.0, tol)
        if w:
            bad('value', f'{nm} differs from the same numbers given as float64 arrays: {w}; a1={q1.tolist()}, a2={q2.tolist()} {tag}')
            return False
        return True

    for fname, fn, fs in fields:
        for kw, kwn in (({}, ''), ({'smooth': False}, ', smooth=False')):
            ref = call(fn, a1=q1.copy(), a2=q2.copy(), **kw)
            if isinstance(ref, Raised):
                bad('raises', f'{fname}(a1=, a2={kwn}) {ref} {tag}')
                return
            ref = np.asarray(ref, dtype=float)
            tol = 1e-10 * fs
            for (n1_, f1), (n2_, f2) in zip(_forms_1d(np, q1), _forms_1d(np, q2)):
                if not same(f'{fname}(a1=<{n1_}>, a2=<{n2_}>{kwn})', call(fn, a1=f1, a2=f2, **kw), ref, (m,), tol):
                    return
            # mixed forms within one call
            same(f'{fname}(a1=<list>, a2=<read-only array>{kwn})', call(fn, a1=q1.tolist(), a2=_forms_1d(np, q2)[3][1], **kw), ref, (m,), tol)
            # scalars of every kind (one point)
            for sn, conv in (('python float', float), ('numpy.float64', np.float64), ('0-d array', np.array)):
                same(f'{fname}(a1=<{sn}>, a2=<{sn}>{kwn})', call(fn, a1=conv(q1[0]), a2=conv(q2[0]), **kw), ref[:1], (), tol)
            same(f'{fname}(a1=<python float>, a2=<0-d array>{kwn})', call(fn, a1=float(q1[0]), a2=np.array(q2[0]), **kw), ref[:1], (), tol)
            # shapes
            if m % 4 == 0:
                for sh in ((m, 1), (1, m), (2, 1, m // 2), (2, 2, m // 4) if m % 4 == 0 else (m,)):
                    for (n1_, f1), (n2_, f2) in zip(_forms_nd(np, q1, sh), _forms_nd(np, q2, sh)):
                        if not same(f'{fname}(a1=<{n1_}>, a2=<{n2_}>{kwn})', call(fn, a1=f1, a2=f2, **kw), ref, sh, tol):
                            return
            # float32: the SAME (rounded) numbers as float64
            s1, s2 = q1.astype(np.float32), q2.astype(np.float32)
            r32 = call(fn, a1=s1.astype(float), a2=s2.astype(float), **kw)
            inner = np.array([not ((c1_ < 1e-9 and abs(a - round(a)) < 1e-6) or (c2_ < 1e-9 and abs(b_ - round(b_)) < 1e-6)) for a, b_ in zip(q1, q2)])
            if not isinstance(r32, Raised):
                same(f'{fname}(a1=<float32 array>, a2=<float32 array>{kwn})', call(fn, a1=s1, a2=s2, **kw), np.asarray(r32, dtype=float), (m,), tol)
                same(f'{fname}(a1=<numpy.float32>, a2=<numpy.float32>{kwn})', call(fn, a1=s1[0], a2=s2[0], **kw), np.asarray(r32, dtype=float)[:1], (), tol)
            # integers: lattice points
            i1, i2 = np.round(q1).astype(np.int64), np.round(q2).astype(np.int64)
            ri = call(fn, a1=i1.astype(float), a2=i2.astype(float), **kw)
            if not isinstance(ri, Raised):
                ri = np.asarray(ri, dtype=float)
                for inm, a, b_ in (('int64 arrays', i1, i2), ('int32 arrays', i1.astype(np.int32), i2.astype(np.int32)), ('lists of python ints', i1.tolist(), i2.tolist()),
                                   ('int64 / float64', i1, i2.astype(float))):
                    if not same(f'{fname}(a1=<{inm}>, a2=...{kwn}) at the lattice points a1={i1.tolist()}, a2={i2.tolist()}', call(fn, a1=a, b_=None, **kw) if False else call(fn, a1=a, a2=b_, **kw), ri, (m,), tol):
                        return
                same(f'{fname}(a1=<python int>, a2=<python int>{kwn})', call(fn, a1=int(i1[0]), a2=int(i2[0]), **kw), ri[:1], (), tol)
                same(f'{fname}(a1=0, a2=0{kwn})', call(fn, a1=0, a2=0, **kw), np.asarray(call(fn, a1=np.array([0.0]), a2=np.array([0.0]), **kw), dtype=float), (), tol)
            # the a1vect= / a2vect= keywords in other forms
            rv = call(fn, a1=q1.copy(), a2=q2.copy(), a1vect=v12.copy(), **kw)
            if not isinstance(rv, Raised) and not kw and (c1_ > 1e-9 and c2_ > 1e-9):
                rv = np.asarray(rv, dtype=float)
                for vn, vv in (('list', v12.tolist()), ('tuple', tuple(v12.tolist())), ('read-only', _forms_1d(np, v12)[3][1]), ('strided view', _forms_1d(np, v12)[2][1])):
                    same(f'{fname}(a1=, a2=, a1vect=<{vn}>)', call(fn, a1=q1.copy(), a2=q2.copy(), a1vect=vv), rv, (m,), tol)
                if np.all(v12 == np.round(v12)):
                    same(f'{fname}(a1=, a2=, a1vect=<int64 array>)', call(fn, a1=q1.copy(), a2=q2.copy(), a1vect=v12.astype(np.int64)), rv, (m,), tol)
                if m % 4 == 0:
                    same(f'{fname}(a1=<shape (2,{m // 2})>, a2=..., a1vect=)', call(fn, a1=q1.reshape(2, -1).copy(), a2=q2.reshape(2, -1).copy(), a1vect=v12.copy()), rv, (2, m // 2), tol)
        # positions and plotting coordinates (queries ON a cell edge of a surface with the duplicated edge are left out:
        # the value there jumps, a float solve may land on either side)
        inner = np.array([not ((c1_ < 1e-9 and abs(a - round(a)) < 1e-9) or (c2_ < 1e-9 and abs(b_ - round(b_)) < 1e-9)) for a, b_ in zip(q1, q2)])
        if not inner.all():
            continue
        refp = call(fn, pos=P.copy())
        if isinstance(refp, Raised):
            bad('raises', f'{fname}(pos=) {refp} {tag}')
            return
        refp = np.asarray(refp, dtype=float)
        tol = 1e-9 * fs
        Pro = P.copy()
        Pro.flags.writeable = False
        bigP = np.zeros((2 * m, 6))
        bigP[::2, ::2] = P
        for pn_, pf in (('list of lists', P.tolist()), ('tuple of tuples', tuple(map(tuple, P.tolist()))), ('read-only', Pro), ('Fortran order', np.asfortranarray(P)),
                        ('strided view', bigP[::2, ::2]), ('transposed (3, n) array .T', np.ascontiguousarray(P.T).T), ('list of arrays', [r_.copy() for r_ in P])):
            if not same(f'{fname}(pos=<{pn_}>)', call(fn, pos=pf), refp, (m,), tol):
                return
        for pn_, pf in (('list', P[0].tolist()), ('tuple', tuple(P[0].tolist())), ('1-D array', P[0].copy()), ('strided 1-D view', bigP[0, ::2])):
            same(f'{fname}(pos=<one position, {pn_}>)', call(fn, pos=pf), refp[:1], (), tol)
        same(f'{fname}(pos=<shape (1, 3)>)', call(fn, pos=P[:1].copy()), refp[:1], (1,), tol)
        P32 = P.astype(np.float32)
        r32 = call(fn, pos=P32.astype(float))
        if not isinstance(r32, Raised) and c1_ > 1e-9 and c2_ > 1e-9:
            same(f'{fname}(pos=<float32 array>)', call(fn, pos=P32), np.asarray(r32, dtype=float), (m,), 1e-9 * fs)
        refx = call(fn, x=XY[0].copy(), y=XY[1].copy())
        if not isinstance(refx, Raised):
            refx = np.asarray(refx, dtype=float)
            for (n1_, f1), (n2_, f2) in zip(_forms_1d(np, XY[0]), _forms_1d(np, XY[1])):
                if not same(f'{fname}(x=<{n1_}>, y=<{n2_}>)', call(fn, x=f1, y=f2), refx, (m,), tol):
                    return
            for sn, conv in (('python float', float), ('numpy.float64', np.float64), ('0-d array', np.array)):
                same(f'{fname}(x=<{sn}>, y=<{sn}>)', call(fn, x=conv(XY[0, 0]), y=conv(XY[1, 0])), refx[:1], None, tol)
            Xv = np.array([float(t) for t in A2])
            rxv = call(fn, x=XY[0].copy(), y=XY[1].copy(), xvect=np.array([float(t) for t in A1]))
            if not isinstance(rxv, Raised):
                for vn, vv in (('list', [float(t) for t in A1]), ('tuple', tuple(float(t) for t in A1))):
                    same(f'{fname}(x=, y=, xvect=<{vn}>)', call(fn, x=XY[0].copy(), y=XY[1].copy(), xvect=vv), np.asarray(rxv, dtype=float), (m,), tol)
            del Xv
    # integer-valued Cartesian positions / plotting coordinates (exactly representable points)
    Pi = np.array([[float(round(t)) for t in p_] for p_ in P * 4.0])
    r_f = call(g.pos_to_a12, Pi.copy())
    if not isinstance(r_f, Raised):
        # integer positions are in the plane only if the plane holds them: use the conversions, which do not assert
        pass
    for nm, fn, args, forms in (
            ('a12_to_pos', g.a12_to_pos, (q1, q2), None), ('a12_to_xy', g.a12_to_xy, (q1, q2), None), ('xy_to_pos', g.xy_to_pos, (XY[0], XY[1]), None),
            ('xy_to_a12', g.xy_to_a12, (XY[0], XY[1]), None)):
        ref = call(fn, *[a.copy() for a in args])
        if isinstance(ref, Raised):
            bad('raises', f'{nm} {ref} {tag}')
            continue
        refa = np.array(ref, dtype=float)
        tolc = 1e-9 * (L if 'pos' in nm.split('_to_')[1] or nm.endswith('xy') else 1.0) * (1 + float(np.abs(q1).max() + np.abs(q2).max()))
        for (n1_, f1), (n2_, f2) in zip(_forms_1d(np, args[0]), _forms_1d(np, args[1])):
            r = call(fn, f1, f2)
            if not same(f'{nm}(<{n1_}>, <{n2_}>)', r if isinstance(r, Raised) else np.array(r, dtype=float), refa, refa.shape, tolc):
                break
        r = call(fn, float(args[0][0]), float(args[1][0]))
        same(f'{nm}(<python float>, <python float>)', r if isinstance(r, Raised) else np.ravel(np.array(r, dtype=float)), np.ravel(refa[:, 0] if refa.shape[0] == 2 and nm.endswith(('xy', 'a12')) else refa[0]), None, tolc)
        i1, i2 = np.round(args[0]).astype(np.int64), np.round(args[1]).astype(np.int64)
        ri = call(fn, i1.astype(float), i2.astype(float))
        if not isinstance(ri, Raised):
            r = call(fn, i1, i2)
            same(f'{nm}(<int64 array>, <int64 array>)', r if isinstance(r, Raised) else np.array(r, dtype=float), np.array(ri, dtype=float), None, tolc)
            r = call(fn, i1.tolist(), i2.tolist())
            same(f'{nm}(<list of ints>, <list of ints>)', r if isinstance(r, Raised) else np.array(r, dtype=float), np.array(ri, dtype=float), None, tolc)
    for nm, fn in (('pos_to_a12', g.pos_to_a12), ('pos_to_xy', g.pos_to_xy)):
        ref = call(fn, P.copy())
        if isinstance(ref, Raised):
            bad('raises', f'{nm} {ref} {tag}')
            continue
        refa = np.array(ref, dtype=float)
        tolc = 1e-9 * (L if nm.endswith('xy') else 1.0) * (1 + float(np.abs(q1).max() + np.abs(q2).max()))
        Pro = P.copy()
        Pro.flags.writeable = False
        for pn_, pf in (('list of lists', P.tolist()), ('tuple of tuples', tuple(map(tuple, P.tolist()))), ('read-only', Pro), ('Fortran order', np.asfortranarray(P)),
                        ('transposed (3, n) array .T', np.ascontiguousarray(P.T).T), ('float32 array', None)):
            if pf is None:
                P32 = P.astype(np.float32)
                r0 = call(fn, P32.astype(float))
                r = call(fn, P32)
                if isinstance(r0, Raised):
                    continue
                same(f'{nm}(<{pn_}>)', r if isinstance(r, Raised) else np.array(r, dtype=float), np.array(r0, dtype=float), None, tolc)
                continue
            r = call(fn, pf)
            same(f'{nm}(<{pn_}>)', r if isinstance(r, Raised) else np.array(r, dtype=float), refa, refa.shape, tolc)
        r = call(fn, P[0].tolist())
        same(f'{nm}(<one position, list>)', r if isinstance(r, Raised) else np.ravel(np.array(r, dtype=float)), refa[:, 0], None, tolc)
        # integer-typed positions: the lattice translations n1 A1 + n2 A2 of a cell with integer Cartesian vectors
        mlt = min([k_ for k_ in (1, 2, 4) if all(float(k_ * t) == round(float(k_ * t)) for t in A1 + A2)] or [0])
        if mlt:
            Pi = np.array([[int(round(float(t))) for t in o_pos(A1, A2, (FF(mlt * round(a)), FF(mlt * round(b_))))] for a, b_ in zip(q1, q2)], dtype=np.int64)
            r0, r = call(fn, Pi.astype(float)), call(fn, Pi)
            if not isinstance(r0, Raised):
                same(f'{nm}(<int64 positions {Pi.tolist()}>)', r if isinstance(r, Raised) else np.array(r, dtype=float), np.array(r0, dtype=float), None, tolc)
    # -- the data and the shift vectors themselves in other forms: the same surface
    ref = np.asarray(g.E_gsf(a1=q1.copy(), a2=q2.copy()), dtype=float)
    box = mk_box(spec)
    a1v, a2v = spec['a1vect'], spec['a2vect']
    builds = [('lists', dict(a1vect=list(a1v), a2vect=list(a2v), a1=list(spec['a1']), a2=list(spec['a2']), E_gsf=list(spec['E']))),
              ('tuples', dict(a1vect=tuple(a1v), a2vect=tuple(a2v), a1=tuple(spec['a1']), a2=tuple(spec['a2']), E_gsf=tuple(spec['E']))),
              ('strings for the vectors', dict(a1vect=' '.join(repr(float(t)) for t in a1v), a2vect=' '.join(repr(float(t)) for t in a2v),
                                               a1=np.array(spec['a1']), a2=np.array(spec['a2']), E_gsf=np.array(spec['E']))),
              ('read-only / strided arrays', dict(a1vect=_forms_1d(np, np.array(a1v, dtype=float))[3][1], a2vect=_forms_1d(np, np.array(a2v, dtype=float))[2][1],
                                                  a1=_forms_1d(np, np.array(spec['a1']))[2][1], a2=_forms_1d(np, np.array(spec['a2']))[3][1],
                                                  E_gsf=_forms_1d(np, np.array(spec['E']))[2][1])),
              ('float32 vectors', dict(a1vect=np.array(a1v, dtype=np.float32), a2vect=np.array(a2v, dtype=np.float32), a1=np.array(spec['a1']),
                                       a2=np.array(spec['a2']), E_gsf=np.array(spec['E']))) if all(float(np.float32(t)) == t for t in list(a1v) + list(a2v)) else None,
              ('integer vectors', dict(a1vect=[int(t) for t in a1v], a2vect=np.array([int(t) for t in a2v], dtype=np.int32), a1=np.array(spec['a1']),
                                       a2=np.array(spec['a2']), E_gsf=np.array(spec['E']))) if all(float(t) == int(t) for t in list(a1v) + list(a2v)) else None]
    for item in builds:
        if item is None:
            continue
        bn, kwb = item
        if has_d:
            kwb['delta'] = list(spec['delta']) if bn != 'tuples' else tuple(spec['delta'])
        g2 = call(lambda: am.defect.GammaSurface(box=box, **kwb))
        r = g2 if isinstance(g2, Raised) else call(g2.E_gsf, a1=q1.copy(), a2=q2.copy())
        if same(f'GammaSurface(data / vectors given as {bn}).E_gsf(a1=, a2=)', r, ref, (m,), 1e-12 * scale) and has_d:
            same(f'GammaSurface(data given as {bn}).delta(a1=, a2=)', call(g2.delta, a1=q1.copy(), a2=q2.copy()), np.asarray(g.delta(a1=q1.copy(), a2=q2.copy()), dtype=float), (m,), 1e-12)
    # integer-typed energies (e.g. read from a table of mJ/m^2 rounded to integers)
    Ei = np.round(np.array(spec['E']) * 64).astype(np.int64)
    if np.any(Ei):
        gi = call(lambda: am.defect.GammaSurface(a1vect=list(a1v), a2vect=list(a2v), a1=np.array(spec['a1']), a2=np.array(spec['a2']), E_gsf=Ei, box=box))
        gf = call(lambda: am.defect.GammaSurface(a1vect=list(a1v), a2vect=list(a2v), a1=np.array(spec['a1']), a2=np.array(spec['a2']), E_gsf=Ei.astype(float), box=box))
        if not isinstance(gf, Raised):
            for kw, kwn in (({}, ''), ({'smooth': False}, ', smooth=False')):
                same(f'GammaSurface(E_gsf=<int64 array>).E_gsf(a1=, a2={kwn})', gi if isinstance(gi, Raised) else call(gi.E_gsf, a1=q1.copy(), a2=q2.copy(), **kw),
                     np.asarray(gf.E_gsf(a1=q1.copy(), a2=q2.copy(), **kw), dtype=float), (m,), 1e-10 * float(np.abs(Ei).max()))
    ctx.extra['xcut_forms_gamma_checked'] = ctx.extra.get('xcut_forms_gamma_checked', 0) + n_checked


def xc_forms_sdvpn(ctx, case, bad):
    """SDVPN / pn_arctan_* and input forms: x, disregistry, tau, beta, alpha, cut-off given as lists / tuples / integer /
    float32 / strided / Fortran-ordered / read-only arrays, python and numpy scalars -- through the constructor, the
    setters, solve() and the explicit arguments of every method -- give what the float64 arrays give."""
    import atomman as am
    np = _np()
    v, g, A1, A2, scale = _system(case)
    st = case['settings']
    tag = f'[{case["system"]}]'
    pn = call(new_pn, v, g, st)
    if isinstance(pn, Raised):
        bad('construct', f'{pn} {tag}')
        return
    x, d = np.array(case['x'], dtype=float), np.array(case['d'], dtype=float)
    names = ('misfit', 'elastic', 'stress', 'surface', 'nonlocal', 'total')
    ref = {t: call(getattr(pn, t + '_energy'), x, d) for t in names}
    if any(isinstance(r, Raised) for r in ref.values()):
        bad('raises', f'energies of float64 arrays: {[str(r) for r in ref.values() if isinstance(r, Raised)][:1]} {tag}')
        return
    mag = sum(abs(float(ref[t])) for t in names[:-1]) + 1e-300
    bigx = np.zeros(2 * len(x))
    bigx[::2] = x
    bigd = np.zeros((len(d), 6))
    bigd[:, ::2] = d
    xro, dro = x.copy(), d.copy()
    xro.flags.writeable = False
    dro.flags.writeable = False
    forms = [('lists', x.tolist(), d.tolist(), 1e-12), ('tuples', tuple(x.tolist()), tuple(map(tuple, d.tolist())), 1e-12),
             ('strided views', bigx[::2], bigd[:, ::2], 1e-12), ('Fortran-ordered disregistry', x, np.asfortranarray(d), 1e-12),
             ('read-only arrays', xro, dro, 1e-12), ('list of arrays', [np.float64(t) for t in x], [r_.copy() for r_ in d], 1e-12)]

    def cmp(nm, got, want, rtol):
        ctx.stats.case('x:forms:sdvpn', (case['system'], nm))
        if isinstance(got, Raised):
            bad('raises', f'{nm} {got}; the same numbers as float64 arrays are accepted {tag}')
            return False
        if not abs(float(got) - float(want)) <= rtol * mag:
            bad('value', f'{nm} = {float(got)!r}, the same numbers as float64 arrays give {float(want)!r} {tag}')
            return False
        return True
    for fnm, xa, da, rtol in forms:
        for t in names:
            if not cmp(f'{t}_energy(x=<{fnm}>, disregistry=<{fnm}>)', call(getattr(pn, t + '_energy'), xa, da), ref[t], rtol):
                return
        for cd in (False, True):
            r0, r = pn.disldensity(x, d, cdiff=cd), call(pn.disldensity, xa, da, cdiff=cd)
            w = str(r) if isinstance(r, Raised) else (_rel(r[0], r0[0], 1e-14) or _rel(r[1], r0[1], 1e-12))
            if w:
                bad('value', f'disldensity(x=<{fnm}>, disregistry=<{fnm}>, cdiff={cd}): {w} {tag}')
                return
    # float32: the same rounded numbers as float64 (the arithmetic may then be single precision: 1e-5 of the magnitudes)
    x32, d32 = x.astype(np.float32), d.astype(np.float32)
    for t in names:
        want = call(getattr(pn, t + '_energy'), x32.astype(float), d32.astype(float))
        if not isinstance(want, Raised):
            cmp(f'{t}_energy(x=<float32>, disregistry=<float32>)', call(getattr(pn, t + '_energy'), x32, d32), want, 1e-4)
    # integers: an integer grid and an integer-valued disregistry
    xi = np.arange(len(x), dtype=np.int64) - len(x) // 2
    di = np.zeros((len(x), 3), dtype=np.int64)
    di[:, 0] = np.round(np.linspace(0, 3, len(x)))
    di[:, 2] = np.round(np.linspace(0, -2, len(x)) ** 2)
    for inm, xa, da in (('int64 arrays', xi, di), ('int32 arrays', xi.astype(np.int32), di.astype(np.int32)), ('lists of python ints', xi.tolist(), di.tolist()),
                        ('int64 grid, float disregistry', xi, di.astype(float))):
        for t in names:
            want = call(getattr(pn, t + '_energy'), xi.astype(float), di.astype(float))
            if not isinstance(want, Raised) and not cmp(f'{t}_energy(x=<{inm}>, ...) on the grid {xi.tolist()}', call(getattr(pn, t + '_energy'), xa, da), want, 1e-12):
                return
    # -- settings in other forms (constructor, setters, solve): the same state, the same energies
    tau, beta = np.array(st['tau']), np.array(st['beta'])
    e_ref = float(ref['total'])
    tro = tau.copy()
    tro.flags.writeable = False
    al = list(st['alpha'])
    variants = [('lists of lists', dict(tau=tau.tolist(), beta=beta.tolist(), alpha=al)), ('tuples', dict(tau=tuple(map(tuple, tau.tolist())), beta=tuple(map(tuple, beta.tolist())), alpha=tuple(al))),
                ('Fortran / read-only arrays', dict(tau=tro, beta=np.asfortranarray(beta), alpha=np.array(al))),
                ('transposed views', dict(tau=np.ascontiguousarray(tau.T).T, beta=np.ascontiguousarray(beta.T).T, alpha=[np.float64(t) for t in al]))]
    mod = sys.modules['atomman.defect.SDVPN']
    for vn, kwv in variants:
        for how in ('constructor', 'setters', 'solve'):
            ctx.stats.case('x:forms:settings', (case['system'], vn, how))

            def build():
                base = dict(cutofflongrange=st['cutofflongrange'], **{f: st[f] for f in FLAGS})
                if how == 'constructor':
                    return am.defect.SDVPN(volterra=v, gamma=g, **kwv, **base)
                p = am.defect.SDVPN(volterra=v, gamma=g, **base)
                if how == 'setters':
                    for k_, val in kwv.items():
                        setattr(p, k_, val)
                    return p
                real = mod.minimize
                mod.minimize = _FakeMin(random.Random(1))
                try:
                    p.solve(x=x.tolist(), disregistry=d.tolist(), **kwv)
                finally:
                    mod.minimize = real
                return p
            p = call(build)
            if isinstance(p, Raised):
                bad('raises', f'tau / beta / alpha given as {vn} through the {how}: {p} {tag}')
                continue
            w = _state_diff(_sdvpn_state(p), st)
            e = call(p.total_energy, x, d)
            if w or isinstance(e, Raised) or not abs(float(e) - e_ref) <= 1e-12 * mag:
                bad('value', f'tau / beta / alpha given as {vn} through the {how}: {w or e} (total energy {e!s} vs {e_ref!r}) {tag}')
    # a single alpha coefficient as a bare number of any kind; the cut-off as an int / numpy scalar
    a0 = float(al[0])
    for an, av in (('python float', a0), ('numpy.float64', np.float64(a0)), ('0-d array', np.array(a0)), ('numpy.float32', np.float32(a0)) if float(np.float32(a0)) == a0 else ('python float', a0)):
        p = call(lambda: am.defect.SDVPN(volterra=v, gamma=g, alpha=av))
        want = a0 * float(np.sum(d[1:-1] * (d[1:-1] - 0.5 * (d[2:] + d[:-2])))) * float(x[1] - x[0])
        e = p if isinstance(p, Raised) else call(p.nonlocal_energy, x, d)
        ctx.stats.case('x:forms:alpha', (case['system'], an))
        if isinstance(e, Raised) or len(p.alpha) != 1 or not abs(float(e) - want) <= 1e-9 * abs(want) + 1e-13:
            bad('value', f'alpha given as a {an} ({a0!r}): alpha = {p if isinstance(p, Raised) else p.alpha}, nonlocal_energy = {e!s}, formula {want!r} {tag}')
    for cn, cv in (('python int', 37), ('numpy.int64', np.int64(37)), ('numpy.float32', np.float32(37.0)), ('0-d array', np.array(37.0))):
        p = call(lambda: am.defect.SDVPN(volterra=v, gamma=g, cutofflongrange=cv))
        ctx.stats.case('x:forms:cutoff', (case['system'], cn))
        if isinstance(p, Raised) or p.cutofflongrange != 37.0:
            bad('value', f'cutofflongrange given as a {cn} (37): {p if isinstance(p, Raised) else p.cutofflongrange!r} {tag}')
        else:
            want = o_terms(pn.K_tensor, pn.burgers, dict(st, cutofflongrange=37.0), x, d)['longrange'][0]
            if not abs(float(p.longrange_energy()) - float(want)) <= 1e-9 * abs(float(want)):
                bad('value', f'longrange_energy with cutofflongrange given as a {cn} (37) = {p.longrange_energy()!r}, formula {float(want)!r} {tag}')
    # -- the stored profile given in other forms (setters, solve) and an integer-typed guess
    for fnm, xa, da, rtol in forms[:5]:
        p = new_pn(v, g, st)
        r = call(lambda: (setattr(p, 'x', xa), setattr(p, 'disregistry', da)))
        e = r if isinstance(r, Raised) else call(p.total_energy)
        cmp(f'obj.x = <{fnm}>; obj.disregistry = <{fnm}>; total_energy()', e, ref['total'], rtol)
    pf, pi = new_pn(v, g, st), new_pn(v, g, st)
    opts = {'maxiter': 25}
    rf = call(pf.solve, x=xi.astype(float), disregistry=di.astype(float), min_method='Nelder-Mead', min_options=dict(opts))
    ri = call(pi.solve, x=xi, disregistry=di, min_method='Nelder-Mead', min_options=dict(opts))
    ctx.stats.case('x:forms:solve-int', (case['system'], tuple(xi)))
    if isinstance(ri, Raised) and not isinstance(rf, Raised):
        bad('raises', f'solve(x=<int64>, disregistry=<int64>) {ri}; the same guess as float64 is accepted {tag}')
    elif not isinstance(rf, Raised):
        w = _rel(np.asarray(pi.disregistry, dtype=float), np.asarray(pf.disregistry, dtype=float), 1e-9)
        if w:
            bad('value', f'solve() from an integer-typed guess {di[:, 0].tolist()} stores another solution than from the same guess as float64 '
                         f'(x component {np.asarray(pi.disregistry)[:, 0].tolist()} vs {np.round(np.asarray(pf.disregistry)[:, 0], 6).tolist()}): {w} {tag}')
    # -- pn_arctan_* with x / burgers in other forms
    b = np.array(pn.burgers, dtype=float)
    r0 = am.defect.pn_arctan_disregistry(x=x, burgers=b, halfwidth=0.75, center=0.125)
    q0 = am.defect.pn_arctan_disldensity(x=x, burgers=b, halfwidth=0.75, center=0.125)
    for fnm, xa, ba in (('lists', x.tolist(), b.tolist()), ('tuples', tuple(x.tolist()), tuple(b.tolist())), ('strided views', bigx[::2], _forms_1d(np, b)[2][1]),
                        ('read-only arrays', xro, _forms_1d(np, b)[3][1])):
        for fname, fn, want in (('pn_arctan_disregistry', am.defect.pn_arctan_disregistry, r0), ('pn_arctan_disldensity', am.defect.pn_arctan_disldensity, q0)):
            r = call(fn, x=xa, burgers=ba, halfwidth=0.75, center=0.125)
            ctx.stats.case('x:forms:arctan', (case['system'], fname, fnm))
            w = str(r) if isinstance(r, Raised) else (_rel(r[0], want[0], 1e-14) or _rel(r[1], want[1], 1e-13))
            if w:
                bad('value', f'{fname}(x=<{fnm}>, burgers=<{fnm}>): {w} {tag}')
    r = call(am.defect.pn_arctan_disregistry, x=xi, burgers=[2, 0, 1], halfwidth=2, center=0)
    want = am.defect.pn_arctan_disregistry(x=xi.astype(float), burgers=np.array([2.0, 0.0, 1.0]), halfwidth=2.0, center=0.0)
    w = str(r) if isinstance(r, Raised) else _rel(r[1], want[1], 1e-13)
    if w:
        bad('value', f'pn_arctan_disregistry(x=<int64>, burgers=[2, 0, 1], halfwidth=2, center=0) (all integers): {w} {tag}')


def xc_scale_gamma(ctx, case, bad):
    """every length x 2^k, every energy x 2^j: all gamma-surface clauses hold with tolerances that scale along, and the two
    documented refusals (x axis out of the plane; position off the plane) are decided by the RELATIVE geometry."""
    np = _np()
    k, j = case['k'], case['j']
    sL, sE = 2.0 ** k, 2.0 ** j
    spec = scale_spec(case['spec'], sL, sE)
    when = f'lengths x 2^{k}, energies x 2^{j}: '
    ctx.stats.case('x:scale:gamma', (case['spec']['tag'], k, j, case['spec']['n1'], case['spec']['n2']))
    g = call(mk_gamma, spec)
    if isinstance(g, Raised):
        bad('construct', f'{when}GammaSurface(...) {g}')
        return
    _gamma_clauses(ctx, case, dict(case['sub'], spec=spec), g, when, unit=(sL, sE))
    A1, A2 = o_cart(spec)
    A1f, A2f = np.array([float(t) for t in A1]), np.array([float(t) for t in A2])
    N = np.cross(A1f / sL, A2f / sL)
    area = float(np.linalg.norm(N))
    nh = N / area
    q = case['sub']['queries']
    q1, q2 = np.array([t[0] for t in q], dtype=float), np.array([t[1] for t in q], dtype=float)
    P = np.outer(q1, A1f) + np.outer(q2, A2f)
    tag = f'[{spec["tag"]} {spec["n1"]}x{spec["n2"]}]'
    # x axis tilted out of the plane by the relative amount t: refused for t >= 1e-5, accepted for t <= 1e-12
    for base_n, base in (('a1vect', A1f), ('a1vect - 2 a2vect', A1f - 2 * A2f)):
        for t, must in ((0.0, True), (1e-12, True), (1e-5, False), (0.3, False)):
            X = base + t * float(np.linalg.norm(base)) * nh
            for nm, fn in (('pos_to_xy(pos, xvect=X)', lambda: g.pos_to_xy(P.copy(), xvect=X)), ('xy_to_pos(x, y, xvect=X)', lambda: g.xy_to_pos(q1, q2, xvect=X)),
                           ('E_gsf(x=, y=, xvect=X)', lambda: g.E_gsf(x=q1 * sL, y=q2 * sL, xvect=X))):
                r = call(fn)
                ctx.stats.case('x:scale:xvect', (spec['tag'], k, base_n, t, nm))
                refused = isinstance(r, Raised) and r.cls == 'err:value'
                if must and isinstance(r, Raised):
                    bad('refusal', f'{when}{nm} with X = {base_n} + {t} |X| n (in the plane to {t}) {r} {tag}')
                elif not must and not refused:
                    bad('refusal', f'{when}{nm} with the x axis X = {base_n} + {t} |X| n, tilted out of the plane, is '
                                   f'{"answered" if not isinstance(r, Raised) else str(r)} instead of refused with ValueError {tag}')
    # positions lifted off the plane by h * sqrt(|A1 x A2|): refused for h >= 1e-3, accepted for h <= 1e-9 (|a1|, |a2| <= 3)
    for h, must in ((0.0, True), (1e-9, True), (1e-3, False), (0.25, False)):
        Ph = P + h * math.sqrt(area) * sL * nh
        for nm, fn in (('pos_to_a12(pos)', lambda: g.pos_to_a12(Ph.copy())), ('E_gsf(pos=)', lambda: g.E_gsf(pos=Ph.copy())), ('pos_to_a12(one position)', lambda: g.pos_to_a12(Ph[0].copy()))):
            r = call(fn)
            ctx.stats.case('x:scale:plane', (spec['tag'], k, h, nm))
            refused = isinstance(r, Raised) and r.cls == 'err:assert'
            if must and isinstance(r, Raised):
                bad('refusal', f'{when}{nm} for positions {h} sqrt|a1vect x a2vect| off the plane {r} {tag}')
            elif not must and not refused:
                bad('refusal', f'{when}{nm} for positions {h} sqrt|a1vect x a2vect| OFF the plane is '
                               f'{"answered" if not isinstance(r, Raised) else str(r)} instead of refused (AssertionError) {tag}')
    # queries far away (|a| up to 2^40): wrapped in one step, same value as the reduced point
    far = np.array([2.0 ** 40 + 0.25, -2.0 ** 33 + 0.5, 1e6 + 0.125, -12345678.0 + 0.375])
    r = call(g.E_gsf, a1=far.copy(), a2=far[::-1].copy())
    want = call(g.E_gsf, a1=np.array([0.25, 0.5, 0.125, 0.375]), a2=np.array([0.375, 0.125, 0.5, 0.25]))
    w = str(r) if isinstance(r, Raised) else str(want) if isinstance(want, Raised) else _rel(r, want, 0.0, 1e-6 * max(abs(t) for t in spec['E']))
    if w:
        bad('far', f'{when}E_gsf at a1 = {far.tolist()} (dyadic fractions + huge integers) != E_gsf at the reduced points: {w} {tag}')


def xc_scale_sdvpn(ctx, case, bad):
    """every length x 2^k, every modulus x 2^j: the six terms against their formulas, and the documented refusals
    (unevenly spaced x, out-of-plane disregistry, Burgers vector out of the slip plane, incompatible arctan grid)
    decided by RELATIVE deviations."""
    import atomman as am
    np = _np()
    k, j = case['k'], case['j']
    LU, PU = 2.0 ** k, 2.0 ** j
    EU, ELU = PU * LU, PU * LU * LU
    when = f'lengths x 2^{k}, moduli x 2^{j}: '
    tag = f'[{case["system"]}]'
    ctx.stats.case('x:scale:sdvpn', (case['system'], k, j, tuple(case['x'])))
    r = call(mk_volterra, case['system'], LU, PU)
    if isinstance(r, Raised):
        bad('construct', f'{when}solve_volterra_dislocation {r} {tag}')
        return
    v, _ = r
    sp = scale_spec(case['spec'], LU, EU)
    g = call(mk_gamma, sp)
    st = scale_settings(case['settings'], LU, PU)
    pn = g if isinstance(g, Raised) else call(new_pn, v, g, st)
    if isinstance(pn, Raised):
        bad('construct', f'{when}{pn} {tag}')
        return
    K, b, T = exact_frame(v)
    A1, A2 = o_cart(sp)
    x, d = np.array(case['x']) * LU, np.array(case['d']) * LU
    _check_terms(ctx, case, bad, pn, g, K, b, T, A1, A2, st, x, d, True, when + 'fresh object', max(abs(t) for t in sp['E']), eunit=ELU, punit=1.0)
    # refusals
    dx = float(x[1] - x[0])
    for t, must in ((0.0, True), (1e-12, True), (0.3, False), (1e-3, False)):
        xb = x.copy()
        xb[len(x) // 2] += t * dx
        r = call(setattr, pn, 'x', xb)
        ctx.stats.case('x:scale:refusal', (case['system'], k, 'x', t))
        if must and isinstance(r, Raised):
            bad('refusal', f'{when}obj.x = <grid with one point moved by {t} of the spacing> {r} {tag}')
        elif not must and not (isinstance(r, Raised) and r.cls == 'err:assert'):
            bad('refusal', f'{when}obj.x = <grid with one point moved by {t} of the spacing> is accepted instead of refused (evenly spaced x required) {tag}')
    bmag = float(np.linalg.norm(b))
    for t, must in ((0.0, True), (1e-13, True), (0.5, False), (1e-3, False)):
        db = d.copy()
        db[len(d) // 2, 1] = t * bmag
        r = call(setattr, pn, 'disregistry', db)
        ctx.stats.case('x:scale:refusal', (case['system'], k, 'y', t))
        if must and isinstance(r, Raised):
            bad('refusal', f'{when}obj.disregistry = <y component {t} |b| at one point> {r} {tag}')
        elif not must and not (isinstance(r, Raised) and r.cls == 'err:assert'):
            bad('refusal', f'{when}obj.disregistry = <y component {t} |b| at one point> is accepted instead of refused (out-of-plane disregistry not supported) {tag}')
    # an arctangent grid given consistently / inconsistently
    n_ = 2 * len(x) + 1
    for fac, must in ((1.0, True), (1.3, False), (1.001, False)):
        for fname in ('pn_arctan_disregistry', 'pn_arctan_disldensity'):
            r = call(getattr(am.defect, fname), xmax=(n_ - 1) / 2 * 0.25 * LU, xstep=0.25 * LU * fac, xnum=n_, burgers=b)
            ctx.stats.case('x:scale:refusal', (case['system'], k, fname, fac))
            if must and (isinstance(r, Raised) or len(r[0]) != n_ or _rel(r[0], (np.arange(n_) - (n_ - 1) / 2) * 0.25 * LU, 1e-13)):
                bad('refusal', f'{when}{fname}(xmax, xstep, xnum) with consistent values: {r if isinstance(r, Raised) else "wrong grid"} {tag}')
            elif not must and not (isinstance(r, Raised) and r.cls == 'err:value'):
                bad('refusal', f'{when}{fname}(xmax, xstep x {fac}, xnum) (incompatible) is accepted instead of refused with ValueError {tag}')
    # Burgers vector out of the slip plane
    # (anisotropic solution, moduli of order one: the isotropic solver refuses such a Burgers vector itself)
    C = am.ElasticConstants(C11=1.6, C12=1.0, C44=0.7)
    for t, must in ((0.0, True), (0.3, False), (1e-3, False)):
        vb = call(lambda: am.defect.solve_volterra_dislocation(C, burgers=[2.5 * LU, t * 2.5 * LU, 0.0], transform=np.eye(3)))
        if isinstance(vb, Raised):
            ctx.notes.append(f'xcut scale-sdvpn: Volterra solution for the Burgers-vector refusal not available at 2^{k}: {vb}') if len(ctx.notes) < 5 else None
            continue
        gs = mk_gamma(scale_spec(gen_gamma_spec(random.Random(1), regime='generic', vects=([2.5, 0.0, 0.0], [0.0, 0.0, 4.0], None, 'rect-xz'), grid=(4, 3), dup=False, delta=False, sinus=0.05), LU, EU))
        r = call(lambda: am.defect.SDVPN(volterra=vb, gamma=gs))
        ctx.stats.case('x:scale:refusal', (case['system'], k, 'burgers', t))
        if must and isinstance(r, Raised):
            bad('refusal', f'{when}SDVPN(volterra=<b in the slip plane>, gamma=) {r} {tag}')
        elif not must and not (isinstance(r, Raised) and r.cls == 'err:value'):
            bad('refusal', f'{when}SDVPN(volterra=<Burgers vector with a component {t} |b| normal to the slip plane>, gamma=) is accepted instead of refused {tag}')


def xc_falsy(ctx, case, bad):
    """falsy-but-valid values are VALUES, not "not given": alpha=0 / 0.0 / [] / [0.0], tau / beta of zeros, flags False,
    empty option dicts, a cut-off given as 0 -- through the constructor, the setters, solve() and load(); queries at
    a1 = a2 = 0 / x = y = 0 / pos = 0; all-zero energies or plane separations; a K tensor with zero rows (loaded)."""
    import atomman as am
    np = _np()
    v, g, A1, A2, scale = _system(case)
    st = case['settings']
    tag = f'[{case["system"]}]'
    x, d = np.array(case['x'], dtype=float), np.array(case['d'], dtype=float)
    mod = sys.modules['atomman.defect.SDVPN']
    K, b, T = exact_frame(v)
    zero3 = [[0.0] * 3 for _ in range(3)]
    for how in ('solve', 'setters', 'constructor'):
        for an, av, want_alpha in (('0.0', 0.0, [0.0]), ('0', 0, [0.0]), ('[]', [], []), ('[0.0]', [0.0], [0.0]), ('(0.0, 0.0)', (0.0, 0.0), [0.0, 0.0]), ('numpy.float64(0)', np.float64(0.0), [0.0])):
            ctx.stats.case('x:falsy', (case['system'], how, an))
            new = {'alpha': av, 'tau': np.zeros((3, 3)), 'beta': np.zeros((3, 3)), 'fullstress': False, 'cdiffelastic': False, 'cdiffsurface': False, 'cdiffstress': False}
            want = dict(st, alpha=want_alpha, tau=zero3, beta=zero3, fullstress=False, cdiffelastic=False, cdiffsurface=False, cdiffstress=False)

            def build():
                if how == 'constructor':
                    return am.defect.SDVPN(volterra=v, gamma=g, cutofflongrange=st['cutofflongrange'], **new)
                # every setting non-zero / True first
                p = am.defect.SDVPN(volterra=v, gamma=g, tau=np.array(st['tau']) + 0.01, alpha=[0.05, 0.02], beta=np.array(st['beta']) + 0.02,
                                    cutofflongrange=st['cutofflongrange'], fullstress=True, cdiffelastic=True, cdiffsurface=True, cdiffstress=True,
                                    min_method='Nelder-Mead', min_options={'maxfev': 3}, min_kwargs={'tol': 0.5})
                if how == 'setters':
                    for k_, val in new.items():
                        setattr(p, k_, val)
                    p.min_options, p.min_kwargs = {}, {}
                    return p
                real = mod.minimize
                mod.minimize = _FakeMin(random.Random(2))
                try:
                    p.solve(x=x, disregistry=d, min_options={}, min_kwargs={}, **new)
                finally:
                    mod.minimize = real
                return p
            p = call(build)
            if isinstance(p, Raised):
                bad('raises', f'alpha={an}, tau=zeros, beta=zeros, flags False through the {how}: {p} {tag}')
                continue
            w = _state_diff(_sdvpn_state(p), want)
            if not w and how != 'constructor' and (p.min_options != {} or p.min_kwargs != {}):
                w = f'min_options = {p.min_options}, min_kwargs = {p.min_kwargs} after {{}} was given'
            if w:
                bad('ignored', f'alpha={an}, tau=zeros, beta=zeros, all flags False (and empty option dicts) given through the {how} on an object whose settings '
                               f'were all non-zero / True: {w} {tag}')
                continue
            e = {t: call(getattr(p, t + '_energy'), x, d) for t in ('nonlocal', 'stress', 'surface')}
            if any(isinstance(val, Raised) or float(val) != 0.0 for val in e.values()):
                bad('ignored', f'after alpha={an}, tau=zeros, beta=zeros through the {how}: nonlocal / stress / surface energies {[str(val) for val in e.values()]} are not 0 {tag}')
    # a cut-off of 0 is stored as given (its logarithm is the caller's business), not replaced by the default
    for how in ('constructor', 'setter', 'solve'):
        p = am.defect.SDVPN(volterra=v, gamma=g, cutofflongrange=(0 if how == 'constructor' else 50.0))
        if how == 'setter':
            p.cutofflongrange = 0.0
        elif how == 'solve':
            real = mod.minimize
            mod.minimize = _FakeMin(random.Random(3))
            try:
                r = call(p.solve, x=x, disregistry=d, cutofflongrange=0)
            finally:
                mod.minimize = real
        ctx.stats.case('x:falsy:cutoff', (case['system'], how))
        if p.cutofflongrange != 0.0:
            bad('ignored', f'cutofflongrange=0 given through the {how}: the object has {p.cutofflongrange!r} {tag}')
    # -- load(): a record with alpha [0.0], zero tau / beta, a K tensor with a zero row and column
    src = new_pn(v, g, dict(st, alpha=[0.0], tau=zero3, beta=zero3))
    src.x, src.disregistry = x, d
    m = src.model()
    par = m['semidiscrete-variational-Peierls-Nabarro']['parameter']
    Kz = np.array(K, dtype=float)
    Kz[2, :] = 0.0
    Kz[:, 2] = 0.0
    par['K_tensor']['value'] = np.asarray(am.unitconvert.get_in_units(Kz, par['K_tensor']['unit'])).ravel().tolist()
    for form in ('dm', 'json', 'xml'):
        p = call(lambda: am.defect.SDVPN(model={'dm': m, 'json': m.json(), 'xml': m.xml()}[form], gamma=g))
        ctx.stats.case('x:falsy:load', (case['system'], form))
        if isinstance(p, Raised):
            bad('raises', f'loading a record with alpha [0.0], zero tau / beta and a K tensor whose third row and column are zero ({form}): {p} {tag}')
            continue
        stz = dict(st, alpha=[0.0], tau=zero3, beta=zero3)
        w = _state_diff(_sdvpn_state(p), stz) or _rel(p.K_tensor, Kz, 1e-12)
        if w:
            bad('ignored', f'record with alpha [0.0], zero tau / beta, K with a zero row/column ({form}): {w} {tag}')
            continue
        _check_terms(ctx, case, bad, p, g, Kz, b, T, A1, A2, stz, x, d, 'none', f'loaded ({form}) record with zero alpha / tau / beta and a K tensor with a zero row', scale, stored=(x, d))
    # -- gamma surface: queries at the origin in every falsy form; all-zero data
    spec = case['spec']
    e00 = spec['E'][[i for i in range(len(spec['a1'])) if spec['a1'][i] == 0 and spec['a2'][i] == 0][0]]
    tol = (256 * EPS * o_fit_cond(spec) + 1e-9) * scale
    for nm, kw in (('a1=0, a2=0', dict(a1=0, a2=0)), ('a1=0.0, a2=0.0', dict(a1=0.0, a2=0.0)), ('a1=[0], a2=[0]', dict(a1=[0], a2=[0])), ('x=0, y=0', dict(x=0, y=0)),
                   ('x=0.0, y=0.0', dict(x=0.0, y=0.0)), ('pos=[0, 0, 0]', dict(pos=[0, 0, 0])), ('pos=zeros(3)', dict(pos=np.zeros(3))), ('pos=zeros((2, 3))', dict(pos=np.zeros((2, 3)))),
                   ('a1=0, a2=0, smooth=False', dict(a1=0, a2=0, smooth=False)), ('a1=False, a2=False', dict(a1=False, a2=False))):
        r = call(g.E_gsf, **kw)
        ctx.stats.case('x:falsy:origin', (case['system'], nm))
        if isinstance(r, Raised) or not np.all(np.abs(np.asarray(r, dtype=float) - e00) <= tol):
            bad('origin', f'E_gsf({nm}) = {r!s}, the energy sampled at the origin is {e00!r} {tag}')
    r = call(g.a12_to_pos, 0, 0)
    if isinstance(r, Raised) or np.any(np.asarray(r) != 0):
        bad('origin', f'a12_to_pos(0, 0) = {r!s} {tag}')
    n = len(spec['a1'])
    gz = call(lambda: am.defect.GammaSurface(a1vect=spec['a1vect'], a2vect=spec['a2vect'], a1=spec['a1'], a2=spec['a2'], E_gsf=[0.0] * n, delta=[0] * n, box=mk_box(spec)))
    ctx.stats.case('x:falsy:zero-data', (case['system'],))
    if isinstance(gz, Raised):
        bad('raises', f'GammaSurface with all-zero energies and plane separations: {gz} {tag}')
    else:
        r1, r2 = call(gz.E_gsf, a1=[0.3, 1.7], a2=[0.2, -0.4]), call(gz.delta, a1=[0.3, 1.7], a2=[0.2, -0.4])
        if isinstance(r1, Raised) or isinstance(r2, Raised) or np.any(np.abs(r1) > 1e-12) or np.any(np.abs(r2) > 1e-12):
            bad('origin', f'GammaSurface with all-zero energies and plane separations: E_gsf -> {r1!s}, delta -> {r2!s} (delta was GIVEN, as zeros) {tag}')
        m2 = call(lambda: am.defect.GammaSurface(model=gz.model().json()))
        if isinstance(m2, Raised) or 'delta' not in m2.data:
            bad('origin', f'all-zero plane separations do not survive the data-model round trip: {m2 if isinstance(m2, Raised) else "column lost"} {tag}')


def xc_order(ctx, case, bad):
    """positional arguments in the DOCUMENTED order mean what the keywords mean (constructors, set, solve, model, load,
    every conversion, disldensity, check_energies, pn_arctan_*)."""
    import atomman as am
    np = _np()
    v, g0, A1, A2, scale = _system(case)
    spec = case['gspec']
    st = case['settings']
    x, d = np.array(case['x'], dtype=float), np.array(case['d'], dtype=float)
    tag = f'[{case["system"]}, {spec["tag"]}]'
    G, S = am.defect.GammaSurface, am.defect.SDVPN
    box = mk_box(spec)
    a1, a2, E = np.array(spec['a1']), np.array(spec['a2']), np.array(spec['E'])
    D = None if spec['delta'] is None else np.array(spec['delta'])
    q1, q2 = np.array([0.3, 1.7, -2.2]), np.array([0.1, -0.4, 0.9])

    def same_gamma(nm, gp, gk):
        ctx.stats.case('x:order', (case['system'], nm))
        if isinstance(gp, Raised) or isinstance(gk, Raised):
            bad('raises', f'{nm} {gp if isinstance(gp, Raised) else gk} {tag}')
            return
        k = _obs_diff(_gamma_obs(gk, q1, q2, gk.a12_to_pos(q1, q2), np.array(gk.a12_to_xy(q1, q2))), _gamma_obs(gp, q1, q2, gk.a12_to_pos(q1, q2), np.array(gk.a12_to_xy(q1, q2))))
        if k:
            bad('differs', f'{nm}: positional arguments in the documented order build another object than the keywords ({k}) {tag}')
    gk = call(lambda: G(a1vect=spec['a1vect'], a2vect=spec['a2vect'], a1=a1, a2=a2, E_gsf=E, box=box, delta=D))
    same_gamma('GammaSurface(None, a1vect, a2vect, a1, a2, E_gsf, box, delta)', call(lambda: G(None, spec['a1vect'], spec['a2vect'], a1, a2, E, box, D)), gk)

    def via_set():
        gg = mk_gamma(case['first'])
        gg.set(spec['a1vect'], spec['a2vect'], a1, a2, E, box, D)
        return gg
    same_gamma('set(a1vect, a2vect, a1, a2, E_gsf, box, delta)', call(via_set), gk)
    if not isinstance(gk, Raised):
        mk_ = call(lambda: gk.model(None, 'nm', 'J/m^2'))
        mw = gk.model(length_unit='nm', energyperarea_unit='J/m^2')
        ctx.stats.case('x:order', (case['system'], 'model'))
        if isinstance(mk_, Raised) or mk_.json() != mw.json():
            bad('differs', f'model(None, \'nm\', \'J/m^2\') != model(length_unit=\'nm\', energyperarea_unit=\'J/m^2\') {tag}')
        w1 = np.array(vec3(spec['a1vect']), dtype=float) + np.array(vec3(spec['a2vect']), dtype=float)
        w2 = np.array(vec3(spec['a2vect']), dtype=float)
        P = gk.a12_to_pos(q1, q2)
        X = np.dot(w2, gk.box.vects)
        xy = gk.a12_to_xy(q1, q2, xvect=X)
        for nm, fp, fk in (('a12_to_pos(a1, a2, a1vect, a2vect)', lambda: gk.a12_to_pos(q1, q2, w1, w2), lambda: gk.a12_to_pos(a1=q1, a2=q2, a1vect=w1, a2vect=w2)),
                           ('pos_to_xy(pos, xvect)', lambda: gk.pos_to_xy(P, X), lambda: gk.pos_to_xy(pos=P, xvect=X)),
                           ('a12_to_xy(a1, a2, a1vect, a2vect, xvect)', lambda: gk.a12_to_xy(q1, q2, w1, w2, X), lambda: gk.a12_to_xy(a1=q1, a2=q2, a1vect=w1, a2vect=w2, xvect=X)),
                           ('pos_to_a12(pos, a1vect, a2vect)', lambda: gk.pos_to_a12(P, w1, w2), lambda: gk.pos_to_a12(pos=P, a1vect=w1, a2vect=w2)),
                           ('xy_to_pos(x, y, xvect)', lambda: gk.xy_to_pos(xy[0], xy[1], X), lambda: gk.xy_to_pos(x=xy[0], y=xy[1], xvect=X)),
                           ('xy_to_a12(x, y, a1vect, a2vect, xvect)', lambda: gk.xy_to_a12(xy[0], xy[1], w1, w2, X), lambda: gk.xy_to_a12(x=xy[0], y=xy[1], a1vect=w1, a2vect=w2, xvect=X))):
            rp, rk = call(fp), call(fk)
            ctx.stats.case('x:order', (case['system'], nm))
            if isinstance(rp, Raised) or isinstance(rk, Raised) or not np.array_equal(np.array(rp), np.array(rk)):
                bad('differs', f'{nm} (positional) != the same call with keywords: {rp!s} vs {rk!s} {tag}')
    # SDVPN
    tau, beta, al = np.array(st['tau']), np.array(st['beta']), list(st['alpha'])
    fl = [st[f] for f in FLAGS]
    pk = call(lambda: S(volterra=v, gamma=g0, tau=tau, alpha=al, beta=beta, cutofflongrange=st['cutofflongrange'], fullstress=fl[0], cdiffelastic=fl[1],
                        cdiffsurface=fl[2], cdiffstress=fl[3], min_method='Nelder-Mead', min_kwargs={'tol': 0.5}, min_options={'maxfev': 4}))
    pp = call(lambda: S(v, g0, None, tau, al, beta, st['cutofflongrange'], fl[0], fl[1], fl[2], fl[3], 'Nelder-Mead', {'tol': 0.5}, {'maxfev': 4}))
    mod = sys.modules['atomman.defect.SDVPN']

    def same_pn(nm, p1, p2):
        ctx.stats.case('x:order', (case['system'], nm))
        if isinstance(p1, Raised) or isinstance(p2, Raised):
            bad('raises', f'{nm} {p1 if isinstance(p1, Raised) else p2} {tag}')
            return False
        for p_ in (p1, p2):
            if p_.res is None or True:
                try:
                    p_.x
                except Exception:  # noqa
                    p_.x, p_.disregistry = x, d
        k = _obs_diff(_sdvpn_obs(p2), _sdvpn_obs(p1))
        if k:
            bad('differs', f'{nm}: positional arguments in the documented order give another object than the keywords ({k}) {tag}')
            return False
        return True
    same_pn('SDVPN(volterra, gamma, model, tau, alpha, beta, cutofflongrange, fullstress, cdiffelastic, cdiffsurface, cdiffstress, min_method, min_kwargs, min_options)', pp, pk)

    def solved(positional):
        p = S(volterra=v, gamma=g0)
        real = mod.minimize
        mod.minimize = _FakeMin(random.Random(5))
        try:
            if positional:
                p.solve(x, d, tau, al, beta, st['cutofflongrange'], fl[0], fl[1], fl[2], fl[3], 'Nelder-Mead', {'tol': 0.5}, {'maxfev': 4})
            else:
                p.solve(x=x, disregistry=d, tau=tau, alpha=al, beta=beta, cutofflongrange=st['cutofflongrange'], fullstress=fl[0], cdiffelastic=fl[1],
                        cdiffsurface=fl[2], cdiffstress=fl[3], min_method='Nelder-Mead', min_kwargs={'tol': 0.5}, min_options={'maxfev': 4})
        finally:
            mod.minimize = real
        return p
    same_pn('solve(x, disregistry, tau, alpha, beta, cutofflongrange, fullstress, cdiffelastic, cdiffsurface, cdiffstress, min_method, min_kwargs, min_options)',
            call(solved, True), call(solved, False))
    if not isinstance(pk, Raised):
        pk.x, pk.disregistry = x, d
        for nm, fp, fk in (('disldensity(x, disregistry, cdiff)', lambda: pk.disldensity(x, d, True), lambda: pk.disldensity(x=x, disregistry=d, cdiff=True)),
                           ('model(length_unit, energyperarea_unit, pressure_unit, include_gamma)', lambda: pk.model('nm', 'J/m^2', 'MPa', True).json(),
                            lambda: pk.model(length_unit='nm', energyperarea_unit='J/m^2', pressure_unit='MPa', include_gamma=True).json()),
                           ('check_energies(x, disregistry, energyperlength_unit)', lambda: sorted(_printed_energies_pos(pk, x, d, 'J/m').items()), lambda: sorted(_printed_energies(pk, {'x': x, 'disregistry': d}, 'J/m').items()))):
            rp, rk = call(fp), call(fk)
            ctx.stats.case('x:order', (case['system'], nm))
            if isinstance(rp, Raised) or isinstance(rk, Raised) or (rp != rk if isinstance(rp, (str, list)) else any(not np.array_equal(a, b_) for a, b_ in zip(rp, rk))):
                bad('differs', f'{nm} (positional) != the same call with keywords {tag}')
        m = pk.model()
        pl1, pl2 = call(lambda: S(volterra=None, gamma=g0, model=m)), S(volterra=v, gamma=g0)
        r = call(pl2.load, m, g0)
        same_pn('load(model, gamma)', r if isinstance(r, Raised) else pl2, pl1)
    bv = [2.5, 0.0, 1.0]
    for fname in ('pn_arctan_disregistry', 'pn_arctan_disldensity'):
        fn = getattr(am.defect, fname)
        extra = (True, False) if fname.endswith('disregistry') else (True,)
        kwx = dict(normalize=True, shift=False) if fname.endswith('disregistry') else dict(normalize=True)
        rp, rk = call(fn, None, 2.0, 0.25, None, bv, 0.125, 0.75, *extra), call(fn, xmax=2.0, xstep=0.25, burgers=bv, center=0.125, halfwidth=0.75, **kwx)
        ctx.stats.case('x:order', (case['system'], fname))
        if isinstance(rp, Raised) or isinstance(rk, Raised) or not (np.array_equal(rp[0], rk[0]) and np.array_equal(rp[1], rk[1])):
            bad('differs', f'{fname}(x, xmax, xstep, xnum, burgers, center, halfwidth, normalize{", shift" if len(extra) == 2 else ""}) (positional) != keywords: {rp!s:.80} {tag}')


def _printed_energies_pos(pn, x, d, unit):
    import contextlib
    import io
    buf = io.StringIO()
    with contextlib.redirect_stdout(buf):
        pn.check_energies(x, d, unit)
    out = {}
    for line in buf.getvalue().splitlines():
        if '=' in line:
            k, val = line.split('=', 1)
            if k.strip() in PRINTED:
                out[PRINTED[k.strip()]] = float(val)
    return out


def xc_io(ctx, case, bad):
    """a data model handed over as DataModelDict / JSON text / XML text / path / open binary handle / BytesIO (read ONCE)
    loads the same object: GammaSurface(model=), model(model=), SDVPN(model=[, gamma=]) with the gamma surface inside the
    record or given as an object / record / handle."""
    import atomman as am
    import io
    import os
    import tempfile
    np = _np()
    v, g0, A1, A2, scale = _system(case)
    st = case['settings']
    x, d = np.array(case['x'], dtype=float), np.array(case['d'], dtype=float)
    tag = f'[{case["system"]}]'
    gd = mk_gamma(case['gspec'])
    pn = new_pn(v, g0, st)
    pn.x, pn.disregistry = x, d
    q1, q2 = np.array([0.3, 1.7, -2.2]), np.array([0.1, -0.4, 0.9])
    tmp = tempfile.mkdtemp(prefix='c18_io_')
    try:
        def sources(m, stem):
            out = [('DataModelDict', lambda: m), ('JSON text', lambda: m.json()), ('XML text', lambda: m.xml()), ('JSON text, indented', lambda: m.json(indent=4))]
            for ext, txt in (('json', m.json()), ('xml', m.xml())):
                path = os.path.join(tmp, f'{stem}.{ext}')
                with open(path, 'w', encoding='utf-8') as f:
                    f.write(txt)
                out += [(f'path of a {ext} file', lambda path=path: path), (f'open binary handle of a {ext} file', lambda path=path: open(path, 'rb')),
                        (f'BytesIO ({ext})', lambda txt=txt: io.BytesIO(txt.encode('utf-8')))]
            return out
        mg = gd.model(length_unit='nm', energyperarea_unit='J/m^2')
        P, XY = gd.a12_to_pos(q1, q2), np.array(gd.a12_to_xy(q1, q2))
        ref = _gamma_obs(am.defect.GammaSurface(model=mg), q1, q2, P, XY)
        for sn, mk_ in sources(mg, 'gamma'):
            for how in ('GammaSurface(model=)', 'model(model=) into a used object'):
                ctx.stats.case('x:io:gamma', (case['gspec']['tag'], sn, how))

                def load():
                    src = mk_()
                    try:
                        if how.startswith('Gamma'):
                            return am.defect.GammaSurface(model=src)
                        gg = mk_gamma(case['first'])
                        gg.model(model=src)
                        return gg
                    finally:
                        if hasattr(src, 'close'):
                            src.close()
                gl = call(load)
                k = str(gl) if isinstance(gl, Raised) else _obs_diff(ref, _gamma_obs(gl, q1, q2, P, XY))
                if k:
                    bad('gamma', f'{how} from a {sn}: {k} (the same record as a DataModelDict loads) {tag}')
        for inc in (True, False):
            mp = pn.model(include_gamma=inc, length_unit='nm', pressure_unit='MPa')
            refp = _sdvpn_obs(am.defect.SDVPN(model=mp, **({} if inc else {'gamma': g0})))
            gsrcs = [('none (inside the record)', lambda: None)] if inc else [('a GammaSurface', lambda: g0)] + [('a ' + sn, mk_) for sn, mk_ in sources(g0.model(), 'g0')]
            for sn, mk_ in sources(mp, f'pn{int(inc)}'):
                for gn, mkg in gsrcs[:1] + (gsrcs[1:] if sn == 'DataModelDict' else []):
                    for how in ('SDVPN(model=)', 'load() into a used object'):
                        ctx.stats.case('x:io:sdvpn', (case['system'], inc, sn, gn, how))

                        def load():
                            src, gs = mk_(), mkg()
                            try:
                                kw = {} if gs is None else {'gamma': gs}
                                if how.startswith('SDVPN'):
                                    return am.defect.SDVPN(model=src, **kw)
                                pp = new_pn(v, g0, rand_settings(random.Random(7)))
                                pp.load(src, **kw)
                                return pp
                            finally:
                                for s_ in (src, gs):
                                    if hasattr(s_, 'close'):
                                        s_.close()
                        pl = call(load)
                        k = str(pl) if isinstance(pl, Raised) else _obs_diff(refp, _sdvpn_obs(pl))
                        if k:
                            bad('sdvpn', f'{how} from a {sn}, gamma surface: {gn} (include_gamma={inc}): {k} (the same record as a DataModelDict loads) {tag}')
    finally:
        import shutil
        shutil.rmtree(tmp, ignore_errors=True)


def xc_twice(ctx, case, bad):
    """the same object solved repeatedly with DIFFERENT guesses / grids / after a load: each solve starts from the guess
    it is given (or the stored solution), keeps ITS end disregistries and x, and never ends above the energy of its start."""
    np = _np()
    v, g, A1, A2, scale = _system(case)
    st = case['settings']
    tag = f'[{case["system"]}]'
    pn = call(new_pn, v, g, st)
    if isinstance(pn, Raised):
        bad('construct', f'{pn} {tag}')
        return
    hist = []
    for k, step in enumerate(case['steps']):
        kw = {}
        if step.get('x') is not None:
            kw['x'] = np.array(step['x'], dtype=float)
        if step.get('d') is not None:
            kw['disregistry'] = np.array(step['d'], dtype=float)
        hist.append('solve(' + ', '.join(k_ + '=' for k_ in kw) + ')')
        xs = kw['x'] if 'x' in kw else np.array(pn.x, dtype=float).copy()
        ds = kw['disregistry'] if 'disregistry' in kw else np.array(pn.disregistry, dtype=float).copy()
        when = f'{" -> ".join(hist)} on one object (step {k + 1})'
        ctx.stats.case('x:twice', (case['system'], when, tuple(xs), tuple(ds.ravel())))
        e0 = call(pn.total_energy, xs, ds)
        r = call(pn.solve, **{k_: a.copy() for k_, a in kw.items()}, min_method=step['method'], min_options=dict(step['options']))
        if isinstance(r, Raised) or isinstance(e0, Raised):
            bad('raises', f'{when}: {r if isinstance(r, Raised) else e0} {tag}')
            return
        got = np.asarray(pn.disregistry, dtype=float)
        if got.shape != ds.shape or not np.array_equal(got[0], ds[0]) or not np.array_equal(got[-1], ds[-1]):
            bad('ends', f'{when}: end disregistries {got[0].tolist()}, {got[-1].tolist()} are not those of the guess this solve started from '
                        f'({ds[0].tolist()}, {ds[-1].tolist()}) {tag}')
            return
        if not np.array_equal(np.asarray(pn.x, dtype=float), xs):
            bad('ends', f'{when}: x is not the grid this solve was given {tag}')
            return
        if np.any(got[1:-1, 1] != 0.0):
            bad('ends', f'{when}: non-zero out-of-plane disregistry {tag}')
        e1 = call(pn.total_energy)
        if isinstance(e1, Raised) or not float(e1) <= float(e0) + 1e-12 * (abs(float(e0)) + 1.0):
            bad('raises-energy', f'{when}: total energy {float(e0)!r} of the start -> {e1!s} {tag}')
            return
        if pn.res is None or not np.array_equal(np.concatenate([got[1:-1, 0], got[1:-1, 2]]), np.asarray(pn.res.x, dtype=float)):
            bad('ends', f'{when}: the stored disregistry is not the minimiser\'s result (obj.res.x) between the fixed ends {tag}')


def xc_lazy(ctx, case, bad):
    """the ORDER in which a (re)loaded surface is read does not matter: twin objects given the same data, one asked for
    delta first, one for E_gsf first (smoothed or nearest, through any entry point), answer the same -- the input data
    at the sampled shifts."""
    np = _np()
    specs = case['specs']
    tag = f'[{" -> ".join(s_["tag"] + " " + str(s_["n1"]) + "x" + str(s_["n2"]) for s_ in specs)}]'
    orders = case['orders']
    twins = [call(mk_gamma, specs[0]) for _ in orders]
    if any(isinstance(t, Raised) for t in twins):
        bad('construct', f'{twins} {tag}')
        return
    for k, spec in enumerate(specs):
        if k > 0:
            for t in twins:
                r = call(reload_gamma, t, spec, case['hows'][k - 1])
                if isinstance(r, Raised):
                    bad('raises', f'reload {r} {tag}')
                    return
        s1, s2 = np.array(spec['a1']), np.array(spec['a2'])
        A1, A2 = o_cart(spec)
        P = np.array([[float(t) for t in o_pos(A1, A2, (FF(a), FF(b_)))] for a, b_ in zip(s1, s2)])
        scale = max(1.0, max(abs(t) for t in spec['E']))
        dscale = max(1.0, max(abs(t) for t in spec['delta']))
        tol = 256 * EPS * o_fit_cond(spec) + 1e-9
        c1_, c2_ = (1 - max(spec['a1'])) / 2, (1 - max(spec['a2'])) / 2
        inner = np.array([not ((c1_ < 1e-9 and abs(a - round(a)) < 1e-9) or (c2_ < 1e-9 and abs(b_ - round(b_)) < 1e-9)) for a, b_ in zip(s1, s2)])
        reads = {'E': (lambda t: t.E_gsf(a1=s1.copy(), a2=s2.copy()), spec['E'], tol * scale, None),
                 'delta': (lambda t: t.delta(a1=s1.copy(), a2=s2.copy()), spec['delta'], tol * dscale, None),
                 'E-nearest': (lambda t: t.E_gsf(a1=s1.copy(), a2=s2.copy(), smooth=False), spec['E'], 1e-12 * scale, None),
                 'delta-nearest': (lambda t: t.delta(a1=s1.copy(), a2=s2.copy(), smooth=False), spec['delta'], 1e-12 * dscale, None),
                 'E-pos': (lambda t: t.E_gsf(pos=P.copy()), spec['E'], tol * scale, inner),
                 'delta-pos': (lambda t: t.delta(pos=P.copy(), smooth=False), spec['delta'], 1e-12 * dscale, inner)}
        for t, order in zip(twins, orders):
            for rd in order:
                fn, want, tl, mask = reads[rd]
                r = call(fn, t)
                ctx.stats.case('x:lazy', (spec['tag'], k, tuple(order), rd))
                w = str(r) if isinstance(r, Raised) else _rel(np.asarray(r, dtype=float)[mask] if mask is not None else r, np.asarray(want)[mask] if mask is not None else want, 0.0, tl)
                if w:
                    bad('order', f'{"fresh object" if k == 0 else "after " + str(case["hows"][k - 1]) + " into a used object"}, reads in the order {list(order)}: '
                                 f'{rd} at the sampled shifts is not the input: {w} {tag}')
                    return


XCUT = {'units': xc_units, 'unitswitch': xc_unitswitch, 'alias-gamma': xc_alias_gamma, 'alias-sdvpn': xc_alias_sdvpn, 'forms-gamma': xc_forms_gamma,
        'forms-sdvpn': xc_forms_sdvpn, 'scale-gamma': xc_scale_gamma, 'scale-sdvpn': xc_scale_sdvpn, 'falsy': xc_falsy, 'order': xc_order, 'io': xc_io,
        'twice': xc_twice, 'lazy': xc_lazy}


def chk_xcut(ctx, case):
    kind = case['kind']

    def bad(key, what):
        ctx.violate(f'xcut:{kind}:{key}', f'[{kind}] {what}', case)
    try:
        XCUT[kind](ctx, case, bad)
    finally:
        set_units({'kw': DEFAULT_UNITS})


def gen_xcut_cases(ctx, rng, broken):
    """the cases of the cross-cutting classes for one run (all JSON-able)."""
    np = _np()
    import atomman as am
    cases = []
    big = 4 if (broken or ctx.thorough) else 2
    iso = ['iso-edge', 'iso-screw', 'iso-mixed-rot']

    def sdvpn_part(name, n=None, physical=False, dyadic=True):
        v, spec = mk_system(name, rng, grid=rng.choice([(8, 3), (6, 4)]))
        pn0 = am.defect.SDVPN(volterra=v, gamma=mk_gamma(spec))
        x, d = _profile_json(rng, pn0, dyadic=dyadic, n=n or rng.randint(6, 9))
        return {'system': name, 'spec': spec, 'settings': rand_settings(rng, physical=physical), 'x': x, 'd': d}

    def gamma_part(regime=None, delta=None, vects=None, grid=None, dup=None):
        regime = regime or rng.choice(['dyadic', 'generic'])
        return gen_gamma_spec(rng, regime=regime, vects=vects or rng.choice(VECTS), grid=grid or rng.choice(GRIDS_DYADIC[:4] if regime == 'dyadic' else GRIDS_GENERIC[:6]),
                              dup=dup, delta=delta)
    seeds = [rng.randrange(1, 10 ** 6) for _ in range(2 * big)]
    cfgs = UNIT_CFGS[:5] + [{'name': f'seed-{s_}', 'seed': s_} for s_ in seeds]
    pick = cfgs if (broken or ctx.thorough) else [UNIT_CFGS[0], rng.choice(UNIT_CFGS[1:5]), cfgs[5]]
    mu = [('nm', 'MPa', 'J/m^2'), ('pm', 'GPa', 'mJ/m^2'), ('angstrom', 'eV/angstrom^3', 'eV/angstrom^2'), ('m', 'Pa', 'J/m^2')]
    for cfg in pick:
        gs = gamma_part(dup=False)
        cases.append(dict(sdvpn_part(rng.choice(iso), physical=True, dyadic=False), op='xcut', kind='units', cfg=cfg, gspec=gs, sub=gen_gamma_sub(rng, gs, small=True),
                          model_units=list(rng.choice(mu)), solves=[['Nelder-Mead', {'maxiter': 40}], ['Powell', {'maxiter': 1}]]))
    for _ in range(2 * big):
        c1, c2 = rng.sample(cfgs + [UNIT_CFGS[5]], 2)
        cases.append(dict(sdvpn_part(rng.choice(iso)), op='xcut', kind='unitswitch', cfg1=c1, cfg2=c2, gspec=gamma_part(dup=False, delta=True),
                          model_units=list(rng.choice(mu)), form=rng.choice(['dm', 'json', 'xml'])))
    for via in ['ctor', 'set'] * big:
        sp = gamma_part(regime='dyadic', delta=rng.random() < 0.6)
        cases.append({'op': 'xcut', 'kind': 'alias-gamma', 'spec': sp, 'via': via, 'first': gamma_part(),
                      'queries': [[cm.dyadic(rng, -3, 3, 4), cm.dyadic(rng, -3, 3, 4)] for _ in range(4)]})
    for via in ['ctor', 'setters', 'solve'] * big:
        cases.append(dict(sdvpn_part(rng.choice(SYSTEMS)), op='xcut', kind='alias-sdvpn', via=via, seed=rng.randrange(10 ** 6)))
    intv = [vv for vv in VECTS if all(float(4 * t) == round(float(4 * t)) for t in sum(o_cart({'a1vect': vv[0], 'a2vect': vv[1], 'box': vv[2]}), []))]
    for it in range(2 * big):
        # every other case in a cell whose Cartesian shift vectors are multiples of 1/4 (integer-typed positions exist there);
        # the others with generic (not float32-representable) numbers
        sp = gamma_part(delta=True, vects=(rng.choice(intv) if it % 2 == 0 else None), regime=(None if it % 2 == 0 else 'generic'))
        cases.append({'op': 'xcut', 'kind': 'forms-gamma', 'spec': sp,
                      'queries': [[cm.dyadic(rng, -3, 3, 4), cm.dyadic(rng, -3, 3, 4)] if sp['regime'] == 'dyadic' else [rng.uniform(-3, 3), rng.uniform(-3, 3)] for _ in range(4)]})
    for _ in range(big):
        cases.append(dict(sdvpn_part(rng.choice(SYSTEMS), physical=True), op='xcut', kind='forms-sdvpn'))
    ks = [-200, -100, -33, -10, 10, 33, 100, 200]
    for _ in range(3 * big):
        sp = gamma_part(delta=rng.random() < 0.5)
        cases.append({'op': 'xcut', 'kind': 'scale-gamma', 'spec': sp, 'sub': gen_gamma_sub(rng, sp, small=True), 'k': rng.choice(ks), 'j': rng.choice(ks)})
    for _ in range(3 * big):
        cases.append(dict(sdvpn_part(rng.choice(iso), dyadic=False), op='xcut', kind='scale-sdvpn', k=rng.choice(ks), j=rng.choice(ks)))
    for _ in range(big):
        cases.append(dict(sdvpn_part(rng.choice(SYSTEMS)), op='xcut', kind='falsy'))
        cases.append(dict(sdvpn_part(rng.choice(SYSTEMS)), op='xcut', kind='order', gspec=gamma_part(delta=True), first=gamma_part()))
        cases.append(dict(sdvpn_part(rng.choice(SYSTEMS)), op='xcut', kind='io', gspec=gamma_part(delta=True), first=gamma_part()))
    for _ in range(2 * big):
        part = sdvpn_part(rng.choice(SYSTEMS), physical=True, dyadic=False)
        v, _ = mk_volterra(part['system'])
        pn0 = am.defect.SDVPN(volterra=v, gamma=mk_gamma(part['spec']))
        steps = []
        for i in range(rng.randint(2, 3)):
            x2, d2 = _profile_json(rng, pn0, dyadic=False, n=(len(part['x']) if (i and rng.random() < 0.5) else rng.randint(6, 9)))
            shift = [cm.dyadic(rng, -2, 2, 3), 0.0, cm.dyadic(rng, -2, 2, 3)]
            d2 = (np.array(d2) + np.array(shift)).tolist()
            which = 'xd' if (i == 0 or len(x2) != len(steps[-1]['_n'])) else rng.choice(['xd', 'd', 'none'])
            steps.append({'x': x2 if 'x' in which else None, 'd': d2 if 'd' in which else None, '_n': x2 if 'x' in which else steps[-1]['_n'],
                          'method': rng.choice(['Nelder-Mead', 'Powell', 'L-BFGS-B']), 'options': {'maxiter': rng.choice([1, 3])}})
        for s_ in steps:
            s_.pop('_n')
        cases.append(dict(part, op='xcut', kind='twice', steps=steps))
    all_orders = [['delta', 'E'], ['E', 'delta'], ['delta-nearest', 'E-nearest', 'delta', 'E'], ['E-pos', 'delta-pos', 'delta', 'E'], ['delta-pos', 'delta', 'E-nearest', 'E']]
    for _ in range(2 * big):
        specs = gen_reload_specs(rng, steps=rng.choice([1, 2]))
        for s_ in specs:
            if s_['delta'] is None:
                s_['delta'] = [cm.dyadic(rng, -0.5, 0.5, 4) for _ in s_['a1']]
                # equal rows for the duplicated edge
                seen = {}
                for i_, (a, b_) in enumerate(zip(s_['a1'], s_['a2'])):
                    key = (round(a % 1.0, 9) % 1.0, round(b_ % 1.0, 9) % 1.0)
                    s_['delta'][i_] = seen.setdefault(key, s_['delta'][i_])
        cases.append({'op': 'xcut', 'kind': 'lazy', 'specs': specs, 'hows': [gen_reload_how(rng) for _ in specs[1:]], 'orders': rng.sample(all_orders, 3)})
    return cases


# -- counts and thresholds: query arrays / profiles of the sizes where block-wise evaluation, packed keys and fast paths
#    switch on or run out (powers of two +- 1, k * block + 1, the smallest legal sizes) -------------------------------

COUNT_SMALL = [1, 2, 3, 4, 5, 7, 8, 9, 15, 16, 17, 31, 32, 33, 63, 64, 65, 127, 128, 129, 255, 256, 257, 511, 512, 513,
               999, 1000, 1001, 1023, 1024, 1025, 2001, 2047, 2048, 2049, 3073, 4095, 4096, 4097]
COUNT_LARGE = [5001, 6143, 6145, 8191, 8192, 8193, 10001, 12289, 16383, 16384, 16385, 20001, 32767, 32768, 32769,
               65535, 65536, 65537, 100001, 131073]
PROFILE_SIZES = [2, 3, 4, 5] + [2 ** e + k for e in (7, 8, 9, 10, 11) for k in (-1, 0, 1, 2, 3)]      # densities have n - 1 | n - 2 rows


def gen_count_sizes(rng, thorough):
    """the sizes of one `counts` case: every small one, and a few (thorough: all) of the large ones, among them always
    one of the form 2^e + 1 >= 8193."""
    big = list(COUNT_LARGE) if thorough else sorted(set(rng.sample(COUNT_LARGE, 3) + [rng.choice([8193, 16385, 32769, 65537])]))
    return COUNT_SMALL + big


def _count_queries(spec, n, seed):
    """n query points (a1, a2) and the indices / input energies (and delta) of those that are sampled shifts moved by
    integer periods.  The FIRST, the LAST and the points next to every multiple of a power of two >= 256 are such nodes
    with a large |E| (a lost or zeroed value shows there), the others alternate between nodes and generic points."""
    np = _np()
    r = random.Random(seed * 1000003 + n)
    ns = len(spec['a1'])
    E = spec['E']
    order = sorted(range(ns), key=lambda i: -abs(E[i]))
    strong = order[:max(1, ns // 3)]
    dy = spec['regime'] == 'dyadic'
    special = {0, n - 1}
    k = 256
    while k <= n:
        for j in range(k, n + 1, k):
            special.update(t for t in (j - 2, j - 1, j) if 0 <= t < n)
            if len(special) > 600:
                break
        k *= 2
    q1, q2 = np.empty(n), np.empty(n)
    node = np.full(n, -1, dtype=int)
    gen1 = np.array([cm.dyadic(r, -3, 3, 5) if dy else r.uniform(-3, 3) for _ in range(min(n, 257))])
    gen2 = np.array([cm.dyadic(r, -3, 3, 5) if dy else r.uniform(-3, 3) for _ in range(min(n, 263))])
    for i in range(n):
        if i in special or i % 2 == 0:
            j = r.choice(strong) if i in special else r.randrange(ns)
            node[i] = j
            q1[i] = spec['a1'][j] + r.randint(-2, 2)
            q2[i] = spec['a2'][j] + r.randint(-2, 2)
        else:
            q1[i] = gen1[i % len(gen1)] + (i // len(gen1)) % 3
            q2[i] = gen2[i % len(gen2)] - (i // len(gen2)) % 2
    return q1, q2, node


def _chunked(fn, n, size, **arrs):
    """fn evaluated on consecutive chunks of `size` points of the keyword arrays, joined."""
    np = _np()
    out = []
    for i in range(0, n, size):
        r = fn(**{k: v[i:i + size].copy() for k, v in arrs.items()})
        out.append(np.atleast_1d(np.asarray(r, dtype=float)) if not isinstance(r, tuple) else np.array([np.ravel(t) for t in r], dtype=float).T)
    return np.concatenate(out)


def _special_idx(n):
    idx = {0, n - 1, n // 2}
    k = 1
    while k <= n:
        idx.update(t for t in (k - 2, k - 1, k) if 0 <= t < n)
        k *= 2
    return sorted(idx)


def chk_counts_gamma(ctx, case, bad):
    """ONE call with n query points is, point by point, the same points asked singly / in small chunks, and the input
    energies at the sampled shifts -- for E_gsf (fit and nearest; a1/a2, pos, x/y), delta and the six conversions, with
    n running over the sizes around powers of two, k * block + 1 and 1, 2, 3."""
    np = _np()
    spec = case['spec']
    g = call(mk_gamma, spec)
    if isinstance(g, Raised):
        bad('construct', f'GammaSurface(...) {g}')
        return
    tag = f'[{spec["tag"]} grid {spec["n1"]}x{spec["n2"]} dup={spec["dup"]}]'
    A1, A2 = o_cart(spec)
    A1f, A2f = np.array([float(t) for t in A1]), np.array([float(t) for t in A2])
    scale = max(1.0, max(abs(v) for v in spec['E']))
    L = max(1.0, max(abs(float(t)) for t in A1 + A2))
    cond = o_fit_cond(spec)
    tolE = 256 * EPS * cond * scale + 1e-9 * scale
    has_d = spec['delta'] is not None
    dscale = max(1.0, max(abs(v) for v in spec['delta'])) if has_d else 1.0
    tolD = 256 * EPS * cond * dscale + 1e-9 * dscale
    c1_, c2_ = (1 - max(spec['a1'])) / 2, (1 - max(spec['a2'])) / 2
    xname = case['xvect']
    X = o_xvect(A1, A2, xname)
    xh, yh = (np.array(t) for t in o_axes(A1, A2, X))
    kwx = {} if xname == 'default' else {'xvect': np.array([float(t) for t in X])}
    En, Dn = np.array(spec['E'], dtype=float), (np.array(spec['delta'], dtype=float) if has_d else None)
    # the flag `smooth` given as a truthy / falsy NON-bool (1, 0, numpy booleans -- what a comparison of arrays yields):
    # either refused, or what the bool of the same truth value gives -- never silently the other branch
    f1, f2, _ = _count_queries(spec, 9, case['qseed'])
    for nm, fn in (('E_gsf', g.E_gsf),) + ((('delta', g.delta),) if has_d else ()):
        for val in (1, 0, np.True_, np.False_, np.int64(1), np.int64(0)):
            ref, r = call(fn, a1=f1.copy(), a2=f2.copy(), smooth=bool(val)), call(fn, a1=f1.copy(), a2=f2.copy(), smooth=val)
            ctx.stats.case('s:counts:flagform', (spec['tag'], nm, repr(val), case['qseed']))
            if not isinstance(r, Raised) and not isinstance(ref, Raised) and _cmp(r, ref, 0, 0):
                bad('flag-form', f'{nm}(a1=, a2=, smooth={val!r}) is accepted but is not {nm}(smooth={bool(val)}): {_cmp(r, ref, 0, 0)}; a1={f1.tolist()}, a2={f2.tolist()} {tag}')
    for n in case['sizes']:
        q1, q2, node = _count_queries(spec, n, case['qseed'])
        isn = node >= 0
        chunk = 1 if n <= 17 else 7 if n <= 600 else 61 if n <= 5000 else 251
        sp = _special_idx(n)
        ctx.stats.case('s:counts:gamma', (spec['tag'], spec['n1'], spec['n2'], n, case['qseed']), sample={'op': 'E_gsf / delta / conversions, n points in one call', 'n': n})

        def first_bad(got, want, tol, mask=None):
            """(index, got, want) of the worst point, or None."""
            got, want = np.asarray(got, dtype=float), np.asarray(want, dtype=float)
            if got.shape != want.shape:
                return f'shape {got.shape} for {want.shape[0]} points'
            err = np.abs(got - want) - tol
            err[~np.isfinite(got)] = np.inf
            if mask is not None:
                err[~mask] = -1.0
            if err.ndim > 1:
                err = err.max(axis=1)
            if (err > 0).any():
                k_ = int(np.argmax(err))
                return f'point #{k_} of {n} (a1={float(q1[k_])!r}, a2={float(q2[k_])!r}): {got[k_].tolist()!r} in the one call, {want[k_].tolist()!r} expected'
            return None

        def one_vs_parts(key, name, fn, tol, arrs, oracle=None, omask=None, otol=None, mask=None, parts=True):
            """fn(**arrs) in ONE call against (a) the exact oracle where there is one, (b) the same points in chunks,
            (c) the same points one at a time (scalars) at the special indices."""
            full = call(fn, **{k: v.copy() for k, v in arrs.items()})
            if isinstance(full, Raised):
                bad(key, f'{name} with {n} points {full} {tag}')
                return None
            full = np.array([np.ravel(t) for t in full], dtype=float).T if isinstance(full, tuple) else np.asarray(full, dtype=float)
            if full.ndim == 0:
                full = full.reshape(1)
            if oracle is not None:
                w = first_bad(full, oracle, tol if otol is None else otol, omask)
                if w:
                    bad(key, f'{name} with {n} points in one call: {w} (independent value: {"input datum at a sampled shift + integer periods" if omask is not None else "own formula"}) {tag}')
                    return full
            if not parts:
                # the oracle covers every point: only the first and the last point are asked alone as well
                sp_ = [0, n - 1]
            else:
                sp_ = sp
                parts = call(_chunked, fn, n, chunk, **arrs)
            w = None if parts is False else str(parts) if isinstance(parts, Raised) else first_bad(full, parts.reshape(full.shape) if parts.size == full.size else parts, tol, mask)
            if w:
                bad(key, f'{name} with {n} points in one call differs from the same points asked {chunk} at a time: {w} {tag}')
                return full
            for i in sp_:
                if mask is not None and not mask[i]:
                    continue
                r = call(fn, **{k: (float(v[i]) if v.ndim == 1 else v[i].copy()) for k, v in arrs.items()})
                r1 = r if isinstance(r, Raised) else np.ravel(np.array([np.ravel(t) for t in r], dtype=float).T if isinstance(r, tuple) else np.asarray(r, dtype=float))
                if isinstance(r1, Raised) or r1.shape != np.ravel(full[i]).shape or not np.all(np.abs(r1 - np.ravel(full[i])) <= tol):
                    bad(key, f'{name}: point #{i} of {n} (a1={float(q1[i])!r}, a2={float(q2[i])!r}) gives {np.ravel(full[i]).tolist()} in the one call and '
                             f'{r1 if isinstance(r1, Raised) else r1.tolist()} when asked alone {tag}')
                    return full
            return full

        a12 = {'a1': q1, 'a2': q2}
        wantE = np.where(isn, En[np.maximum(node, 0)], 0.0)
        Ea = one_vs_parts('E_gsf', 'E_gsf(a1=, a2=)', g.E_gsf, tolE, a12, wantE, isn)
        one_vs_parts('E_gsf-nearest', 'E_gsf(a1=, a2=, smooth=False)', lambda **kw: g.E_gsf(smooth=False, **kw), 1e-13 * scale, a12, wantE, isn)
        if has_d:
            wantD = np.where(isn, Dn[np.maximum(node, 0)], 0.0)
            offl = (np.abs(q1 - np.round(q1)) > 1e-6) & (np.abs(q2 - np.round(q2)) > 1e-6)
            one_vs_parts('delta', 'delta(a1=, a2=)', g.delta, tolD, a12, wantD, isn)
            one_vs_parts('delta-nearest', 'delta(a1=, a2=, smooth=False)', lambda **kw: g.delta(smooth=False, **kw), 1e-13 * dscale, a12, wantD, isn)
        # conversions: own formulas, vectorised in double from the exact shift vectors
        P = q1[:, None] * A1f[None, :] + q2[:, None] * A2f[None, :]
        XY = np.array([P @ xh, P @ yh]).T
        span = 1 + float(np.abs(q1).max()) + float(np.abs(q2).max())
        tolP, tolXY = 1e-12 * L * span, 1e-9 * L * span
        one_vs_parts('a12_to_pos', 'a12_to_pos(a1, a2)', lambda a1, a2: g.a12_to_pos(a1, a2), tolP, a12, P, parts=False)
        one_vs_parts('pos_to_a12', 'pos_to_a12(pos)', lambda pos: g.pos_to_a12(pos), 1e-9 * span, {'pos': P}, np.array([q1, q2]).T, parts=False)
        one_vs_parts('pos_to_xy', f'pos_to_xy(pos, xvect={xname})', lambda pos: g.pos_to_xy(pos, **kwx), tolXY, {'pos': P}, XY, parts=False)
        one_vs_parts('xy_to_pos', f'xy_to_pos(x, y, xvect={xname})', lambda x, y: g.xy_to_pos(x, y, **kwx), tolXY, {'x': XY[:, 0], 'y': XY[:, 1]}, P, parts=False)
        one_vs_parts('a12_to_xy', f'a12_to_xy(a1, a2, xvect={xname})', lambda a1, a2: g.a12_to_xy(a1, a2, **kwx), tolXY, a12, XY, parts=False)
        one_vs_parts('xy_to_a12', f'xy_to_a12(x, y, xvect={xname})', lambda x, y: g.xy_to_a12(x, y, **kwx), 1e-9 * span, {'x': XY[:, 0], 'y': XY[:, 1]}, np.array([q1, q2]).T, parts=False)
        # interchangeable entry points (points ON a cell edge of a surface without blend strip are exempt: the float solve may
        # land on either side of the jump)
        if Ea is not None:
            inner = ~(((c1_ < 1e-9) & (np.abs(q1 - np.round(q1)) < 1e-9)) | ((c2_ < 1e-9) & (np.abs(q2 - np.round(q2)) < 1e-9)))
            one_vs_parts('E_gsf-pos', 'E_gsf(pos=)', lambda pos: g.E_gsf(pos=pos), tolE, {'pos': P}, Ea, inner, mask=inner, parts=False)
            one_vs_parts('E_gsf-xy', f'E_gsf(x=, y=, xvect={xname})', lambda x, y: g.E_gsf(x=x, y=y, **kwx), tolE, {'x': XY[:, 0], 'y': XY[:, 1]}, Ea, inner, mask=inner, parts=False)
            # the same n points as a 2-D array (what the surface plots pass)
            for rows in (2, 3, 7):
                if n % rows == 0 and n > rows:
                    r = call(g.E_gsf, a1=q1.reshape(rows, -1).copy(), a2=q2.reshape(rows, -1).copy())
                    w = str(r) if isinstance(r, Raised) else (f'shape {np.shape(r)}' if np.shape(r) != (rows, n // rows) else first_bad(np.ravel(r), Ea, tolE))
                    if w:
                        bad('E_gsf-2d', f'E_gsf(a1=, a2=) of shape {(rows, n // rows)} is not element-wise the flat query: {w} {tag}')
                    break


def _count_profile(seed, n, b):
    """a uniform dyadic grid of n points centred on 0 and an arctangent-like disregistry from 0 to b with dyadic wiggles."""
    np = _np()
    r = random.Random(seed * 7919 + n)
    dx = r.choice([0.125, 0.25, 0.0625]) if n > 64 else r.choice([0.25, 0.5])
    x = (np.arange(n) - (n - 1) / 2) * dx + r.choice([0.0, 0.5])
    t = 0.5 + np.arctan(x / 3.0) / math.pi
    wig = np.array([[cm.dyadic(r, -0.25, 0.25, 4), 0.0, cm.dyadic(r, -0.25, 0.25, 4)] for _ in range(min(n, 97))])
    d = np.outer(t, np.asarray(b, dtype=float)) + wig[np.arange(n) % len(wig)]
    d[:, 1] = 0.0
    return x, d


def o_terms_np(K, b, st, x, d):
    """the documented terms (see `o_terms`) for LARGE profiles: own double-precision evaluation, the elastic double sum row
    by row with math.fsum-free pairwise numpy sums; returns {term: (value, sum of |summands|)}."""
    np = _np()
    x, d, K, b = (np.asarray(t, dtype=float) for t in (x, d, K, b))
    n = len(x)
    dx = float(x[1] - x[0])
    out = {}

    def dens(cd):
        k = 2 if cd else 1
        return (d[k:] - d[:-k]) / (x[k:] - x[:-k])[:, None]
    rho = dens(st['cdiffelastic'])
    nr = len(rho)
    lg = np.zeros(nr + 2)
    lg[1:] = np.log(np.arange(1, nr + 2) * dx)
    kk = np.arange(nr + 2, dtype=float)
    psi_tab = 0.5 * kk ** 2 * dx * dx * lg            # psi as a function of |i - j|
    G = rho @ K @ rho.T if nr else np.zeros((0, 0))    # K_lm rho_l[i] rho_m[j]
    tot = ab = 0.0
    jj = np.arange(nr)
    for i in range(nr):
        dij = np.abs(i - jj)
        chi = 1.5 * dx * dx + 2 * psi_tab[dij] - psi_tab[np.abs(i - jj + 1)] - psi_tab[np.abs(jj - i + 1)]
        t = chi * G[i]
        tot += float(t.sum())
        ab += float(np.abs(t).sum())
    out['elastic'] = (tot / (4 * math.pi), ab / (4 * math.pi) * max(1.0, math.log2(nr + 2)))
    v = float(b @ K @ b) * math.log(st['cutofflongrange']) / (2 * math.pi)
    out['longrange'] = (v, abs(v))
    t2 = np.asarray(st['tau'], dtype=float)[1]
    if st['fullstress']:
        rho = dens(st['cdiffstress'])
        m = len(rho)
        t = -0.5 * (x[1:m + 1] ** 2 - x[:m] ** 2) * (rho @ t2)
    else:
        t = 0.5 * ((d[:-1] + d[1:]) @ t2) * dx
    out['stress'] = (float(t.sum()), float(np.abs(t).sum()) + float(np.abs(x).max()) * float(np.abs(d).max()) * float(np.abs(t2).max()) * 3)
    rho = dens(st['cdiffsurface'])
    beta = np.asarray(st['beta'], dtype=float)
    t = (rho ** 2 * dx) * (beta.sum(axis=1) / 4)[None, :]
    out['surface'] = (float(t.sum()), float((rho ** 2 * dx).sum(axis=0) @ np.abs(beta).sum(axis=1)) / 4)
    tot = ab = 0.0
    for k, a in enumerate(st['alpha']):
        m_ = k + 1
        if n - 2 * m_ <= 0:
            continue
        t = float(a) * (d[m_:n - m_] * (d[m_:n - m_] - (d[2 * m_:] + d[:n - 2 * m_]) / 2)).sum(axis=1) * dx
        tot += float(t.sum())
        ab += float(np.abs(t).sum()) + abs(float(a)) * float((d[m_:n - m_] ** 2).sum()) * abs(dx)
    out['nonlocal'] = (tot, ab)
    return out


def chk_counts_sdvpn(ctx, case, bad):
    """every energy term, the total, disldensity on profiles of n points, n around the powers of two and the smallest
    sizes (2, 3, 4): small n against the exact oracle (all argument subsets), large n against the documented formulas in
    double and the gamma surface asked ONE POINT AT A TIME."""
    np = _np()
    try:
        v, g, A1, A2, scale = _system(case)
        st = dict(case['settings'])
        pn = new_pn(v, g, st)
    except cm.InfraError:
        raise
    except Exception as e:  # noqa
        bad('construct', f'constructing the SDVPN object raised {type(e).__name__}: {e}')
        return
    K, b, T = np.array(pn.K_tensor, dtype=float), np.array(pn.burgers, dtype=float), np.array(pn.transform, dtype=float)
    fl = {k: st[k] for k in FLAGS}
    # the four flags given as truthy / falsy NON-bools (numpy booleans, 1 / 0) through the constructor, a setter or solve():
    # refused (what the setters do), or the documented formulas for the bool of the same truth value
    x5, d5 = _count_profile(case['pseed'], 6, b)
    mod = sys.modules['atomman.defect.SDVPN']
    for f in FLAGS:
        for val in (np.bool_(st[f]), np.bool_(not st[f]), int(not st[f])):
            for how in ('constructor', 'setter', 'solve'):
                ctx.stats.case('s:counts:flagform', (case['system'], f, repr(val), how, case['pseed']))
                if how == 'constructor':
                    p2 = call(lambda: mod.SDVPN(volterra=v, gamma=g, tau=np.array(st['tau']), alpha=list(st['alpha']), beta=np.array(st['beta']),
                                                cutofflongrange=st['cutofflongrange'], **{k: (val if k == f else st[k]) for k in FLAGS}))
                    r = p2 if isinstance(p2, Raised) else None
                else:
                    p2 = new_pn(v, g, st)
                    if how == 'setter':
                        r = call(setattr, p2, f, val)
                    else:
                        orig, mod.minimize = mod.minimize, _FakeMin(random.Random(case['pseed']))
                        try:
                            r = call(p2.solve, x=x5.copy(), disregistry=d5.copy(), **{f: val})
                        finally:
                            mod.minimize = orig
                if isinstance(r, Raised):
                    continue        # refused: fine
                _check_terms(ctx, case, bad, p2, g, K, b, T, A1, A2, dict(st, **{f: bool(val)}), x5, d5, 'both',
                             f'{f}={val!r} ({type(val).__name__}) accepted by the {how}', scale)
    for n in case['sizes']:
        x, d = _count_profile(case['pseed'], n, b)
        ctx.stats.case('s:counts:sdvpn', (case['system'], n, case['pseed'], str(fl)), sample={'op': 'energy terms on a profile of n points', 'n': n})
        when = f'profile of n={n} points (seed {case["pseed"]})'
        if n <= 16:
            # which sizes the documented formulas are defined for: 2 points suffice for the neighbour difference, 3 for the central one
            need = 3 if (st['cdiffelastic'] or st['cdiffsurface'] or (st['fullstress'] and st['cdiffstress'])) else 2
            if n < need:
                continue
            _check_terms(ctx, case, bad, pn, g, K, b, T, A1, A2, st, x, d, 'both', when, scale)
            continue
        impl = _impl_terms(pn, {'x': x.copy(), 'disregistry': d.copy()})
        want = o_terms_np(K, b, st, x, d)
        mis = call(o_misfit, g, T, A1, A2, x, d, scale)
        if isinstance(mis, Raised):
            bad('misfit', f'{when}: evaluating the gamma surface point by point {mis}')
            continue
        want['misfit'] = mis
        tot = tol_tot = 0.0
        ok = True
        for t in TERMS:
            wv, wa = float(want[t][0]), float(want[t][1])
            tol = 1e-9 * wa + 1e-12
            tot += wv
            tol_tot += tol
            if isinstance(impl[t], Raised):
                bad(t, f'{when}: {t}_energy(x=, disregistry=) {impl[t]} ({fl})')
                ok = False
            elif not abs(float(impl[t]) - wv) <= tol:
                bad(t, f'{when}: {t}_energy(x=, disregistry=) = {float(impl[t])!r} but its documented formula'
                       f'{" with the gamma surface asked one point at a time" if t == "misfit" else ""} gives {wv!r} '
                       f'({fl}, alpha={st["alpha"]}, tau[1]={st["tau"][1]}, dx={float(x[1] - x[0])!r})')
                ok = False
        if ok and (isinstance(impl['total'], Raised) or not abs(float(impl['total']) - tot) <= tol_tot):
            bad('total', f'{when}: total_energy(x=, disregistry=) = {impl["total"]!s} but the sum of the six documented terms is {tot!r} ({fl})')
        for cd in (False, True):
            r = call(pn.disldensity, x.copy(), d.copy(), cdiff=cd)
            k_ = 2 if cd else 1
            rho = (d[k_:] - d[:-k_]) / (x[k_:] - x[:-k_])[:, None]
            w = str(r) if isinstance(r, Raised) else (_cmp(r[0], x[1:-1] if cd else x[1:], 0, 0) or _cmp(r[1], rho, 1e-12, 1e-13))
            if w:
                bad('disldensity', f'{when}: disldensity(x, disregistry, cdiff={cd}): {w}')


def chk_counts(ctx, case):
    kind = case['kind']

    def bad(key, what):
        ctx.violate(f'counts:{kind}:{key}', f'[counts] {what}' + (f' [{case["system"]}]' if 'system' in case else ''), case)
    (chk_counts_gamma if kind == 'gamma' else chk_counts_sdvpn)(ctx, case, bad)


def gen_counts_cases(ctx, rng, broken):
    import atomman as am  # noqa
    cases = []
    th = bool(broken or ctx.thorough)
    for it in range(3 if th else 1):
        regime = rng.choice(['dyadic', 'generic'])
        spec = gen_gamma_spec(rng, regime=regime, vects=rng.choice(VECTS), grid=rng.choice(GRIDS_DYADIC[:4] + GRIDS_DYADIC[6:] if regime == 'dyadic' else GRIDS_GENERIC[:6] + GRIDS_GENERIC[11:]),
                              dup=rng.random() < 0.3, delta=True)
        cases.append({'op': 'counts', 'kind': 'gamma', 'spec': spec, 'sizes': gen_count_sizes(rng, th and it == 0), 'qseed': rng.randrange(10 ** 6),
                      'xvect': rng.choice(['default', 'a2', 'mix'])})
    names = list(SYSTEMS)
    rng.shuffle(names)
    for it, name in enumerate(names[:4 if th else 2]):
        v, spec = mk_system(name, rng, grid=rng.choice([(8, 3), (6, 4)]))
        small = [2, 3, 4, 5]
        # quick: one size just above 2^11 and the sizes n = 2^8 + 1 .. 2^8 + 3 (a density of k * 256 + 1 rows for either difference
        # quotient) in the first case, two or three random ones below 2^11 in the others
        large = PROFILE_SIZES[4:] if (th and it == 0) else sorted(set([257, 258, 259, rng.choice([2049, 2050, 2051])] if it == 0 else
                                                                         rng.sample(PROFILE_SIZES[4:-5], 2) + [rng.choice([1025, 1026, 1027])]))
        st = rand_settings(rng)
        # more coefficients than the usual 1-3 (and, for the smallest profiles, more than there are neighbours)
        st['alpha'] = [(cm.dyadic(rng, -1, 1, 4) or 0.5) * 0.2 for _ in range([5, 4, 7, 6][it % 4])]
        cases.append({'op': 'counts', 'kind': 'sdvpn', 'system': name, 'spec': spec, 'settings': st, 'sizes': small + large, 'pseed': rng.randrange(10 ** 6)})
    return cases


def chk_defaults(ctx, case):
    """option / default handling of the constructor: an object built with `SDVPN(volterra=, gamma=)` alone has the DOCUMENTED
    settings (fullstress True, cdiffelastic False, cdiffsurface True, cdiffstress False, tau / beta zeros, alpha 0.0, cut-off
    1000 angstrom); each keyword given at construction is the setting read back (the others stay at their defaults), and
    the terms of the default object are the documented formulas evaluated with the documented defaults."""
    import atomman as am
    import atomman.unitconvert as uc
    np = _np()

    def bad(key, what):
        ctx.violate('sdvpn:defaults:' + key, f'{what} [{case["system"]}]', case)
    v, g, A1, A2, scale = _system(case)
    doc = {'fullstress': True, 'cdiffelastic': False, 'cdiffsurface': True, 'cdiffstress': False}
    pn = call(am.defect.SDVPN, volterra=v, gamma=g)
    ctx.stats.case('s:defaults', (case['system'],))
    if isinstance(pn, Raised):
        return bad('raises', f'SDVPN(volterra=, gamma=) {pn}')
    got = {k: getattr(pn, k) for k in doc}
    if got != doc or any(type(x) is not bool for x in got.values()):
        return bad('flags', f'SDVPN(volterra=, gamma=) has flags {got}, documented defaults are {doc}')
    if np.abs(pn.tau).max() != 0.0 or np.abs(pn.beta).max() != 0.0 or tuple(pn.alpha) != (0.0,) \
            or abs(pn.cutofflongrange - uc.set_in_units(1000, 'angstrom')) > 1e-9 * uc.set_in_units(1000, 'angstrom'):
        return bad('values', f'default tau / beta / alpha / cut-off are {pn.tau.tolist()} {pn.beta.tolist()} {pn.alpha} {pn.cutofflongrange}')
    for k in doc:
        for val in (True, False):
            q = call(am.defect.SDVPN, volterra=v, gamma=g, **{k: val})
            if isinstance(q, Raised):
                return bad('raises', f'SDVPN(…, {k}={val}) {q}')
            want = dict(doc, **{k: val})
            got = {kk: getattr(q, kk) for kk in doc}
            if got != want:
                return bad('keyword', f'SDVPN(…, {k}={val}) has flags {got}, expected {want}')
    # the terms of the default object = the formulas with the documented defaults, and = an object given them explicitly
    x, d = np.array(case['x']), np.array(case['d'])
    q = call(am.defect.SDVPN, volterra=v, gamma=g, **doc)
    beta = np.array(case['beta'])
    for o in (pn, q):
        o.beta = beta
    for term in ('surface_energy', 'stress_energy', 'elastic_energy', 'total_energy'):
        a, b = call(getattr(pn, term), x, d), call(getattr(q, term), x, d)
        if isinstance(a, Raised) or isinstance(b, Raised) or not (a == b):
            return bad('terms', f'{term} of the default object is {a}, of an object given the documented defaults explicitly {b}')
    rho = (d[2:] - d[:-2]) / (x[2:] - x[:-2])[:, None]
    want = float(np.sum(np.dot(rho ** 2 * (x[1] - x[0]), beta)) / 4)
    a = call(pn.surface_energy, x, d)
    if isinstance(a, Raised) or abs(a - want) > 1e-9 * max(abs(want), 1e-12):
        bad('surface', f'surface_energy of the default object is {a}; the documented formula with the documented default (central difference) gives {want}')


def o_x_rule(x):
    """the x setter's documented rule, exact: 'x values must be evenly spaced' (every step within 1e-5 of the first, relative),
    'x values must be in increasing order'; fewer than two points cannot have a step (IndexError)."""
    x = [F(float(t)) for t in x]
    if len(x) < 2:
        return 'xIndex'
    diffs = [x[i + 1] - x[i] for i in range(len(x) - 1)]
    d0 = diffs[0]
    if any(abs(t - d0) > F(1, 100000) * abs(d0) for t in diffs) or not d0 > 0:
        return 'xAssert'
    return 'ok'


def o_d_rule(d):
    """the disregistry setter's rule, exact: |y| <= 1e-8 * (largest entry of the whole array); an empty array has no largest entry."""
    rows = [[F(float(t)) for t in r] for r in d]
    if not rows:
        return 'dValue'
    m = max(abs(t) for r in rows for t in r)
    if any(abs(r[1]) > F(1, 10 ** 8) * m for r in rows):
        return 'dAssert'
    return 'ok'


def gen_refusal_steps(rng, bmag):
    """JSON-able steps for `chk_refusal`: guarded setters and solve(x=, disregistry=, tau=) with a stub minimiser."""
    np = _np()
    steps = []
    for _ in range(rng.randint(3, 6)):
        k = rng.random()
        if k < 0.3:
            kind, xv = gen_x_variant(rng)
            steps.append({'kind': 'set-x', 'variant': kind, 'x': xv.tolist()})
        elif k < 0.55:
            kind, dv = gen_d_variant(rng, rng.randint(3, 8), bmag)
            steps.append({'kind': 'set-d', 'variant': kind, 'd': dv.tolist()})
        else:
            n = rng.randint(3, 8)
            st = {'kind': 'solve', 'variants': {}, 'x': None, 'd': None, 'tau': None, 'factor': rng.choice([1.0, 1.0, 2.0 ** -60, 0.0, -0.5])}
            if rng.random() < 0.7:
                kind, xv = gen_x_variant(rng, n)
                if rng.random() < 0.6:
                    kind, xv = 'uniform', float(rng.choice([0.25, 0.5, 0.1])) * np.arange(n, dtype=float)
                st['x'], st['variants']['x'] = xv.tolist(), kind
            if rng.random() < 0.7:
                kind, dv = gen_d_variant(rng, n + (1 if rng.random() < 0.15 else 0), bmag)
                if rng.random() < 0.5:
                    kind, dv = 'planar', gen_d_variant(rng, n, bmag)[1] * np.array([1.0, 0.0, 1.0])
                st['d'], st['variants']['disregistry'] = dv.tolist(), kind
            if rng.random() < 0.6:
                st['tau'] = np.array(_gen_tau(rng), dtype=float).tolist()
            steps.append(st)
    return steps


def chk_refusal(ctx, case):
    """which profiles the setters / solve() refuse, from which statement, and what the object holds afterwards — the real object
    against the documented rules evaluated exactly (o_x_rule, o_d_rule) and the documented order of solve's keyword block."""
    np = _np()
    mod = sys.modules['atomman.defect.SDVPN']

    def bad(key, what):
        ctx.violate('refusal:' + key, f'{what} [{case["system"]}]', case)
    v, g, A1, A2, scale = _system(case)
    pn = new_pn(v, g, case['settings'])
    ex, ed = np.array(case['x'], dtype=float), np.array(case['d'], dtype=float)
    pn.x, pn.disregistry = ex.copy(), ed.copy()
    etau = np.array(case['settings']['tau'], dtype=float)
    for step, st in enumerate(case['steps']):
        ctx.stats.case('s:refusal', (case['system'], st['kind'], str(st)[:300]))
        if st['kind'] == 'set-x':
            xv = np.array(st['x'], dtype=float)
            r = call(setattr, pn, 'x', xv.copy())
            want = o_x_rule(xv)
            what = f'obj.x = {st["variant"]} grid {st["x"]}'
            if want == 'ok':
                ex = xv
        elif st['kind'] == 'set-d':
            dv = np.array(st['d'], dtype=float).reshape(-1, 3)
            r = call(setattr, pn, 'disregistry', dv.copy())
            want = o_d_rule(dv)
            what = f'obj.disregistry = {st["variant"]} profile {st["d"]}'
            if want == 'ok':
                ed = dv
        else:
            akw = {}
            if st['x'] is not None:
                akw['x'] = np.array(st['x'], dtype=float)
            if st['d'] is not None:
                akw['disregistry'] = np.array(st['d'], dtype=float).reshape(-1, 3)
            if st['tau'] is not None:
                akw['tau'] = np.array(st['tau'], dtype=float)
            orig = mod.minimize
            mod.minimize = _ScaledMin(st['factor'])
            try:
                r = call(pn.solve, **{k_: v_.copy() for k_, v_ in akw.items()})
            finally:
                mod.minimize = orig
            what = (f'solve({", ".join(f"{a}={st["variants"][a]}" for a in st["variants"])}{", tau=…" if st["tau"] is not None else ""}) '
                    f'with a stub minimiser returning its start vector x {st["factor"]}')
            # the documented order: x, disregistry, then the other keywords, then the length check, then minimise and store
            want = o_x_rule(akw['x']) if 'x' in akw else 'ok'
            if want == 'ok':
                ex = akw.get('x', ex)
                want = o_d_rule(akw['disregistry']) if 'disregistry' in akw else 'ok'
                if want == 'ok':
                    ed = akw.get('disregistry', ed)
                    etau = akw.get('tau', etau)
                    if len(ex) != len(ed):
                        want = 'lengths'
                    else:
                        new = np.zeros((len(ed), 3))
                        new[0], new[-1] = ed[0], ed[-1]
                        new[1:-1, 0], new[1:-1, 2] = ed[1:-1, 0] * st['factor'], ed[1:-1, 2] * st['factor']
                        want = o_d_rule(new)
                        if want == 'ok':
                            ed = new
        cls, text = REFUSAL_OF.get(want, (None, None))
        if want == 'ok' and isinstance(r, Raised):
            return bad('spurious', f'{what}: {r}; by the documented rules this is accepted')
        if want != 'ok' and not isinstance(r, Raised):
            return bad('missing', f'{what}: accepted; by the documented rules this is refused ({want})')
        if want != 'ok' and not (r.cls == cls and text in r.text):
            return bad('stage', f'{what}: {r}; by the documented rules and the order of the keyword block the refusal is {want}')
        sx, sd, stau = np.asarray(pn.x, dtype=float), np.asarray(pn.disregistry, dtype=float), np.asarray(pn.tau, dtype=float)
        if sx.shape != ex.shape or not np.array_equal(sx, ex):
            return bad('state', f'after {what} (outcome {want}) the stored x is {sx.tolist()}, expected {ex.tolist()}')
        if sd.shape != ed.shape or not np.array_equal(sd, ed):
            return bad('state', f'after {what} (outcome {want}) the stored disregistry is {sd.tolist()}, expected {ed.tolist()}')
        if not np.array_equal(stau, etau):
            return bad('state', f'after {what} (outcome {want}) tau is {stau.tolist()}, expected {etau.tolist()}')


CHECKS = {'defaults': chk_defaults, 'refusal': chk_refusal, 'gamma': chk_gamma, 'gseq': chk_gseq, 'sdvpn': chk_sdvpn, 'elastic': chk_elastic, 'solve': chk_solve, 'halfwidth': chk_halfwidth,
          'arctan': chk_arctan, 'xcut': chk_xcut, 'counts': chk_counts}


def run_case(ctx, case):
    """one search case; an exception escaping the evaluation is reported as a failure of that case."""
    try:
        CHECKS[case['op']](ctx, case)
    except cm.InfraError:
        raise
    except Exception as e:  # noqa
        import traceback
        where = [l.strip() for l in traceback.format_exc().splitlines() if l.strip().startswith('File ')][-1:]
        ctx.violate(case['op'] + ':exception', f'evaluating the case raised {type(e).__name__}: {str(e)[:200]} ({"; ".join(where)})', case)


def _profile_json(rng, pn, dyadic=True, n=None):
    x, d = gen_profile(rng, pn, n=n, dyadic=dyadic)
    return x.tolist(), d.tolist()


def rescaled_profile(rng, pn, x):
    """a profile with as many points as `x` on a grid with another spacing."""
    np = _np()
    s_ = rng.choice([0.5, 2.0, 1.5, 0.25])
    _, d2 = gen_profile(rng, pn, n=len(x), dyadic=True)
    return (np.asarray(x, dtype=float) * s_).tolist(), d2.tolist()


def gen_search_ops(rng, st, pn, x):
    """edit sequence for the search (setters, solve(**kwargs), load, same-length profile on another grid)."""
    ops = []
    cur = dict(st)
    stored_n = None
    cur_n = len(x)
    for _ in range(rng.randint(2, 4)):
        if rng.random() < 0.25:
            x2, d2 = rescaled_profile(rng, pn, x)
            ops.append({'kind': 'profile', 'x': x2, 'd': d2})
            cur_n = len(x2)
            continue
        if (stored_n is None and rng.random() < 0.6) or rng.random() < 0.1:
            sx, sd = _profile_json(rng, pn, n=(stored_n if stored_n and rng.random() < 0.5 else None))
            which = 'xd' if stored_n != len(sx) else rng.choice(['xd', 'x', 'd'])
            ops.append({'kind': 'store', 'which': which, 'x': sx, 'd': sd})
            stored_n = len(sx)
            continue
        op = rand_op(rng, cur, 0)
        if op['kind'] == 'solve':
            op.pop('newprofile')
            if rng.random() < 0.5:
                op['x'], op['d'] = _profile_json(rng, pn)
            if stored_n is not None:
                op['args'] = rng.choice(MODES)
                if op['args'] != 'both':
                    cur_n = stored_n          # the guess comes (partly) from the stored profile
                    op.pop('x', None), op.pop('d', None)
            stored_n = cur_n = len(op['x']) if op.get('x') is not None else cur_n
            op['method'] = 'Nelder-Mead'      # a few simplex steps next to the start point, whatever the settings
            op['options'] = {'maxfev': rng.choice([5, 20])}
            cur.update(op['kw'])
        elif op['kind'] == 'load':
            op['x'], op['d'] = _profile_json(rng, pn)
            op['include_gamma'] = rng.random() < 0.3
            op['units'] = op['units'] + [rng.choice(['eV/Å^2', 'mJ/m^2'])]
            stored_n = cur_n = len(op['x'])
            cur = dict(op['settings'])
        else:
            cur[op['attr']] = op['value']
        ops.append(op)
    return ops


def gen_gamma_sub(rng, spec, small=False):
    """queries, periods, plotting axes and model forms for the gamma-surface clauses on `spec`."""
    dy = spec['regime'] == 'dyadic'
    m = rng.choice([1, 3, 6])
    qs = [[cm.dyadic(rng, -3, 3, 5), cm.dyadic(rng, -3, 3, 5)] if dy else [rng.uniform(-3, 3), rng.uniform(-3, 3)] for _ in range(m)]
    if rng.random() < 0.5:
        k = rng.randrange(len(spec['a1']))
        qs[0] = [spec['a1'][k], spec['a2'][k]]
    return {'queries': qs,
            'periods': [[rng.randint(-3, 3), rng.randint(-3, 3)] for _ in range(1 if small else 3)] + [[1, 0], [0, -1]],
            'singles': [rng.randrange(len(spec['a1'])) for _ in range(2)],
            'xvects': ['default', rng.choice(['a2', 'mix'])],
            'models': [[rng.choice(['dm', 'json', 'xml']), rng.choice(UNITS_L), rng.choice(UNITS_E)]]}


def gen_arctan_grid(rng, given):
    """a grid of n points from -xmax to xmax with spacing xstep, given by two of the three numbers as DECIMAL literals
    (xstep = k/100, xmax = k (n - 1) / 200): the float quotient 2 xmax / xstep is then an integer only up to rounding --
    half of the cases are picked with the quotient just BELOW the integer, half just above or exact."""
    from decimal import Decimal
    want_below = rng.random() < 0.5
    big = rng.random() < 0.15
    for _ in range(40):
        k, n_ = rng.randint(3, 150), (rng.choice([2, 3, 255, 256, 257, 1023, 1024, 1025, 2047, 2049, 4097]) if big else rng.randint(3, 80))
        xstep = float(Decimal(k) / 100)
        xmax = float(Decimal(k) * (n_ - 1) / 200) if 'xmax' in given else xstep * (n_ - 1) / 2
        if ((2 * xmax) / xstep < n_ - 1) == want_below:
            break
    return {'n': n_, 'xstep': xstep, 'xmax': xmax, 'given': given, 'xnum_form': rng.choice(['int', 'float', 'np.int64', 'np.float64']) if 'xnum' in given else 'int'}


def search(ctx, broken):
    import atomman as am
    np = _np()
    rng = ctx.rng
    t0 = time.time()
    big = (3 if broken else 1) * ctx.n(1, 3)
    # ---- gamma surfaces: every cell setting, both regimes
    n_g = ctx.n(len(VECTS), 6 * len(VECTS)) * big
    for it in range(n_g):
        vects = VECTS[it % len(VECTS)]
        regime = 'dyadic' if (it // len(VECTS) + it) % 2 == 0 else 'generic'
        grid = rng.choice(GRIDS_ANISO[regime]) if it % 3 == 2 else None
        spec = gen_gamma_spec(rng, regime=regime, vects=vects, grid=grid, dup=(it % 3 == 1), delta=(it % 2 == 0))
        run_case(ctx, dict(gen_gamma_sub(rng, spec), op='gamma', spec=spec))
    ctx.extra['t_search_gamma_s'] = round(time.time() - t0, 2)
    # ---- ONE GammaSurface object reloaded with other vectors / box / data: every first setting (3- and 4-index)
    t0 = time.time()
    firsts = VECTS + VECTS4
    for it in range(ctx.n(len(firsts), 3 * len(firsts)) * big):
        specs = gen_reload_specs(rng, regime=('dyadic' if (it // len(firsts) + it) % 2 == 0 else 'generic'), first=firsts[it % len(firsts)],
                                 steps=(1 if it % 3 else 2))
        run_case(ctx, {'op': 'gseq', 'specs': specs, 'hows': [gen_reload_how(rng) for _ in specs[1:]],
                       'sub': [gen_gamma_sub(rng, sp, small=True) for sp in specs]})
    ctx.extra['t_search_gamma_obj_s'] = round(time.time() - t0, 2)
    # ---- SDVPN: all 16 combinations of (fullstress, cdiffelastic, cdiffsurface, cdiffstress) per system, with
    #      non-zero tau rows, alpha, beta, cut-off; then edit sequences on one object
    t1 = time.time()
    combos = [[bool(k & 8), bool(k & 4), bool(k & 2), bool(k & 1)] for k in range(16)]
    for name in SYSTEMS:
        try:
            v, spec = mk_system(name, rng, grid=rng.choice([(8, 3), (6, 4), (10, 3)]))
            g = mk_gamma(spec)
            pn0 = am.defect.SDVPN(volterra=v, gamma=g)
        except cm.InfraError:
            raise
        except Exception as e:  # noqa
            ctx.violate('sdvpn:construct', f'constructing {name} raised {type(e).__name__}: {e}', {'op': 'none', 'system': name})
            continue
        xd_, dd_ = _profile_json(rng, pn0, dyadic=True, n=rng.randint(5, 9))
        run_case(ctx, {'op': 'defaults', 'system': name, 'spec': spec, 'x': xd_, 'd': dd_,
                       'beta': [[cm.dyadic(rng, 0.125, 2, 3) for _ in range(3)] for _ in range(3)]})
        for k in range(ctx.n(4, 16) * big):
            rx, rd = _profile_json(rng, pn0, dyadic=True, n=rng.randint(4, 8))
            run_case(ctx, {'op': 'refusal', 'system': name, 'spec': spec, 'settings': rand_settings(rng), 'x': rx, 'd': rd,
                           'steps': gen_refusal_steps(rng, float(np.abs(pn0.burgers).max()))})
        order = combos[:]
        rng.shuffle(order)
        for k, fl in enumerate(order * big):
            st = rand_settings(rng, flags=fl)
            x, d = _profile_json(rng, pn0, dyadic=(k % 2 == 0), n=rng.randint(5, 9))
            case = {'op': 'sdvpn', 'system': name, 'spec': spec, 'settings': st, 'x': x, 'd': d, 'ops': []}
            if k % 4 == 0:
                case['ops'] = gen_search_ops(rng, st, pn0, x)
            elif k % 4 == 2:
                # a stored profile (property setters), then every method with every subset of its optional arguments
                sx, sd = _profile_json(rng, pn0, n=rng.randint(5, 8))
                case['ops'] = [{'kind': 'store', 'which': 'xd', 'x': sx, 'd': sd}]
            elif k % 4 == 1:
                t_ = 0.0
                case['xnu'] = [t_ := t_ + cm.dyadic(rng, 0.125, 1.5, 3) for _ in x]
            run_case(ctx, case)
        for k in range(ctx.n(2, 8) * big):
            x, d = _profile_json(rng, pn0, dyadic=True, n=rng.randint(5, 10))
            _, d2 = gen_profile(rng, pn0, n=len(x), dyadic=True)
            run_case(ctx, {'op': 'elastic', 'system': name, 'spec': spec, 'x': x, 'd': d, 'd2': d2.tolist(),
                           'shift': [cm.dyadic(rng, -2, 2, 3), 0.0, cm.dyadic(rng, -2, 2, 3)], 'scale': rng.choice([2.0, -0.5, 3.0]),
                           'cdiff': k % 2 == 0})
        for k in range(ctx.n(2, 8) * big):
            x, d = _profile_json(rng, pn0, dyadic=False, n=rng.randint(6, 12))
            method = ['Powell', 'Nelder-Mead', 'L-BFGS-B', 'BFGS'][k % 4]
            opts = {'Powell': {'maxiter': 1}, 'Nelder-Mead': {'maxiter': 60}, 'L-BFGS-B': {'maxiter': 3}, 'BFGS': {'maxiter': 3}}[method]
            run_case(ctx, {'op': 'solve', 'system': name, 'spec': spec, 'settings': rand_settings(rng, physical=True), 'x': x, 'd': d,
                           'method': method, 'options': opts})
    ctx.extra['t_search_sdvpn_s'] = round(time.time() - t1, 2)
    # ---- classical half-width
    t2 = time.time()
    scans = [{'kind': 'edge', 'b': 2.5, 'g0': 0.05, 'E': 1.2, 'nu': 0.3, 'n1': 8, 'step_frac': 0.1, 'xmax_fac': 40},
             {'kind': 'screw', 'b': 3.0, 'g0': 0.04, 'E': 1.2, 'nu': 0.3, 'n1': 12, 'step_frac': 0.1, 'xmax_fac': 30}]
    if ctx.thorough or broken:
        scans += [{'kind': 'edge', 'b': 2.0, 'g0': 0.1, 'E': 2.0, 'nu': 0.25, 'n1': 10, 'step_frac': 0.05, 'xmax_fac': 60},
                  {'kind': 'screw', 'b': 2.5, 'g0': 0.02, 'E': 0.8, 'nu': 0.35, 'n1': 16, 'step_frac': 0.08, 'xmax_fac': 40}]
    for sc in scans:
        run_case(ctx, dict(sc, op='halfwidth'))
    ctx.extra['t_search_halfwidth_s'] = round(time.time() - t2, 2)
    # ---- cross-cutting classes: working units, aliasing, input forms, scales, falsy values, positional order, file-like
    #      models, repeated solves, observation order
    t3 = time.time()
    for case in gen_xcut_cases(ctx, rng, broken):
        tk = time.time()
        run_case(ctx, case)
        ctx.extra['t_xcut_' + case['kind'] + '_s'] = round(ctx.extra.get('t_xcut_' + case['kind'] + '_s', 0.0) + time.time() - tk, 2)
    ctx.extra['t_search_xcut_s'] = round(time.time() - t3, 2)
    # ---- counts and thresholds: one call with n points / profiles of n points, n around powers of two and k * block + 1
    t4 = time.time()
    for case in gen_counts_cases(ctx, rng, broken):
        run_case(ctx, case)
    ctx.extra['t_search_counts_s'] = round(time.time() - t4, 2)
    for it in range(ctx.n(20, 200)):
        n = rng.randint(3, 12)
        dx = rng.choice([0.25, 0.5, 0.1, 0.3])
        x0 = rng.choice([0.0, 0.3, -1.0])
        grid = None
        if it % 2:
            grid = gen_arctan_grid(rng, [['xmax', 'xstep'], ['xmax', 'xstep'], ['xmax', 'xnum'], ['xstep', 'xnum']][(it // 2) % 4])
        run_case(ctx, {'op': 'arctan', 'grid': grid, 'x': [x0 + dx * (i - (n - 1) / 2) for i in range(n)],
                       'burgers': rng.choice([[1.0, 0.0, 0.0], [2.5, 0.0, 0.0], [0.0, 0.0, 3.0], [1.5, 0.0, -2.0], [0.5, 0.25, 1.0]]),
                       'center': rng.choice([0.0, 0.0, 0.25, -1.0]), 'halfwidth': rng.choice([1.0, 0.5, 2.0, 0.3, 1.7]),
                       'normalize': rng.random() < 0.6, 'shift': rng.random() < 0.6})


def replay(ctx, payload):
    """re-run one stored case (`failing-input` replay files hold the case dict of the search)."""
    r = payload.get('replay') or {}
    if isinstance(r, dict) and r.get('op') in CHECKS:
        n0 = len(ctx.violations)
        run_case(ctx, r)
        print(f'replay {r["op"]}: {"still fails: " + ctx.violations[n0].what[:300] if len(ctx.violations) > n0 else "passes now"}')
    else:
        correspond(ctx)
        search(ctx, True)


MANIFEST = {
    'text': 'Checked source tie: the SDVPN energy-term methods, disldensity, the default-argument block, constructor frame / flag defaults, solve keyword block / decompose, wrap_cushion / wrap_unit, a12_to_pos and pos_to_a12 are regenerated from the source with ast on every run (Generated/PNEnergy.lean) and proved equal to the hand model (gen_..._eq_model), and the clauses are restated about the generated definitions (source_*).  Lean 4 theorems about a hand-written model of GammaSurface (3x3 tiling and fit window, wrap, edge blend, the three '
            'kinds of query with and without the a1vect/a2vect keywords, coordinate conversions incl. the default plotting axis, '
            'data-model record, the object under set()/model(model=) reloads, 4-index vectors) and of SDVPN (density, six '
            'energy terms, total, object state under setters / solve(**kwargs) / load, method calls with any subset of the '
            'optional arguments, embedding of the optimiser output) and of the '
            'arctangent profiles; tied to the real code on every run by a differential correspondence (recorded Rbf values as the '
            'table of f; one real object and one model object under the same edit sequences) and a failing-input search with exact '
            'Fraction oracles of each documented formula; cross-cutting cases (non-default and changing working units, aliasing, input '
            'forms, power-of-two scales with scale-free refusals, falsy values, positional order, file-like models, repeated solves, '
            'read order) and counts / thresholds (one call with 1 … 131073 points vs the points singly, profiles of 2 … 2051 points, non-bool '
            'flags) decided against the same oracles',
    'note': 'solve-never-raises and the classical half-width are numerical clauses checked on the real code only (PARTIAL); the '
            'interpolant, log, arctan, sqrt and the minimiser are parameters of the model',
    'technique': 'Lean 4 theorems; translator (ast -> Lean definitions of the energy terms, density, conversions, wraps; gen_..._eq_model obligations) + differential correspondence + exact-oracle search',
}
