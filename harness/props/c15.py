"""C15 — point-defect insertion (atomman/defect/point.py): vacancy, interstitial, substitutional,
dumbbell and the dispatcher `point`.

Tie: correspondence.  Short histories of insertions are run on the real atomman (rebuilt from /repo's
working tree) and on the compiled Lean model driver (`drv_c15`, stateful: it holds the current system)
with the same exact rational inputs; replies (full system dumps or the refusal class) are compared.
Search: the clauses of the property are evaluated on the real code with an independent Fraction oracle.
"""
from __future__ import annotations

import copy
import itertools
import random
from fractions import Fraction

from .. import common as cm

PROP = 'C15'
THEOREMS = [
    'C15.vacancy_spec', 'C15.interstitial_spec', 'C15.substitutional_spec', 'C15.dumbbell_spec', 'C15.same_cell',
    'C15.old_id_present', 'C15.old_id_correct', 'C15.interstitial_old', 'C15.substitutional_old', 'C15.dumbbell_old',
    'C15.old_id_composes', 'C15.old_id_composes_fresh',
    'C15.site_of_image', 'C15.pos_eq_index_selection', 'C15.pos_eq_index_cartesian', 'C15.pos_eq_index_relative',
    'C15.index_normalisation', 'C15.index_negative',
    'C15.refuse_absent_site', 'C15.refuse_ambiguous_site', 'C15.refuse_occupied_interstitial', 'C15.refuse_same_type',
    'C15.refuse_index_out_of_range', 'C15.refuse_both_or_neither', 'C15.refusals_propagate',
    'C15.point_dispatch', 'C15.input_unchanged',
    'C15.atol_resolution', 'C15.point_atol_passthrough', 'C15.within_iff', 'C15.within_tie', 'C15.within_zero_tol',
    'C15.within_mono', 'C15.zero_tol_offsite', 'C15.symbols_masses_kept',
    'C15.resolve_pos_iff_unique', 'C15.interstitial_ok_iff_free',
]
PARTIAL = {
    'periodic image beyond the adjacent cells': 'pos_eq_index_selection is proved for a position that is the atom '
    'shifted by n in {-1,0,1}^3 cell vectors along periodic directions, which is exactly the candidate set of '
    'dvect_c; a position two or more cells away is refused by the code (model and implementation agree) — the '
    'minimum-image range of dvect is C02\'s subject',
}
RULE = ('random systems: 1-8 atoms on a 1/8 grid of box-relative coordinates in cubic / orthorhombic / tilted '
        '(triangular) / general triclinic dyadic cells with zero or non-zero origin, any pbc, 1-3 atom types with gaps, '
        'symbols shorter/equal/longer than natypes, per-type masses (absent / partial / with missing entries), extra '
        'properties of float/int/bool dtype and trailing shapes (), (3,), (3,3), (2,2,2), with or without an existing old_id '
        '(placed before or after the other properties), sometimes a close pair of atoms; histories of 1-4 insertions; each '
        'insertion: any of the four generators, called directly or through point() (keywords or the documented positional '
        'order, ptd_type omitted for its default), site by index (every value in [-n-2, n+1], Python or numpy integer) / '
        'Cartesian pos / box-relative pos / both / neither, pos = atom position + optional image shift (also along '
        'non-periodic directions and two cells away) + an offset chosen INDEPENDENTLY of the tolerance (none, along one '
        'axis, along a face diagonal (3,4,0), along a body diagonal (1,2,2)/(2,3,6)/(1,4,8); exact length 2^-12 .. 1, on '
        'both sides of the default 0.01), and a tolerance chosen around that offset: None (default), 0, 1e-12, exactly the '
        'offset (tie), offset -/+ 2^-12, half, double, negative, 100 (ambiguous), 1.25 x distance to another atom '
        '(ambiguous), given as float / int / numpy.float64 / numpy.float32 / numpy.int64; a systematic sweep runs every '
        'tolerance candidate for every generator x offset kind on independent requests; kwargs any subset of atype / '
        'old_id / the extra properties / an unknown key, dispatcher assertion combinations and an invalid ptd_type. '
        'distinct = distinct (system line, op line); non-trivial = the insertion is accepted or refused for a reason other '
        'than the argument-combination checks')
ASSUMPTIONS = [
    'IEEE double arithmetic of numpy/Cython is exact on the dyadic inputs generated (<= 12 fractional bits, |x| < 2^8): '
    'site selection and positions are compared exactly there; with box-relative input in a cell whose inverse is not dyadic '
    'the new positions are compared to 1e-12 relative and cases whose distance is within 1e-9 of atol are exempt',
    'np.linalg.norm / np.isclose(d, 0, atol) decide d == 0 or d <= atol; modelled on squares (d2 = 0 or (0 <= atol and d2 <= atol^2)); '
    'on the dyadic grid sqrt is monotone and separated by >= 2^-33 relative, so the comparison is exact also at |d| = atol',
    'the default tolerance uc.set_in_units(0.01, "angstrom") is the double 0.01 (atomman working units: angstrom = 1); it is a '
    'constant of the driver and, independently, of the oracle',
    'numpy fancy indexing arr[index] and deepcopy copy the selected rows (modelled by gather)',
    'kwargs values are given in the dtype and trailing shape of the property (numpy casting/broadcasting of the assignment '
    'view[prop][-1] = value is not modelled)',
]
TRUSTED = ['numpy indexing/assignment in the implementation run', 'shared Lean model of dvect_c (Atomman/Dvect.lean, tied to the '
           'Cython source by C02\'s correspondence and again here through site selection)']

RESERVED = ('atype', 'pos', 'old_id')
DEFAULT_ATOL = 0.01


# ----------------------------------------------------------------------------------------
# system descriptions (plain data) <-> atomman.System
# ----------------------------------------------------------------------------------------

def _np():
    import numpy as np
    return np


def _F(x):
    return Fraction(x) if not isinstance(x, bool) else Fraction(int(x))


def _is_dyadic(x, bits=12, mag=256):
    f = Fraction(float(x))
    return (f.denominator & (f.denominator - 1)) == 0 and f.denominator <= (1 << bits) and abs(f) < mag


def _det(v):
    return (v[0][0] * (v[1][1] * v[2][2] - v[1][2] * v[2][1])
            - v[0][1] * (v[1][0] * v[2][2] - v[1][2] * v[2][0])
            + v[0][2] * (v[1][0] * v[2][1] - v[1][1] * v[2][0]))


def _inv(v):
    """exact inverse of a 3x3 Fraction matrix."""
    d = _det(v)
    c = [[0] * 3 for _ in range(3)]
    for i in range(3):
        for j in range(3):
            m = [[v[r][s] for s in range(3) if s != j] for r in range(3) if r != i]
            c[i][j] = (-1) ** (i + j) * (m[0][0] * m[1][1] - m[0][1] * m[1][0])
    return [[c[j][i] / d for j in range(3)] for i in range(3)]


def _vecmat(s, v):
    return [sum(s[i] * v[i][j] for i in range(3)) for j in range(3)]


def _gen_box(rng):
    kind = rng.choice(['cubic', 'ortho', 'tilted', 'tilted', 'triclinic'])
    if kind == 'cubic':
        a = rng.choice([2.0, 4.0, 8.0])
        v = [[a, 0, 0], [0, a, 0], [0, 0, a]]
    elif kind == 'ortho':
        v = [[rng.choice([2.0, 4.0, 8.0]), 0, 0], [0, rng.choice([2.0, 4.0, 8.0]), 0], [0, 0, rng.choice([4.0, 8.0])]]
    elif kind == 'tilted':
        # power-of-two diagonal: the inverse is dyadic, box-relative input is exact
        v = [[rng.choice([4.0, 8.0]), 0, 0],
             [cm.dyadic(rng, -2, 2, 2), rng.choice([4.0, 8.0]), 0],
             [cm.dyadic(rng, -2, 2, 2), cm.dyadic(rng, -2, 2, 2), rng.choice([4.0, 8.0])]]
    else:
        while True:
            v = [[cm.dyadic(rng, -1, 1, 2) + (6.0 if i == j else 0.0) + (cm.dyadic(rng, -1, 1, 1) if i == j else 0.0)
                  for j in range(3)] for i in range(3)]
            if abs(_det([[Fraction(x) for x in r] for r in v])) >= 64:
                break
        if rng.random() < 0.3:            # left-handed
            v[0], v[1] = v[1], v[0]
    v = [[float(x) for x in r] for r in v]
    origin = [0.0, 0.0, 0.0] if rng.random() < 0.3 else [cm.dyadic(rng, -4, 4, 2) for _ in range(3)]
    return kind, v, origin


PROP_POOL = [('charge', 'float', ()), ('tag', 'int', ()), ('flag', 'bool', ()), ('vel', 'float', (3,)),
             ('stress', 'float', (3, 3)), ('cube', 'int', (2, 2, 2))]


def _rand_value(rng, dtype, shape):
    n = 1
    for s in shape:
        n *= s
    if dtype == 'float':
        flat = [cm.dyadic(rng, -4, 4, 3) for _ in range(n)]
    elif dtype == 'int':
        flat = [rng.randint(-9, 9) for _ in range(n)]
    else:
        flat = [rng.random() < 0.5 for _ in range(n)]
    return flat


def _gen_system(rng, natoms=None):
    kind, vects, origin = _gen_box(rng)
    n = natoms if natoms is not None else rng.choice([1, 2, 2, 3, 3, 3, 4, 4, 5, 6, 8])
    V = [[Fraction(x) for x in r] for r in vects]
    O = [Fraction(x) for x in origin]
    rels = set()
    while len(rels) < n:
        rels.add(tuple(Fraction(rng.randint(0, 7), 8) for _ in range(3)))
    rels = sorted(rels)
    rng.shuffle(rels)
    pos = [[float(c + o) for c, o in zip(_vecmat(list(r), V), O)] for r in rels]
    if n >= 2 and rng.random() < 0.2:
        # a close pair: atom 1 sits 1/32 away from atom 0 (ambiguous for atol >= 1/16 ... )
        pos[1] = [pos[0][0] + 0.03125, pos[0][1], pos[0][2]]
    ntypes = rng.choice([1, 2, 2, 3])
    atype = [rng.randint(1, ntypes) for _ in range(n)]
    if rng.random() < 0.2:
        atype = [t + 1 if t >= 2 else t for t in atype]     # a gap in the types used
    names = ['Al', 'Cu', 'Ni', 'Fe', 'Si', 'Ge']
    symbols = names[:rng.choice([0, 1, max(atype), max(atype), max(atype) + 1])]
    props = {}
    for name, dtype, shape in PROP_POOL:
        if rng.random() < 0.35:
            props[name] = {'dtype': dtype, 'shape': list(shape),
                           'data': [_rand_value(rng, dtype, shape) for _ in range(n)]}
    old = None
    old_first = False
    if rng.random() < 0.3:
        old = rng.sample(range(0, 40), n)
        old_first = rng.random() < 0.5
    # per-type masses: absent, or one (possibly missing) value for each of the first types
    masses = None
    ntyp = max(len(symbols), max(atype))
    if rng.random() < 0.45:
        masses = [None if rng.random() < 0.2 else cm.dyadic(rng, 1, 200, 2) for _ in range(rng.randint(1, ntyp))]
    return {'cell': kind, 'vects': vects, 'origin': origin, 'pbc': [rng.random() < 0.7 for _ in range(3)],
            'symbols': symbols, 'masses': masses, 'atype': atype, 'pos': pos, 'props': props, 'old_id': old,
            'old_first': old_first}


_DT = {'float': float, 'int': int, 'bool': bool}


def _mk_system(d):
    np = _np()
    import atomman as am
    n = len(d['atype'])
    kw = {}
    if d.get('old_id') is not None and d.get('old_first'):
        kw['old_id'] = np.array(d['old_id'], dtype=int)
    for name, p in d['props'].items():
        kw[name] = np.array(p['data'], dtype=_DT[p['dtype']]).reshape((n,) + tuple(p['shape']))
    if d.get('old_id') is not None and not d.get('old_first'):
        kw['old_id'] = np.array(d['old_id'], dtype=int)
    box = am.Box(vects=np.array(d['vects'], dtype=float), origin=np.array(d['origin'], dtype=float))
    atoms = am.Atoms(atype=np.array(d['atype'], dtype=int), pos=np.array(d['pos'], dtype=float), **kw)
    masses = d.get('masses')
    return am.System(atoms=atoms, box=box, pbc=tuple(d['pbc']), symbols=list(d['symbols']),
                     masses=None if masses is None else list(masses))


def _keys(system):
    return [k for k in system.atoms_prop() if k not in RESERVED]


def _snapshot(system):
    """everything observable of a System, as plain data."""
    out = {'vects': system.box.vects.tolist(), 'origin': system.box.origin.tolist(),
           'pbc': [bool(b) for b in system.pbc], 'symbols': list(system.symbols), 'masses': list(system.masses),
           'keys': list(system.atoms_prop())}
    for k in system.atoms_prop():
        a = system.atoms.view[k]
        out['p:' + k] = (str(a.dtype), list(a.shape), a.ravel().tolist())
    return out


def _dump(system):
    """same serialisation as the driver's `dumpSys`."""
    np = _np()
    keys = _keys(system)
    widths = [int(np.prod(system.atoms.view[k].shape[1:], dtype=int)) for k in keys]
    hasold = 'old_id' in system.atoms_prop()
    parts = [cm.frs(system.box.vects), cm.frs(system.box.origin)] + ['1' if b else '0' for b in system.pbc]
    parts += [str(len(system.symbols)), str(len(system.masses))]
    for m in system.masses:
        parts += ['0 0'] if m is None else ['1 ' + cm.fr(float(m))]
    parts += [str(len(keys))]
    for k, w in zip(keys, widths):
        parts += [k, str(w)]
    parts += ['1' if hasold else '0', str(system.natoms)]
    v = system.atoms.view
    for i in range(system.natoms):
        parts.append(str(int(v['atype'][i])))
        parts.append(cm.frs(v['pos'][i]))
        for k, w in zip(keys, widths):
            if w:
                parts.append(cm.frs(np.asarray(v[k][i])))
        if hasold:
            parts.append(str(int(v['old_id'][i])))
    return ' '.join(parts)


def _parse_dump(text):
    """dump -> dict (Fractions)."""
    t = text.split()
    it = iter(t)

    def nx():
        return next(it)
    box = [Fraction(nx()) for _ in range(12)]
    pbc = [nx() for _ in range(3)]
    nsym = int(nx())
    nm = int(nx())
    masses = [(nx(), Fraction(nx())) for _ in range(nm)]
    nk = int(nx())
    keys = [(nx(), int(nx())) for _ in range(nk)]
    hasold = nx() == '1'
    n = int(nx())
    atoms = []
    for _ in range(n):
        at = int(nx())
        pos = [Fraction(nx()) for _ in range(3)]
        props = [[Fraction(nx()) for _ in range(w)] for _, w in keys]
        old = int(nx()) if hasold else None
        atoms.append((at, pos, props, old))
    rest = list(it)
    if rest:
        raise ValueError('trailing tokens in dump')
    return {'box': box, 'pbc': pbc, 'nsym': nsym, 'masses': masses, 'keys': keys, 'hasold': hasold, 'atoms': atoms}


def _same_dump(impl_text, model_text, loose_last):
    """exact equality, or (for box-relative input in a non-dyadic cell) positions of the last
    `loose_last` atoms within 1e-12 relative."""
    if impl_text == model_text:
        return True
    if not loose_last:
        return False
    try:
        a, b = _parse_dump(impl_text), _parse_dump(model_text)
    except Exception:
        return False
    if {k: v for k, v in a.items() if k != 'atoms'} != {k: v for k, v in b.items() if k != 'atoms'}:
        return False
    if len(a['atoms']) != len(b['atoms']):
        return False
    n = len(a['atoms'])
    for j, (x, y) in enumerate(zip(a['atoms'], b['atoms'])):
        if (x[0], x[2], x[3]) != (y[0], y[2], y[3]):
            return False
        if x[1] != y[1]:
            if j < n - loose_last:
                return False
            if any(abs(p - q) > Fraction(1, 10 ** 12) * (1 + abs(q)) for p, q in zip(x[1], y[1])):
                return False
    return True


# ----------------------------------------------------------------------------------------
# insertions (plain data) -> calls / wire lines
# ----------------------------------------------------------------------------------------

FN_TYPE = {'vacancy': 'v', 'interstitial': 'i', 'substitutional': 's', 'dumbbell': 'db'}


def _gen_kwargs(rng, system, fn):
    np = _np()
    kw = {}
    if fn == 'vacancy':
        return kw
    if rng.random() < 0.55:
        kw['atype'] = rng.randint(1, 4)
    if rng.random() < 0.15:
        kw['old_id'] = rng.randint(50, 99)
    for k in _keys(system):
        if rng.random() < 0.4:
            a = system.atoms.view[k]
            dtype = 'float' if a.dtype.kind == 'f' else ('bool' if a.dtype.kind == 'b' else 'int')
            kw[k] = {'dtype': dtype, 'shape': list(a.shape[1:]), 'flat': _rand_value(rng, dtype, a.shape[1:])}
    if rng.random() < 0.1:
        kw['bogus'] = {'dtype': 'float', 'shape': [], 'flat': [3.5]}
    return kw


# offset directions with an exact integer length: single axes, face diagonals (3,4,0)->5, body
# diagonals (1,2,2)->3, (2,3,6)->7, (1,4,8)->9 — so |offset| is a dyadic number and `|d| <= atol`
# is decided exactly at the boundary
OFF_DIRS = [((1, 0, 0), 1), ((0, 1, 0), 1), ((0, 0, 1), 1), ((3, 4, 0), 5), ((0, 3, 4), 5), ((4, 0, 3), 5),
            ((1, 2, 2), 3), ((2, 2, 1), 3), ((2, 3, 6), 7), ((6, 2, 3), 7), ((1, 4, 8), 9)]
EPS12 = Fraction(1, 4096)
ATOL_TYPES = ('float', 'int', 'np.float64', 'np.float32', 'np.int64')


def _gen_offset(rng, kinds=('on', 'axis', 'diag2', 'diag3')):
    """(offset (Fractions), its exact length, label).  The length is independent of the tolerance:
    from 2^-12 (far inside the default 0.01) over 2^-7 / 2^-6 (the two sides of the default) to 1/2."""
    kind = rng.choice(kinds)
    if kind == 'on':
        return [Fraction(0)] * 3, Fraction(0), 'on-site'
    pool = [d for d in OFF_DIRS if {'axis': d[1] == 1, 'diag2': d[1] == 5, 'diag3': d[1] in (3, 7, 9)}[kind]]
    d, nrm = rng.choice(pool)
    u = Fraction(1, 2 ** rng.choice([12, 11, 10, 10, 9, 9, 8, 8, 7, 7, 6, 6, 5, 4, 3, 2, 1]))
    while nrm * u > 1:
        u /= 2
    off = [Fraction(c * rng.choice([-1, 1])) * u for c in d]
    return off, nrm * u, kind


def _atol_candidates(m):
    """tolerances around an offset of exact length `m` (None = default): [(value, label)]."""
    if m == 0:
        return [(None, 'default'), (0, 'zero'), (1e-12, 'tiny'), (0.0625, 'above'), (1.0, 'above'), (-0.125, 'negative'),
                (100.0, 'huge')]
    import math
    return [(None, 'default'), (0, 'zero'), (1e-12, 'tiny'), (float(m), 'tie'), (float(m - EPS12), 'just-below'),
            (float(m + EPS12), 'just-above'), (math.nextafter(float(m), 0.0), 'ulp-below'),
            (math.nextafter(float(m), 2.0), 'ulp-above'), (float(m) * (1 - 2.0 ** -20), 'ppm-below'),
            (float(m / 2), 'below'), (float(2 * m), 'above'), (float(-m), 'negative'), (100.0, 'huge')]


def _atol_types(v):
    """the Python/numpy types an explicit tolerance of value `v` can be given in without changing it."""
    np = _np()
    out = ['float', 'np.float64']
    if float(v) == int(v):
        out += ['int', 'np.int64']
    if float(np.float32(v)) == float(v):
        out.append('np.float32')
    return out


def _gen_atol(rng, m):
    """(value or None, type tag, label) for an offset of exact length m."""
    cands = _atol_candidates(m)
    v, label = rng.choice(cands + [cands[0]] * 3)          # the default keeps ~1/3 of the cases
    if v is None:
        return None, 'float', label
    return v, rng.choice(_atol_types(v)), label


def _atol_obj(op):
    """the tolerance object handed to the implementation."""
    np = _np()
    v = op['atol']
    if v is None:
        return None
    t = op.get('atol_type', 'float')
    return {'float': lambda: float(v), 'int': lambda: int(v), 'np.float64': lambda: np.float64(v),
            'np.float32': lambda: np.float32(v), 'np.int64': lambda: np.int64(int(v))}[t]()


def _atol_frac(op):
    """the effective tolerance the documentation promises: the default only for None."""
    return Fraction(DEFAULT_ATOL) if op['atol'] is None else Fraction(float(op['atol']))


def _pos_arg(V, O, cart, scale):
    """the `pos` argument (floats) for an exact Cartesian position; box-relative if `scale`."""
    if scale:
        return [float(x) for x in _vecmat([c - o for c, o in zip(cart, O)], _inv(V))]
    return [float(x) for x in cart]


def _rel_exact(V, O, cart):
    rel = _vecmat([c - o for c, o in zip(cart, O)], _inv(V))
    return all(Fraction(float(x)) == x and _is_dyadic(x) for x in rel)


def _gen_op(rng, system):
    """one insertion request derived from the current state of `system` (plain data)."""
    n = system.natoms
    V = [[Fraction(x) for x in r] for r in system.box.vects.tolist()]
    O = [Fraction(x) for x in system.box.origin.tolist()]
    fn = rng.choice(['vacancy', 'vacancy', 'interstitial', 'interstitial', 'substitutional', 'substitutional',
                     'dumbbell', 'dumbbell'])
    op = {'fn': fn, 'via': rng.choice(['direct', 'point']), 'ptd_type': FN_TYPE[fn], 'pos': None, 'ptd_id': None,
          'db_vect': None, 'scale': rng.random() < 0.4, 'atol': None, 'atol_type': 'float',
          'kw': _gen_kwargs(rng, system, fn), 'positional': rng.random() < 0.15, 'note': []}
    # without a position the tolerance is irrelevant: any value must be accepted and ignored
    op['atol'], op['atol_type'], _ = _gen_atol(rng, Fraction(0))
    targets = []

    def site_pos(i):
        base = [Fraction(x) for x in system.atoms.pos[i].tolist()]
        targets.append(i)
        shift = [0, 0, 0]
        r = rng.random()
        if r < 0.35:
            shift = [rng.choice([-1, 0, 1]) for _ in range(3)]
            op['note'].append('image')
        elif r < 0.40:
            shift = [rng.choice([-2, 0, 2]) for _ in range(3)]
            op['note'].append('image2')
        base = [b + s for b, s in zip(base, _vecmat(shift, V))]
        off, m, label = _gen_offset(rng)
        op['note'].append('offset:' + label)
        op['atol'], op['atol_type'], tl = _gen_atol(rng, m)
        op['note'].append('atol:' + tl)
        if n >= 2 and rng.random() < 0.12:
            # ambiguous on purpose: a tolerance that also reaches another atom
            j = rng.choice([q for q in range(n) if q != i])
            st = {'pbc': [bool(b) for b in system.pbc], 'vects': V}
            d = float(_d2(st, [Fraction(x) for x in system.atoms.pos[i].tolist()],
                          [Fraction(x) for x in system.atoms.pos[j].tolist()])) ** 0.5
            if d > 0:
                op['atol'], op['atol_type'] = 1.25 * d + float(m), rng.choice(['float', 'np.float64'])
                op['note'].append('ambiguous')
        cart = [b + o for b, o in zip(base, off)]
        return _pos_arg(V, O, cart, op['scale'])

    if fn == 'interstitial':
        r = rng.random()
        if r < 0.4:
            op['pos'] = site_pos(rng.randrange(n))
            op['note'].append('near-atom')
        else:
            rel = [Fraction(rng.randint(-4, 36), 32) for _ in range(3)]
            if op['scale']:
                op['pos'] = [float(x) for x in rel]
            else:
                op['pos'] = [float(c + o) for c, o in zip(_vecmat(rel, V), O)]
    else:
        mode = rng.choice(['idx'] * 7 + ['pos'] * 10 + ['both', 'neither'])
        if mode in ('idx', 'both'):
            op['ptd_id'] = rng.randint(-n - 2, n + 1)
            if rng.random() < 0.2:
                op['ptd_np'] = True                      # the index as a numpy integer
            if -n <= op['ptd_id'] < n:
                targets.append(op['ptd_id'] % n)
        if mode in ('pos', 'both'):
            op['pos'] = site_pos(rng.randrange(n))
        if fn == 'substitutional' and targets and rng.random() < 0.7:
            # mostly a real substitution (a type the atom does not have); the rest exercises the refusal
            cur = int(system.atoms.atype[targets[0]])
            op['kw']['atype'] = rng.choice([t for t in (1, 2, 3, 4) if t != cur])
    if fn == 'dumbbell':
        if op['scale']:
            op['db_vect'] = [cm.dyadic(rng, -0.25, 0.25, 5) for _ in range(3)]
        else:
            op['db_vect'] = [cm.dyadic(rng, -1, 1, 3) for _ in range(3)]
            if rng.random() < 0.15:
                op['db_vect'] = [float(rng.randint(-1, 1)) for _ in range(3)]
        op['dbstyle'] = rng.choice(['array', 'array', 'list', 'tuple', 'intlist'])
    if op['via'] == 'point' and fn == 'vacancy' and rng.random() < 0.25:
        op['omit_type'] = True                           # ptd_type defaults to 'v'
    if op['via'] == 'point' and rng.random() < 0.14:
        bad = rng.choice(['v+db', 'v+kw', 'i+ptd', 'i+db', 's+db', 'badtype', 'badtype'])
        op['note'].append('dispatch:' + bad)
        if bad == 'v+db' and fn == 'vacancy':
            op['db_vect'] = [0.25, 0.0, 0.0]
        elif bad == 'v+kw' and fn == 'vacancy':
            op['kw'] = {'atype': 2}
        elif bad == 'i+ptd' and fn == 'interstitial':
            op['ptd_id'] = 0
        elif bad == 'i+db' and fn == 'interstitial':
            op['db_vect'] = [0.25, 0.0, 0.0]
        elif bad == 's+db' and fn == 'substitutional':
            op['db_vect'] = [0.25, 0.0, 0.0]
        elif bad == 'badtype':
            op['ptd_type'] = rng.choice(['x', 'vac', '', FN_TYPE[fn].upper(), FN_TYPE[fn].upper(), FN_TYPE[fn] * 2,
                                         {'v': 'vacancy', 'i': 'interstitial', 's': 'substitutional', 'db': 'dumbbell'}[FN_TYPE[fn]]])
            op.pop('omit_type', None)
    return op


def _sweep_ops(rng, system, noffsets):
    """The tolerance dimension, systematically, on ONE system (each op is an independent request):
    every generator, direct and through point(), the site seen directly and through a periodic image,
    offsets on-site / along one axis / along face and body diagonals, and for each offset EVERY
    tolerance candidate (None, 0, 1e-12, just below / exactly / just above the offset, half, double,
    negative, huge) in a random admissible type."""
    n = system.natoms
    V = [[Fraction(x) for x in r] for r in system.box.vects.tolist()]
    O = [Fraction(x) for x in system.box.origin.tolist()]
    pbc = [bool(b) for b in system.pbc]
    ops = []
    for fn in ('vacancy', 'interstitial', 'substitutional', 'dumbbell'):
        offs = [_gen_offset(rng, kinds=(k,)) for k in ('on', 'axis', 'diag2', 'diag3')]
        rng.shuffle(offs)
        for off, m, label in offs[:noffsets] if noffsets < 4 else offs:
            i = rng.randrange(n)
            base = [Fraction(x) for x in system.atoms.pos[i].tolist()]
            shift = [rng.choice([-1, 0, 1]) if pb else 0 for pb in pbc] if rng.random() < 0.5 else [0, 0, 0]
            cart = [b + s + o for b, s, o in zip(base, _vecmat(shift, V), off)]
            scale = rng.random() < 0.4 and _rel_exact(V, O, cart)
            for v, tl in _atol_candidates(m):
                op = {'fn': fn, 'via': rng.choice(['direct', 'point']), 'ptd_type': FN_TYPE[fn],
                      'pos': _pos_arg(V, O, cart, scale), 'ptd_id': None, 'db_vect': None, 'scale': scale, 'atol': v,
                      'atol_type': 'float' if v is None else rng.choice(_atol_types(v)), 'kw': {},
                      'positional': rng.random() < 0.15,
                      'note': ['sweep', 'offset:' + label, 'atol:' + tl] + (['image'] if any(shift) else [])}
                if fn == 'substitutional':
                    op['kw']['atype'] = rng.choice([t for t in (1, 2, 3, 4) if t != int(system.atoms.atype[i])])
                if fn == 'dumbbell':
                    op['db_vect'] = [0.125, -0.25, 0.0]
                    if scale:
                        op['db_vect'] = [0.03125, 0.0, -0.0625]
                ops.append(op)
    return ops


def _kw_values(op):
    np = _np()
    out = {}
    for k, v in op['kw'].items():
        if k in ('atype', 'old_id'):
            out[k] = int(v)
        else:
            arr = np.array(v['flat'], dtype=_DT[v['dtype']]).reshape(tuple(v['shape']))
            out[k] = arr if v['shape'] else arr[()].item()
    return out


def _call(op, system):
    """run the insertion on the real code; returns ('ok', System) or ('err', class, message)."""
    np = _np()
    import atomman.defect as D
    kw = _kw_values(op)
    pos = op['pos']
    if pos is not None:
        style = op.get('posstyle', 'array')
        if style == 'array':
            pos = np.array(pos, dtype=float)
        elif style == 'list':
            pos = [float(x) for x in pos]
        elif style == 'tuple':
            pos = tuple(float(x) for x in pos)
        elif style == 'intlist':
            pos = [int(x) for x in pos]
        elif style == 'intarray':
            pos = np.array([int(x) for x in pos])
    db = None if op['db_vect'] is None else np.array(op['db_vect'], dtype=float)
    if db is not None:
        dbstyle = op.get('dbstyle', 'array')
        if dbstyle == 'list':
            db = [float(x) for x in op['db_vect']]
        elif dbstyle == 'tuple':
            db = tuple(float(x) for x in op['db_vect'])
        elif dbstyle == 'intlist' and all(float(x) == int(x) for x in op['db_vect']):
            db = [int(x) for x in op['db_vect']]
    args_before = (copy.deepcopy(pos), copy.deepcopy(db), copy.deepcopy(kw))
    atol = _atol_obj(op)
    ptd = op['ptd_id']
    if ptd is not None and op.get('ptd_np'):
        ptd = np.int64(ptd)
    sc = op['scale']
    try:
        if op.get('positional'):
            # the documented parameter order is part of the interface
            if op['via'] == 'point':
                r = D.point(system, op['ptd_type'], pos, ptd, db, sc, atol, **kw)
            elif op['fn'] == 'vacancy':
                r = D.vacancy(system, pos, ptd, sc, atol)
            elif op['fn'] == 'interstitial':
                r = D.interstitial(system, pos, sc, atol, **kw)
            elif op['fn'] == 'substitutional':
                if 'atype' in kw:
                    kw2 = {k: v for k, v in kw.items() if k != 'atype'}
                    r = D.substitutional(system, pos, ptd, kw['atype'], sc, atol, **kw2)
                else:
                    r = D.substitutional(system, pos, ptd, scale=sc, atol=atol, **kw)
            else:
                r = D.dumbbell(system, pos, ptd, db, sc, atol, **kw)
        elif op['via'] == 'point':
            if op.get('omit_type') and op['ptd_type'] == 'v':
                r = D.point(system, pos=pos, ptd_id=ptd, db_vect=db, scale=sc, atol=atol, **kw)
            else:
                r = D.point(system, op['ptd_type'], pos=pos, ptd_id=ptd, db_vect=db, scale=sc, atol=atol, **kw)
        elif op['fn'] == 'vacancy':
            r = D.vacancy(system, pos=pos, ptd_id=ptd, scale=sc, atol=atol)
        elif op['fn'] == 'interstitial':
            r = D.interstitial(system, pos, scale=sc, atol=atol, **kw)
        elif op['fn'] == 'substitutional':
            r = D.substitutional(system, pos=pos, ptd_id=ptd, scale=sc, atol=atol, **kw)
        else:
            r = D.dumbbell(system, pos=pos, ptd_id=ptd, db_vect=db, scale=sc, atol=atol, **kw)
        if not _same_args(args_before, (pos, db, kw)):
            return ('err', 'other', 'ArgumentMutated: the pos / db_vect / property-value objects of the caller were modified')
        return ('ok', r)
    except ValueError as e:
        return ('err', 'value', f'{type(e).__name__}: {e}')
    except AssertionError as e:
        return ('err', 'assert', f'{type(e).__name__}: {e}')
    except TypeError as e:
        return ('err', 'type', f'{type(e).__name__}: {e}')
    except IndexError as e:
        return ('err', 'index', f'{type(e).__name__}: {e}')
    except Exception as e:  # noqa
        return ('err', 'other', f'{type(e).__name__}: {e}')


def _same_args(a, b):
    np = _np()

    def eq(x, y):
        if isinstance(x, dict):
            return set(x) == set(y) and all(eq(x[k], y[k]) for k in x)
        if x is None or y is None:
            return x is None and y is None
        return np.array_equal(np.asarray(x), np.asarray(y))
    return all(eq(x, y) for x, y in zip(a, b))


def _v3(x):
    return '0 0 0 0' if x is None else '1 ' + cm.frs(x)


def _op_line(op):
    name = ('point:' + op['ptd_type']) if op['via'] == 'point' else op['fn']
    kw = op['kw']
    parts = ['op', name, _v3(op['pos']), '0 0' if op['ptd_id'] is None else f"1 {op['ptd_id']}", _v3(op['db_vect']),
             '1' if op['scale'] else '0', '0 0' if op['atol'] is None else '1 ' + cm.fr(float(op['atol'])),
             f"1 {kw['atype']}" if 'atype' in kw else '0 0', f"1 {kw['old_id']}" if 'old_id' in kw else '0 0']
    extra = [(k, v) for k, v in kw.items() if k not in ('atype', 'old_id')]
    parts.append(str(len(extra)))
    for k, v in extra:
        parts += [k, str(len(v['flat'])), ' '.join(cm.fr(x) for x in v['flat'])]
    return ' '.join(p for p in parts if p != '')


# ----------------------------------------------------------------------------------------
# independent oracle (Fractions): what the property text asks of one insertion
# ----------------------------------------------------------------------------------------

def _state(system):
    """exact plain-data view of a System."""
    v = system.atoms.view
    keys = _keys(system)
    rows = []
    for i in range(system.natoms):
        rows.append({'atype': int(v['atype'][i]), 'pos': [Fraction(x) for x in v['pos'][i].tolist()],
                     'props': {k: [_F(x) for x in _np().asarray(v[k][i]).ravel().tolist()] for k in keys},
                     'old': int(v['old_id'][i]) if 'old_id' in v else None})
    return {'vects': [[Fraction(x) for x in r] for r in system.box.vects.tolist()],
            'origin': [Fraction(x) for x in system.box.origin.tolist()],
            'pbc': [bool(b) for b in system.pbc], 'symbols': list(system.symbols),
            'masses': [None if m is None else Fraction(float(m)) for m in system.masses], 'keys': keys,
            'dtypes': {k: (v[k].dtype.kind, list(v[k].shape[1:])) for k in system.atoms_prop()},
            'hasold': 'old_id' in v, 'rows': rows}


def _d2(st, p, q):
    """squared periodic distance: the minimum over the adjacent images along periodic directions."""
    d = [b - a for a, b in zip(p, q)]
    best = None
    for sh in itertools.product(*[((-1, 0, 1) if pb else (0,)) for pb in st['pbc']]):
        t = [x + y for x, y in zip(d, _vecmat(list(sh), st['vects']))]
        m = sum(x * x for x in t)
        if best is None or m < best:
            best = m
    return best


def _cart(st, op):
    p = [Fraction(float(x)) for x in op['pos']]
    if op['scale']:
        return [a + b for a, b in zip(_vecmat(p, st['vects']), st['origin'])]
    return p


def _sites(st, cart, atol):
    """(matching indices, flags) — flags name what would make IEEE evaluation differ from exact
    arithmetic: 'near-tol' a non-zero distance within 1e-9 of |atol|; 'near-zero' a tiny non-zero
    distance; 'zero-small-tol' an exact hit judged with a tolerance below 1e-9."""
    at = Fraction(atol)
    hits, flags = [], set()
    for i, r in enumerate(st['rows']):
        m = _d2(st, cart, r['pos'])
        if m == 0 or (at >= 0 and m <= at * at):
            hits.append(i)
        dm = float(m) ** 0.5
        if m > 0 and abs(dm - abs(float(at))) <= 1e-9 * (1 + abs(float(at))):
            # a distance that is itself a dyadic number (d2 a perfect square) is computed exactly by
            # sqrt: the comparison with ANY tolerance, one ulp away included, is then exact
            flags.add('near-tol-exact-root' if _exact_root(m) else 'near-tol')
        if 0 < dm < 1e-9:
            flags.add('near-zero')
        if m == 0 and abs(float(at)) < 1e-9:
            flags.add('zero-small-tol')
    return hits, flags


def _exact_root(m):
    import math
    a, b = m.numerator, m.denominator
    ra, rb = math.isqrt(a), math.isqrt(b)
    return ra * ra == a and rb * rb == b and (rb & (rb - 1)) == 0 and rb <= (1 << 12)


def _geometry_exact(st, op):
    """cell, atoms and the requested position / vector lie on the dyadic grid: numpy's and Cython's
    double arithmetic on them is exact (<= 12 fractional bits, |x| < 2^8)."""
    vals = [x for r in st['vects'] for x in r] + st['origin'] + [x for r in st['rows'] for x in r['pos']]
    if op['pos'] is not None:
        vals += list(op['pos'])
    if op['db_vect'] is not None:
        vals += list(op['db_vect'])
    return all(_is_dyadic(x) for x in vals)


def _loose(st, op):
    """number of trailing (defect) atoms whose position the implementation computes with rounding:
    box-relative input in a cell off the dyadic grid, or +-db_vect added to an off-grid position."""
    if _geometry_exact(st, op):
        return 0
    if op['fn'] == 'dumbbell':
        return 2
    if op['fn'] == 'interstitial' and op['scale']:
        return 1
    return 0


def _undecidable(st, op, flags):
    """is the site search of this request within rounding of a discontinuity?  On the dyadic grid only
    a NON-dyadic tolerance within 1e-9 of a distance is (a dyadic one — the tie — is decided exactly)."""
    if _geometry_exact(st, op):
        return 'near-tol' in flags and not (op['atol'] is not None and _is_dyadic(op['atol']))
    return bool(flags)          # off the grid every flag (also near-tol-exact-root) is a possible rounding flip


def _expected(st, op):
    """('err', class, reason) | ('ok', expected rows, info) | ('skip', why).  Written from the property
    text / docstrings: structural (slices), no index lists."""
    n = len(st['rows'])
    atol = _atol_frac(op)
    kw = op['kw']
    fn = op['fn']
    if op['via'] == 'point':
        t = op['ptd_type']
        if t not in ('v', 'i', 's', 'db'):
            return ('err', 'value', 'invalid ptd_type')
        if t == 'v' and (op['db_vect'] is not None or kw):
            return ('err', 'assert', 'vacancy takes no db_vect / properties')
        if t == 'i' and (op['ptd_id'] is not None or op['db_vect'] is not None):
            return ('err', 'assert', 'interstitial takes no ptd_id / db_vect')
        if t == 's' and op['db_vect'] is not None:
            return ('err', 'assert', 'substitutional takes no db_vect')
    if fn == 'interstitial':
        cart = _cart(st, op)
        hits, flags = _sites(st, cart, atol)
        if _undecidable(st, op, flags):
            return ('skip', 'borderline distance')
        if hits:
            return ('err', 'value', f'interstitial site occupied by atom(s) {hits} within atol={float(atol)!r}')
        site = None
    else:
        if op['pos'] is not None and op['ptd_id'] is not None:
            return ('err', 'value', 'both pos and ptd_id')
        if op['pos'] is None and op['ptd_id'] is None:
            return ('err', 'value', 'neither pos nor ptd_id')
        if op['pos'] is not None:
            cart = _cart(st, op)
            hits, flags = _sites(st, cart, atol)
            if _undecidable(st, op, flags):
                return ('skip', 'borderline distance')
            if len(hits) == 0:
                return ('err', 'value', f'no atom within atol={float(atol)!r} of pos')
            if len(hits) > 1:
                return ('err', 'value', f'ambiguous site: atoms {hits} within atol={float(atol)!r}')
            site = hits[0]
        else:
            i = op['ptd_id']
            if not (-n <= i < n):
                return ('err', 'value', 'index out of range')
            site = i % n
    rows = [dict(r, orig=j) for j, r in enumerate(st['rows'])]

    def oldval(r):
        return r['old'] if st['hasold'] else r['orig']

    def requested(r, default_zero=False):
        props = {}
        for k in st['keys']:
            if k in kw:
                props[k] = [_F(x) for x in kw[k]['flat']]
            elif default_zero:
                props[k] = [Fraction(0)] * len(r['props'][k])
            else:
                props[k] = list(r['props'][k])
        return props
    if fn == 'vacancy':
        if n == 1:
            return ('err', 'value', 'removing the only atom leaves no system')
        out = rows[:site] + rows[site + 1:]
        exp = [dict(atype=r['atype'], pos=r['pos'], props=r['props'], old=oldval(r), orig=r['orig']) for r in out]
        return ('ok', exp, {'site': site, 'ndefect': 0})
    others = rows if fn == 'interstitial' else rows[:site] + rows[site + 1:]
    exp = [dict(atype=r['atype'], pos=r['pos'], props=r['props'], old=oldval(r), orig=r['orig']) for r in others]
    allold = [oldval(r) for r in rows]
    if fn == 'interstitial':
        exp.append(dict(atype=kw.get('atype', 1), pos=cart, props=requested(rows[0], True),
                        old=kw.get('old_id', max(allold) + 1), orig=None))
        return ('ok', exp, {'site': None, 'ndefect': 1})
    a = rows[site]
    if fn == 'substitutional':
        t = kw.get('atype', 1)
        if a['atype'] == t:
            return ('err', 'value', 'atom already has the requested type')
        exp.append(dict(atype=t, pos=a['pos'], props=requested(a), old=kw.get('old_id', oldval(a)),
                        orig=None if 'old_id' in kw else a['orig']))
        return ('ok', exp, {'site': site, 'ndefect': 1})
    db = [Fraction(float(x)) for x in op['db_vect']]
    if op['scale']:
        db = _vecmat(db, st['vects'])        # a vector: no origin
    exp.append(dict(atype=a['atype'], pos=[p - d for p, d in zip(a['pos'], db)], props=a['props'], old=oldval(a),
                    orig=a['orig']))
    exp.append(dict(atype=kw.get('atype', a['atype']), pos=[p + d for p, d in zip(a['pos'], db)], props=requested(a),
                    old=kw.get('old_id', max(allold) + 1), orig=None))
    return ('ok', exp, {'site': site, 'ndefect': 2})


def _check_result(st, op, exp, info, res, before, after, system, result):
    """clauses of the property on one accepted insertion; returns list of (key, message)."""
    np = _np()
    bad = []
    fn = op['fn']
    n = len(st['rows'])
    want_n = {'vacancy': n - 1, 'interstitial': n + 1, 'substitutional': n, 'dumbbell': n + 1}[fn]
    if len(res['rows']) != want_n:
        bad.append((fn + ':count', f'{fn}: {n} atoms -> {len(res["rows"])}, documented change gives {want_n}'))
        return bad
    if res['vects'] != st['vects'] or res['origin'] != st['origin'] or res['pbc'] != st['pbc']:
        bad.append((fn + ':cell', f'{fn}: the cell (vects/origin/pbc) of the result differs from the input'))
    if list(res['symbols'][:len(st['symbols'])]) != list(st['symbols']) or \
            any(s is not None for s in res['symbols'][len(st['symbols']):]):
        bad.append((fn + ':symbols', f'{fn}: symbols {st["symbols"]} -> {res["symbols"]}'))
    if list(res['masses'][:len(st['masses'])]) != list(st['masses']) or \
            any(m is not None for m in res['masses'][len(st['masses']):]) or len(res['masses']) != len(res['symbols']):
        bad.append((fn + ':masses', f'{fn}: per-type masses {[None if m is None else float(m) for m in st["masses"]]} -> '
                    f'{[None if m is None else float(m) for m in res["masses"]]} (symbols {res["symbols"]})'))
    if res['keys'] != st['keys']:
        bad.append((fn + ':keys', f'{fn}: property keys {st["keys"]} -> {res["keys"]}'))
        return bad
    if not res['hasold']:
        bad.append((fn + ':old_id-missing', f'{fn}: result has no old_id property'))
        return bad
    for k, dt in res['dtypes'].items():
        want_dt = st['dtypes'].get(k, ('i', []) if k == 'old_id' else None)
        if want_dt is not None and (dt[0] != want_dt[0] or dt[1] != want_dt[1]) and not (k == 'old_id' and dt[0] in 'iu'):
            bad.append((fn + ':dtype', f'{fn}: property {k} changed its dtype kind / per-atom shape {want_dt} -> {dt}'))
    nd = info['ndefect']
    loose = _loose(st, op) > 0
    for j, (e, g) in enumerate(zip(exp, res['rows'])):
        role = 'other' if j < len(exp) - nd else 'defect'
        if e['atype'] != g['atype']:
            bad.append((f'{fn}:{role}-atype', f'{fn}: atom {j} ({role}) atype {g["atype"]}, expected {e["atype"]}'))
        if e['pos'] != g['pos']:
            tol_ok = loose and role == 'defect' and all(
                abs(p - q) <= Fraction(1, 10 ** 12) * (1 + abs(q)) for p, q in zip(g['pos'], e['pos']))
            if not tol_ok:
                bad.append((f'{fn}:{role}-pos', f'{fn}: atom {j} ({role}) pos {[float(x) for x in g["pos"]]}, '
                            f'expected {[float(x) for x in e["pos"]]}'))
        if e['props'] != g['props']:
            bad.append((f'{fn}:{role}-props', f'{fn}: atom {j} ({role}) properties '
                        f'{ {k: [float(x) for x in v] for k, v in g["props"].items()} }, expected '
                        f'{ {k: [float(x) for x in v] for k, v in e["props"].items()} }'))
        if e['old'] != g['old']:
            bad.append((f'{fn}:{role}-old_id', f'{fn}: atom {j} ({role}) old_id {g["old"]}, expected {e["old"]}'
                        + ('' if st['hasold'] else f' (its index in the input)')))
    if before != after:
        bad.append((fn + ':input-mutated', f'{fn}: the input system was modified: '
                    f'{[k for k in before if before[k] != after.get(k)]}'))
    if result is not None:
        if result.box is system.box or result.atoms is system.atoms:
            bad.append((fn + ':aliasing', f'{fn}: result shares its Box/Atoms object with the input'))
        for k in result.atoms_prop():
            if k in system.atoms_prop() and np.shares_memory(result.atoms.view[k], system.atoms.view[k]):
                bad.append((fn + ':aliasing', f'{fn}: result property {k} shares memory with the input'))
        if np.shares_memory(result.box.vects, system.box.vects):
            bad.append((fn + ':aliasing', f'{fn}: result box shares memory with the input box'))
    return bad


def _oracle_step(system, op):
    """run one insertion on the real code and judge it. Returns (status, result-or-None, findings, exp)."""
    st = _state(system)
    before = _snapshot(system)
    out = _call(op, system)
    after = _snapshot(system)
    exp = _expected(st, op)
    findings = []
    fn = op['fn']
    if before != after:
        findings.append((fn + ':input-mutated', f'{fn}: the input system was modified by the call'))
    if exp[0] == 'skip':
        return ('skip', out[1] if out[0] == 'ok' else None, findings, exp)
    if exp[0] == 'err':
        if out[0] == 'ok':
            findings.append((f'{fn}:not-refused', f'{fn} accepted a request that must be refused ({exp[2]})'))
            return ('bad', out[1], findings, exp)
        if out[1] != exp[1]:
            findings.append((f'{fn}:refusal-class', f'{fn} refused with {out[2]} where {exp[1]} ({exp[2]}) is documented'))
        return ('refused', None, findings, exp)
    if out[0] == 'err':
        findings.append((f'{fn}:refused-valid', f'{fn} refused a valid request (site {exp[2]["site"]}): {out[2]}'))
        return ('bad', None, findings, exp)
    res = _state(out[1])
    findings += _check_result(st, op, exp[1], exp[2], res, before, after, system, out[1])
    return ('ok' if not findings else 'bad', out[1], findings, exp)


def _sys_desc_of(system):
    """plain-data description (replayable) of a live System."""
    np = _np()
    d = {'vects': system.box.vects.tolist(), 'origin': system.box.origin.tolist(), 'pbc': [bool(b) for b in system.pbc],
         'symbols': list(system.symbols), 'masses': [None if m is None else float(m) for m in system.masses],
         'atype': [int(x) for x in system.atoms.atype], 'pos': system.atoms.pos.tolist(),
         'props': {}, 'old_id': None, 'old_first': False}
    for k in system.atoms_prop():
        a = system.atoms.view[k]
        if k == 'old_id':
            d['old_id'] = [int(x) for x in a]
            d['old_first'] = list(system.atoms_prop()).index('old_id') == 2 and len(system.atoms_prop()) > 3
        elif k not in RESERVED:
            dt = 'float' if a.dtype.kind == 'f' else ('bool' if a.dtype.kind == 'b' else 'int')
            d['props'][k] = {'dtype': dt, 'shape': list(a.shape[1:]), 'data': a.reshape(len(a), -1).tolist()}
    return d


# ----------------------------------------------------------------------------------------
# correspondence
# ----------------------------------------------------------------------------------------

def _nontrivial(op, out):
    return not any(s.startswith('dispatch:') for s in op['note']) and \
        not (op['pos'] is None and op['ptd_id'] is None and op['fn'] != 'interstitial') and \
        not (op['pos'] is not None and op['ptd_id'] is not None)


def _corr_op(ctx, system, desc, hist, op, it, sline, lines, checks, dist, label='corr'):
    """queue one insertion for the model and run it on the implementation."""
    st = _state(system)
    before = _snapshot(system)
    out = _call(op, system)
    after = _snapshot(system)
    exp = _expected(st, op)
    line = _op_line(op)
    lines.append(line)
    want = 'ok ' + _dump(out[1]) if out[0] == 'ok' else 'err:' + out[1]
    loose = _loose(st, op)
    exempt = exp[0] == 'skip'
    checks.append(('op', desc, list(hist), want, (loose, exempt, before != after, out), it))
    kind = op['fn'] + ('/point' if op['via'] == 'point' else '') + ':' + ('ok' if out[0] == 'ok' else out[1])
    dist[kind] = dist.get(kind, 0) + 1
    tl = [x for x in op['note'] if x.startswith('atol:')]
    if tl and op['pos'] is not None:
        key = tl[0] + '/' + (op.get('atol_type', 'float') if op['atol'] is not None else 'None')
        dist[key] = dist.get(key, 0) + 1
    ctx.stats.case(label + ':' + kind, (sline, line), nontrivial=_nontrivial(op, out),
                   sample={'system': {k: desc.get(k) for k in ('cell', 'vects', 'origin', 'pbc', 'atype')},
                           'op': {k: v for k, v in op.items() if k != 'kw'}, 'kwargs': sorted(op['kw']),
                           'outcome': out[0] if out[0] == 'ok' else out[1]})
    return out, loose


def correspond(ctx):
    rng = ctx.rng
    nsys = ctx.n(600, 6000)
    lines, checks = [], []
    dist = {}
    for it in range(nsys):
        desc = _gen_system(rng)
        system = _mk_system(desc)
        sline = 'sys ' + _dump(system)
        lines.append(sline)
        checks.append(('sys', desc, None, 'ok ' + _dump(system), None, it))
        nops = rng.choice([1, 2, 3, 4])
        hist = []
        for k in range(nops):
            op = _gen_op(rng, system)
            hist.append(op)
            out, loose = _corr_op(ctx, system, desc, hist, op, it, sline, lines, checks, dist)
            if out[0] == 'ok':
                system = out[1]
                if loose:
                    # positions computed in floating point from inexact box-relative input: hand the
                    # implementation's rounded state to the driver so that later steps start equal
                    lines.append('sys ' + _dump(system))
                    checks.append(('sys', desc, None, 'ok ' + _dump(system), None, it))
    # the tolerance dimension, systematically: independent requests on one system each
    it = nsys
    for q in range(ctx.n(10, 80)):
        desc = _gen_system(rng, natoms=rng.choice([1, 2, 3, 4, 5, 6]))
        system = _mk_system(desc)
        sline = 'sys ' + _dump(system)
        for op in _sweep_ops(rng, system, ctx.n(2, 4)):
            it += 1
            lines.append(sline)
            checks.append(('sys', desc, None, 'ok ' + _dump(system), None, it))
            _corr_op(ctx, system, desc, [op], op, it, sline, lines, checks, dist, label='corr-sweep')
    outs = ctx.driver.ask_many(lines)
    ctx.extra['correspondence_outcomes'] = dist
    dead = set()
    nex = 0
    for (kind, desc, hist, want, aux, it), got in zip(checks, outs):
        if it in dead:
            continue
        if kind == 'sys':
            if got != want:
                dead.add(it)
                ctx.disagree('sys-roundtrip', f'driver did not read the system back: {got[:120]}',
                             {'op': 'history', 'system': desc, 'ops': []})
            continue
        loose, exempt, mutated, out = aux
        op = hist[-1]
        if mutated:
            ctx.disagree(op['fn'] + ':input-mutated', f'{op["fn"]} modified its input system (the model is functional)',
                         {'op': 'history', 'system': desc, 'ops': hist})
        if exempt:
            nex += 1
            dead.add(it)          # states may have diverged legitimately: stop comparing this history
            continue
        same = (got == want) if not got.startswith('ok ') or not want.startswith('ok ') else \
            _same_dump(want[3:], got[3:], loose)
        if not same:
            dead.add(it)
            what = f'{op["fn"]} ({"point" if op["via"] == "point" else "direct"}; notes {op["note"]}): implementation ' \
                   f'{_brief(want, out)} != model {_brief(got, None)}'
            ctx.disagree(op['fn'] + ':' + ('outcome' if (got[:3] != want[:3]) else 'system'), what,
                         {'op': 'history', 'system': desc, 'ops': hist, 'impl': want[:400], 'model': got[:400]})
    ctx.extra['correspondence_exempt_borderline'] = nex


def _brief(text, out):
    if text.startswith('ok '):
        return 'accepted: ' + text[3:][:160] + ('…' if len(text) > 163 else '')
    return text + (f' [{out[2]}]' if out is not None and out[0] == 'err' else '')


# ----------------------------------------------------------------------------------------
# search: the property's clauses on the real code
# ----------------------------------------------------------------------------------------

def _equal_results(a, b):
    return _snapshot(a) == _snapshot(b)


def _selection_equivalence(ctx, system, op, exp, result, desc, hist):
    """pos (Cartesian, box-relative, through an adjacent periodic image) == index selection."""
    if op['fn'] == 'interstitial' or exp[0] != 'ok' or result is None:
        return
    site = exp[2]['site']
    st = _state(system)
    n = len(st['rows'])
    atol = _atol_frac(op)
    base = st['rows'][site]['pos']
    variants = []
    # by index, positive and negative
    variants.append(('index', dict(op, pos=None, ptd_id=site)))
    variants.append(('negative index', dict(op, pos=None, ptd_id=site - n)))
    # unique at its own position?  (no other atom within atol of it, in the oracle's exact arithmetic)
    hits, flags = _sites(st, base, atol)
    if hits == [site] and not _undecidable(st, dict(op, pos=[float(x) for x in base]), flags):
        variants.append(('Cartesian pos', dict(op, pos=[float(x) for x in base], ptd_id=None, scale=False,
                                               db_vect=_db_as(op, st, False))))
        shift = [ctx.rng.choice([-1, 0, 1]) if pb else 0 for pb in st['pbc']]
        img = [b + s for b, s in zip(base, _vecmat(shift, st['vects']))]
        variants.append((f'Cartesian pos through image {shift}', dict(op, pos=[float(x) for x in img], ptd_id=None,
                                                                     scale=False, db_vect=_db_as(op, st, False))))
        inv = _inv(st['vects'])
        rel = _vecmat([c - o for c, o in zip(img, st['origin'])], inv)
        if all(Fraction(float(x)) == x for x in rel) and all(Fraction(float(x)) == x for x in _db_rel(op, st, inv)):
            variants.append((f'box-relative pos through image {shift}',
                             dict(op, pos=[float(x) for x in rel], ptd_id=None, scale=True,
                                  db_vect=[float(x) for x in _db_rel(op, st, inv)] if op['db_vect'] is not None else None)))
    for name, v in variants:
        v = dict(v, note=[])
        for style in (['array'] if 'index' in name else ['array', 'list', 'tuple']):
            v['posstyle'] = style
            out = _call(v, system)
            ctx.stats.case('oracle:selection:' + name.split(' through')[0], (repr(desc), repr(hist), name, style))
            if out[0] != 'ok':
                ctx.violate(f'{op["fn"]}:selection-refused',
                            f'{op["fn"]}: atom {site} selected by {name} ({style}) is refused ({out[2]}) although the same '
                            f'site is accepted when selected as in the original request',
                            {'op': 'history', 'system': desc, 'ops': hist[:-1] + [op], 'variant': v, 'how': name})
            elif not _equal_results(out[1], result):
                ctx.violate(f'{op["fn"]}:selection-differs',
                            f'{op["fn"]}: selecting atom {site} by {name} ({style}) gives a different system than the original request',
                            {'op': 'history', 'system': desc, 'ops': hist[:-1] + [op], 'variant': v, 'how': name})


def _db_as(op, st, scale):
    """db_vect of the op expressed for scale=False (Cartesian)."""
    if op['db_vect'] is None:
        return None
    db = [Fraction(float(x)) for x in op['db_vect']]
    if op['scale']:
        db = _vecmat(db, st['vects'])
    return [float(x) for x in db]


def _db_rel(op, st, inv):
    if op['db_vect'] is None:
        return [Fraction(0)] * 3
    db = [Fraction(float(x)) for x in op['db_vect']]
    if not op['scale']:
        db = _vecmat(db, inv)
    return db


def _run_history(ctx, desc, ops, label, gen=None, nops=0):
    """judge a history on the real code (ops given, or generated step by step with `gen`)."""
    system = _mk_system(desc)
    first_hasold = desc.get('old_id') is not None
    prov = list(range(system.natoms))          # index in the first system of every current atom (None: created)
    hist = []
    k = 0
    while True:
        if gen is not None:
            if k >= nops:
                break
            op = gen(system)
        else:
            if k >= len(ops):
                break
            op = ops[k]
        k += 1
        hist.append(op)
        status, result, findings, exp = _oracle_step(system, op)
        ctx.stats.case(f'oracle:{label}:{op["fn"]}:{status}', (repr(desc), repr(hist)),
                       nontrivial=status != 'skip',
                       sample={'first_system': {q: desc[q] for q in ('vects', 'origin', 'pbc', 'atype')},
                               'history': [o['fn'] for o in hist], 'last': {q: v for q, v in op.items() if q != 'kw'},
                               'status': status})
        for key, msg in findings:
            ctx.violate(key, msg + f' [history of {len(hist)} insertion(s), {label}]',
                        {'op': 'history', 'system': desc, 'ops': list(hist)})
        if status == 'ok' and gen is not None:
            _selection_equivalence(ctx, system, op, exp, result, desc, hist)
        if result is None:
            continue                       # refused: the system stays as it was
        if exp[0] == 'ok' and len(exp[1]) == result.natoms:
            prov = [None if e['orig'] is None else prov[e['orig']] for e in exp[1]]
            # composition: old_id of a survivor is its index in the first system
            if not first_hasold and 'old_id' in result.atoms_prop():
                for j, p in enumerate(prov):
                    if p is not None and int(result.atoms.old_id[j]) != p:
                        ctx.violate(f'{op["fn"]}:old_id-composition',
                                    f'after {len(hist)} insertions atom {j} is atom {p} of the first system but has '
                                    f'old_id {int(result.atoms.old_id[j])}',
                                    {'op': 'history', 'system': desc, 'ops': list(hist)})
                        break
        else:
            prov = [None] * result.natoms      # exempt / misjudged step: provenance unknown from here on
        system = result
    return system


def _special_cases(ctx, rng):
    """inputs the random generator reaches rarely: integer-valued positions given as Python ints,
    one-atom systems, list/tuple positions."""
    # integer-valued atom positions, requested with Python ints / an integer array
    for it in range(ctx.n(12, 60)):
        n = rng.choice([1, 2, 3, 4, 5])
        a = rng.choice([2.0, 4.0])
        cells = [(x, y, z) for x in range(int(a)) for y in range(int(a)) for z in range(int(a))]
        pts = rng.sample(cells, n)
        if it % 2 == 0:
            pts[0] = (0, 0, 0)
        desc = {'cell': 'cubic', 'vects': [[a, 0, 0], [0, a, 0], [0, 0, a]], 'origin': [0.0, 0.0, 0.0],
                'pbc': [True, True, True], 'symbols': ['Al', 'Cu'], 'atype': [1 + (i % 2) for i in range(n)],
                'pos': [[float(c) for c in p] for p in pts], 'props': {}, 'old_id': None, 'old_first': False}
        for fn in ('vacancy', 'substitutional', 'dumbbell', 'interstitial'):
            i = rng.randrange(n)
            for style in ('intlist', 'intarray', 'list'):
                if fn == 'interstitial':
                    free = [c for c in cells if c not in pts]
                    pos = list(rng.choice(free))
                    kw = {}
                else:
                    pos = list(pts[i])
                    kw = {'atype': 3} if fn == 'substitutional' else {}
                op = {'fn': fn, 'via': 'direct', 'ptd_type': FN_TYPE[fn], 'pos': [float(x) for x in pos], 'ptd_id': None,
                      'db_vect': [0.25, 0.0, 0.0] if fn == 'dumbbell' else None, 'scale': False, 'atol': None, 'kw': kw,
                      'note': ['integer-valued pos'], 'posstyle': style}
                _run_history(ctx, desc, [op], 'intpos-' + style)
    # one-atom systems: every generator, by index and by position
    for it in range(ctx.n(6, 40)):
        desc = _gen_system(rng, natoms=1)

        def gen(system, rng=rng):
            return _gen_op(rng, system)
        _run_history(ctx, desc, None, 'one-atom', gen=gen, nops=3)


def search(ctx, broken):
    rng = random.Random(ctx.seed * 7919 + 15)
    nsys = ctx.n(300, 4000) * (3 if broken else 1)
    for it in range(nsys):
        desc = _gen_system(rng)

        def gen(system, rng=rng):
            return _gen_op(rng, system)
        _run_history(ctx, desc, None, 'random', gen=gen, nops=rng.choice([1, 2, 3, 4]))
    _special_cases(ctx, rng)
    _tolerance_sweep(ctx, rng, broken)


def _tolerance_sweep(ctx, rng, broken):
    """every tolerance candidate around every kind of offset, judged by the oracle (see _sweep_ops)."""
    for q in range(ctx.n(10, 80) * (2 if broken else 1)):
        desc = _gen_system(rng, natoms=rng.choice([1, 2, 3, 4, 5, 6]))
        system = _mk_system(desc)
        for op in _sweep_ops(rng, system, ctx.n(2, 4)):
            _run_history(ctx, desc, [op], 'tol-sweep')


def replay(ctx, payload):
    r = payload.get('replay', {}) or {}
    if r.get('op') == 'history' and 'system' in r:
        ops = list(r.get('ops', []))
        before = len(ctx.violations)
        _run_history(ctx, r['system'], ops, 'replay')
        if 'variant' in r and ops:
            # selection-equivalence case: run the history up to the last op, then both requests
            system = _mk_system(r['system'])
            for op in ops[:-1]:
                out = _call(op, system)
                if out[0] == 'ok':
                    system = out[1]
            a, b = _call(ops[-1], system), _call(r['variant'], system)
            print('replay: original request ->', a[0], '; variant', r.get('how'), '->', b[0], b[2] if b[0] == 'err' else '')
            if a[0] == 'ok' and (b[0] != 'ok' or not _equal_results(a[1], b[1])):
                ctx.violate(ops[-1]['fn'] + ':selection', 'replayed selection variant still differs', r)
        print(f'replay: {len(ctx.violations) - before} finding(s)')
        for f in ctx.violations[before:]:
            print('  ', f.what)
        if ctx.driver is not None:
            system = _mk_system(r['system'])
            print('model:', ctx.driver.ask('sys ' + _dump(system))[:200])
            for op in ops:
                print('model:', ctx.driver.ask(_op_line(op))[:300])
    else:
        search(ctx, True)


MANIFEST = {
    'text': 'Lean 4 model of defect/point.py on lists of atom records (site search through the shared dvect loops, index '
            'normalisation, the index lists as coded, old_id created only when absent, per-property assignment, dumbbell '
            '+-db_vect with scale converting it as a vector, the dispatcher). Proved for every ordered field: the four '
            'generators change exactly the documented atoms (others identical, in order; defect atoms last with the requested '
            'values), the cell is kept, old_id is the index in the input and composes over ANY history of insertions '
            '(induction), selection by Cartesian / box-relative position (also through an adjacent periodic image) equals '
            'selection by index, each refusal, the tolerance rule (atol=None and only None is the default, the dispatcher passes it '
            'through, closed ball, monotone, zero/negative tolerance = exact hit only), symbols and per-type masses kept and '
            'padded. Tied to the code by a differential run of short insertion histories on '
            'random systems; the clauses are evaluated on the real code by an independent Fraction oracle.',
    'note': 'Trusted: Lean kernel + propext/Classical.choice/Quot.sound; the correspondence harness; numpy indexing and '
            'assignment. Images beyond the adjacent cells are outside dvect\'s candidate set (refused by model and code alike). '
            'numpy casting/broadcasting of kwargs values, interstitial without pos and dumbbell without db_vect are not modelled.',
    'technique': 'Lean 4 theorems over a hand-written model + differential correspondence + clause oracle on the real code',
}
